    ensures
        r is Ok ==> unexpired(*layout),   // [C06,C08]
        r is Err ==> exists|now: int| chrono::clock_reading(now) && chrono::instant(layout.expires) < now,     // [C06]
