        r is Ok ==> threshold >= 1,                              // [C04]
        r is Ok ==> self.signatures@.len() >= 1,                 // [C04]
        r is Ok ==> r->Ok_0 == self.metadata,                    // [C04]
        r is Ok ==> exists|good: Set<KeyId>| good.len() >= threshold
            && forall|id: KeyId| good.contains(id) ==> counted_ok(*self, $KEYS, id),   // [C04]
        // completeness: when no key id repeats among the keys nor among the signatures, enough good ids guarantee success
        (threshold >= 1 && self.signatures@.len() >= 1 && signed_msg(self.metadata) is Some
            && sig_ids_distinct(self.signatures@) && key_ids_distinct($KEYS)
            && exists|good: Set<KeyId>| good.len() >= threshold && forall|id: KeyId| good.contains(id) ==> counted_ok(*self, $KEYS, id))
            ==> r is Ok,   // [C04]
