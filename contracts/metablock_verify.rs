        r is Ok ==> threshold >= 1,                              // [C04,C01,C02]
        r is Ok ==> self.signatures@.len() >= 1,                 // [C04,C01,C02]
        r is Ok ==> r->Ok_0 == self.metadata,                    // [C04,C01,C02]
        r is Ok ==> exists|good: Set<KeyId>| good.len() >= threshold
            && forall|id: KeyId| good.contains(id) ==> counted_ok(*self, $KEYS, id),   // [C04,C01,C02,C12]
        // completeness: when no key id repeats among the keys nor among the signatures, enough good ids guarantee success
        (threshold >= 1 && self.signatures@.len() >= 1 && signed_msg(self.metadata) is Some
            && sig_ids_distinct(self.signatures@) && key_ids_distinct($KEYS)
            && exists|good: Set<KeyId>| good.len() >= threshold && forall|id: KeyId| good.contains(id) ==> counted_ok(*self, $KEYS, id))
            ==> r is Ok,   // [C04,C01,C02,C09]
        // exact: success is a function of the views (later duplicates of a key id win, as in std's collect::<HashMap>)
        r is Ok <==> verify_ok(*self, threshold, $KEYS),   // [C04,C13,C01,C02,C12,C09]
