        r is Ok ==> threshold >= 1,                              // [C04]
        r is Ok ==> self.signatures@.len() >= 1,                 // [C04]
        r is Ok ==> r->Ok_0 == self.metadata,                    // [C04]
        r is Ok ==> exists|good: Set<KeyId>| good.len() >= threshold
            && forall|id: KeyId| good.contains(id) ==> counted_ok(*self, $KEYS, id),   // [C04]
