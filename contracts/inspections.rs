// ---- C08: what a completed inspection stage guarantees ----
// exit status recorded in a link's byproducts (None: no status was recorded)
pub uninterp spec fn bp_return_value(b: ByProducts) -> Option<i32>;
pub open spec fn exit_ok(l: LinkMetadata) -> bool { bp_return_value(l.byproducts) is None || bp_return_value(l.byproducts) == Some(0i32) }
// `cmd_ran(args, dir, b)`: byproducts `b` are what runlib::run_command(args, dir) reported (its meaning - exit code of the
// spawned process, UTF-8 of its streams, a process ended by a signal is an error - is proved in unit runcmd)
pub uninterp spec fn cmd_ran(args: Seq<Seq<char>>, dir: Option<Seq<char>>, b: ByProducts) -> bool;
// the link records a run of `args` under the given name (proved of runlib::in_toto_run in unit runlib_run)
pub open spec fn ran_as(name: Seq<char>, args: Seq<Seq<char>>, l: LinkMetadata) -> bool {
    l.name@ == name && exists|dir: Option<Seq<char>>| cmd_ran(args, dir, l.byproducts)
}
impl Command { pub closed spec fn words(self) -> Seq<String> { self.0@ } }
pub open spec fn cmd_tokens(c: Command) -> Seq<Seq<char>> { Seq::new(c.words().len(), |i: int| c.words()[i]@) }
pub open spec fn inspections_ran(layout: LayoutMetadata, links: Map<String, LinkMetadata>) -> bool {
    // every inspection of the layout has a link filed under its name ..
    (forall|i: int| 0 <= i < layout.inspect@.len() ==> links.contains_key(#[trigger] layout.inspect@[i].name))
    // .. and every link filed is the record of running that inspection's own command, which did not exit with a non-zero status
    && (forall|name: String| #[trigger] links.contains_key(name) ==> exists|i: int| 0 <= i < layout.inspect@.len()
            && (#[trigger] layout.inspect@[i]).name == name
            && ran_as(name@, cmd_tokens(layout.inspect@[i].run), links[name]) && exit_ok(links[name]))
}
