    requires rest(read).len() <= u64::MAX,
    ensures
        r is Ok ==> hash_algs@.len() > 0,     // [C18]
        r is Ok ==> r->Ok_0.0 == rest(read).len(),     // [C18]
        r is Ok ==> forall|i: int| 0 <= i < hash_algs@.len() ==> (#[trigger] r->Ok_0.1@.contains_key(hash_algs@[i]))
            && r->Ok_0.1@[hash_algs@[i]].bytes() == digest::digest_of(alg_id(hash_algs@[i]), rest(read)),   // [C18]
