    ensures
        (forall|j: int| !prefix_matches(link_metablock, j, signer_short_key_id@)) ==> final(links_per_step)@ == old(links_per_step)@,   // [C02,C07]
        (exists|j: int| prefix_matches(link_metablock, j, signer_short_key_id@)) ==> exists|j: int| #[trigger] prefix_matches(link_metablock, j, signer_short_key_id@)
            && (forall|i: int| 0 <= i < j ==> !prefix_matches(link_metablock, i, signer_short_key_id@))
            && final(links_per_step)@ == old(links_per_step)@.insert(link_metablock.signatures@[j].kid(), link_metablock),   // [C02,C07]
