    ensures
        r is Ok ==> step_links_ok(*step, links@, pubkeys@, r->Ok_0@),     // [C02,C15,C12]
        r is Ok ==> step_links_exact(*step, links@, pubkeys@, r->Ok_0@),     // [C13,C02,C15,C07]
        r is Ok <==> counting_links(*step, links@, pubkeys@).len() >= step.threshold,     // [C02,C13,C15,C12]
