    ensures
        r is Ok ==> step_links_ok(*step, links@, pubkeys@, r->Ok_0@),     // [C02]
