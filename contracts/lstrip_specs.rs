// ---- shared by units leftstrip (proving) and record (caller) ----
// str::starts_with / strip_prefix with a `&&str` pattern (prefix test on the texts)
pub uninterp spec fn pattern_text<P>(p: P) -> Seq<char>;
pub open spec fn is_prefix(p: Seq<char>, s: Seq<char>) -> bool { p.len() <= s.len() && s.subrange(0, p.len() as int) == p }
pub assume_specification<P: std::str::pattern::Pattern> [str::starts_with::<P>] (s: &str, p: P) -> (r: bool)
    ensures r == is_prefix(pattern_text(p), s@);
pub assume_specification<'a, P: std::str::pattern::Pattern> [str::strip_prefix::<P>] (s: &'a str, p: P) -> (r: Option<&'a str>)
    ensures is_prefix(pattern_text(p), s@) ==> r is Some && r->0@ == s@.subrange(pattern_text(p).len() as int, s@.len() as int),
            !is_prefix(pattern_text(p), s@) ==> r is None;
#[verifier::external_body]
pub proof fn fact_pattern_ref_ref_str()
    ensures forall|p: &&str| #[trigger] pattern_text::<&&str>(p) == (**p)@
{}

// C18: the longest (in bytes) matching strip-prefix is removed; among equally long ones the first
pub open spec fn blen(s: Seq<char>) -> nat { vstd::utf8::encode_utf8(s).len() }
pub open spec fn best_prefix(path: Seq<char>, ps: Seq<&str>, i: int) -> bool {
    0 <= i < ps.len() && is_prefix(ps[i]@, path)
    && forall|j: int| 0 <= j < ps.len() && is_prefix(#[trigger] ps[j]@, path) ==> blen(ps[j]@) <= blen(ps[i]@)
}
