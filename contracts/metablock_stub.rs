// ---- stub of Metablock::verify / to_bytes for caller units: exactly the contract proved in units/metablock.rs ----
pub uninterp spec fn keys_of<'a, I>(i: I) -> Seq<&'a PublicKey>;
// the two instantiations proved in units/metablock.rs (KEYS parameter of contracts/metablock_verify_body.rs)
#[verifier::external_body]
pub proof fn fact_keys_of_vec<'a>()
    ensures forall|v: Vec<&'a PublicKey>| #[trigger] keys_of::<Vec<&'a PublicKey>>(v) == v@
{}
#[verifier::external_body]
pub proof fn fact_keys_of_values<'a>()
    ensures forall|it: std::collections::hash_map::Values<'a, KeyId, PublicKey>|
        #[trigger] keys_of::<std::collections::hash_map::Values<'a, KeyId, PublicKey>>(it) == vstd::std_specs::iter::IteratorSpec::remaining(&it)
{}
impl Metablock {
//@extract src/models/metadata.rs impl:Metablock/fn:verify stub
//@contract ret=r
    ensures
//@include contracts/metablock_verify.rs KEYS=keys_of(authorized_keys)
//@end
}
