    requires forall|i: int| 0 <= i < layout.steps@.len() ==> reduced_link_files@.contains_key(#[trigger] layout.steps@[i].name),   // [C14]
    ensures
        r is Ok ==> r->Ok_0.metadata is Link,    // [C15]
        r is Ok ==> r->Ok_0.metadata->Link_0.name@ == name@,    // [C15]
        r is Ok && layout.steps@.len() > 0 ==> summary_of(*layout, reduced_link_files@, name@, r->Ok_0.metadata->Link_0),    // [C15]
