//@subst G1 /\.map\(\|k\| (\(k\.key_id\(\), k\))\)/ => .map(|k: &'a PublicKey| -> (r: (&'a KeyId, &'a PublicKey)) ensures *r.0 == k.kid(), r.1 == k { \1 })
//@subst G1 /\.map\(\|sig\| (\(sig\.key_id\(\), sig\))\)/ => .map(|sig: &Signature| -> (r: (&KeyId, &Signature)) ensures *r.0 == sig.kid(), r.1 == sig { \1 })
//@subst D24 /let signatures = self/ => let signatures_it = self
//@subst D24 /\.collect::<HashMap<&KeyId, &Signature>>\(\);/ => ; let ghost s_sig = vstd::std_specs::iter::IteratorSpec::remaining(&signatures_it); let signatures = signatures_it.collect::<HashMap<&KeyId, &Signature>>();
//@subst D24 /let authorized_keys = authorized_keys/ => let authorized_it = authorized_keys
//@subst D24 /\.collect::<HashMap<&KeyId, &PublicKey>>\(\);/ => ; let ghost s_auth = vstd::std_specs::iter::IteratorSpec::remaining(&authorized_it); let authorized_keys = authorized_it.collect::<HashMap<&KeyId, &PublicKey>>();
//@contract ret=r
    ensures
//@include contracts/metablock_verify.rs KEYS=$KEYS
//@before /if self\.signatures\.is_empty\(\)/
        let ghost keys0 = $KEYS;
        proof { fact_keyid_key_model(); }
//@before /let raw = self\.metadata\.to_bytes\(\)\?;/
        let ghost authmap = authorized_keys@;
        assert(forall|id: &KeyId| #[trigger] authmap.contains_key(id) ==> exists|i: int| 0 <= i < keys0.len() && (#[trigger] keys0[i]).kid() == *id && authmap[id] == keys0[i]);
        assert forall|i: int| 0 <= i < keys0.len() implies authmap.contains_key(&(#[trigger] keys0[i]).kid()) by {
            assert(authmap.contains_key(s_auth[i].0));
        }
        assert(s_auth.len() == keys0.len());
        assert(forall|i: int| 0 <= i < s_auth.len() ==> *(#[trigger] s_auth[i]).0 == keys0[i].kid() && *s_auth[i].1 == *keys0[i]);
        assert forall|id: &KeyId| #[trigger] authmap.contains_key(id) implies last_key_idx(keys0, *id) >= 0 && *authmap[id] == *keys0[last_key_idx(keys0, *id)] by {
            lemma_last_index_keys(s_auth, keys0, id);
        }
        assert forall|id: KeyId| last_key_idx(keys0, id) >= 0 implies #[trigger] authmap.contains_key(&id) by {
            lemma_last_key_idx(keys0, id);
            assert(authmap.contains_key(s_auth[last_key_idx(keys0, id)].0));
        }
//@after /let raw = self\.metadata\.to_bytes\(\)\?;/
        let ghost raw0 = raw@;
//@after /\.replace\("\\\\n", "\\n"\);/ optional
        proof { fact_replace_str_pattern(vstd::utf8::decode_utf8(raw0), "\\n", "\n"@); }
        assert(signed_msg(self.metadata) == Some(vstd::utf8::encode_utf8(metadata@)));
//@before /check the signatures, if is signed by an authorized key/
        let ghost sigmap = signatures@;
        assert(forall|id: &KeyId| #[trigger] sigmap.contains_key(id) ==> exists|j: int| 0 <= j < self.signatures@.len() && (#[trigger] self.signatures@[j]).kid() == *id && *sigmap[id] == self.signatures@[j]);
        assert forall|j: int| 0 <= j < self.signatures@.len() implies sigmap.contains_key(&(#[trigger] self.signatures@[j]).kid()) by {
            assert(sigmap.contains_key(s_sig[j].0));
        }
        assert(s_sig.len() == self.signatures@.len());
        assert(forall|j: int| 0 <= j < s_sig.len() ==> *(#[trigger] s_sig[j]).0 == self.signatures@[j].kid() && *s_sig[j].1 == self.signatures@[j]);
        assert forall|id: &KeyId| #[trigger] sigmap.contains_key(id) implies last_sig_idx(self.signatures@, *id) >= 0 && *sigmap[id] == self.signatures@[last_sig_idx(self.signatures@, *id)] by {
            lemma_last_index_sigs(s_sig, self.signatures@, id);
        }
        assert forall|id: KeyId| sig_ids(*self).contains(id) implies #[trigger] sigmap.contains_key(&id) by {
            let m = self.signatures@.map_values(|s: Signature| s.kid());
            let j = choose|j: int| 0 <= j < m.len() && m[j] == id;
            assert(sigmap.contains_key(s_sig[j].0));
        }
        assert forall|id: &KeyId| #[trigger] sigmap.contains_key(id) implies sig_ids(*self).contains(*id) by {
            let m = self.signatures@.map_values(|s: Signature| s.kid());
            let j = last_sig_idx(self.signatures@, *id);
            lemma_last_sig_idx(self.signatures@, *id);
            assert(m[j] == *id);
        }
        let ghost mut counted: Set<KeyId> = Set::empty();
//@loop 1 iter=it
            invariant_except_break
                signatures_needed >= 1,
            invariant
                threshold >= 1,
                signatures_needed <= threshold,
                signed_msg(self.metadata) == Some(vstd::utf8::encode_utf8(metadata@)),
                forall|i: int, j: int| 0 <= i < j < it.seq().len() ==> (#[trigger] it.seq()[i]).0 != (#[trigger] it.seq()[j]).0,
                forall|i: int| 0 <= i < it.seq().len() ==> sigmap.contains_key((#[trigger] it.seq()[i]).0) && sigmap[it.seq()[i].0] == it.seq()[i].1,
                forall|k: KeyId| counted.contains(k) ==> exists|i: int| 0 <= i < it.index() && *(#[trigger] it.seq()[i]).0 == k,
                counted.len() == threshold - signatures_needed,
                forall|k: KeyId| counted.contains(k) ==> counted_ok(*self, keys0, k),
                forall|k: KeyId| counted.contains(k) ==> good_ids(*self, keys0).contains(k),
                forall|id: &KeyId| #[trigger] authmap.contains_key(id) ==> last_key_idx(keys0, *id) >= 0 && *authmap[id] == *keys0[last_key_idx(keys0, *id)],
                forall|id: KeyId| last_key_idx(keys0, id) >= 0 ==> #[trigger] authmap.contains_key(&id),
                forall|id: &KeyId| #[trigger] sigmap.contains_key(id) ==> last_sig_idx(self.signatures@, *id) >= 0 && *sigmap[id] == self.signatures@[last_sig_idx(self.signatures@, *id)],
                forall|id: KeyId| sig_ids(*self).contains(id) <==> #[trigger] sigmap.contains_key(&id),
                forall|id: &KeyId| #[trigger] sigmap.contains_key(id) ==> exists|j: int| 0 <= j < self.signatures@.len() && (#[trigger] self.signatures@[j]).kid() == *id && *sigmap[id] == self.signatures@[j],
                forall|id: &KeyId| #[trigger] authmap.contains_key(id) ==> exists|i: int| 0 <= i < keys0.len() && (#[trigger] keys0[i]).kid() == *id && authmap[id] == keys0[i],
                authmap == authorized_keys@,
                vstd::std_specs::hash::obeys_key_model::<&KeyId>(),
                forall|id: &KeyId| sigmap.contains_key(id) ==> exists|i: int| 0 <= i < it.seq().len() && (#[trigger] it.seq()[i]).0 == id,
                forall|i: int| 0 <= i < it.index() ==> (authmap.contains_key((#[trigger] it.seq()[i]).0) && authmap[it.seq()[i].0].sig_ok(vstd::utf8::encode_utf8(metadata@), *it.seq()[i].1)) ==> counted.contains(*it.seq()[i].0),
            ensures
                signatures_needed > 0 ==> forall|id: &KeyId| (#[trigger] sigmap.contains_key(id) && authmap.contains_key(id) && authmap[id].sig_ok(vstd::utf8::encode_utf8(metadata@), *sigmap[id])) ==> counted.contains(*id),
//@before /signatures_needed -= 1;/
                        proof {
                            assert(sigmap.contains_key(key_id) && sigmap[key_id] == sig);
                            assert(authmap.contains_key(key_id) && authmap[key_id] == *pub_key);
                            let i0 = choose|i: int| 0 <= i < keys0.len() && (#[trigger] keys0[i]).kid() == *key_id && authmap[key_id] == keys0[i];
                            let j0 = choose|j: int| 0 <= j < self.signatures@.len() && (#[trigger] self.signatures@[j]).kid() == *key_id && *sigmap[key_id] == self.signatures@[j];
                            assert(keys0[i0] == *pub_key);
                            assert(self.signatures@[j0] == *sig);
                            assert(pub_key.sig_ok(vstd::utf8::encode_utf8(metadata@), *sig));
                            assert(keys0[i0].sig_ok(signed_msg(self.metadata)->0, self.signatures@[j0]));
                            assert(counted_ok(*self, keys0, *key_id));
                            assert(good_id(*self, keys0, *key_id));
                            assert(good_ids(*self, keys0).contains(*key_id));
                            assert(!counted.contains(*key_id));
                            counted = counted.insert(*key_id);
                        }
//@before /return Err\(Error::VerificationFailure\(format!\(/
            assert(!verify_ok(*self, threshold, keys0)) by {
                let msg = vstd::utf8::encode_utf8(metadata@);
                assert forall|id: KeyId| good_ids(*self, keys0).contains(id) implies counted.contains(id) by {
                    assert(sigmap.contains_key(&id));
                    assert(authmap.contains_key(&id));
                    assert(authmap[&id].sig_ok(msg, *sigmap[&id]));
                }
                vstd::set_lib::lemma_len_subset(good_ids(*self, keys0), counted);
            }
            assert(!(sig_ids_distinct(self.signatures@) && key_ids_distinct(keys0)
                    && exists|good: Set<KeyId>| good.len() >= threshold && forall|id: KeyId| good.contains(id) ==> counted_ok(*self, keys0, id))) by {
                if sig_ids_distinct(self.signatures@) && key_ids_distinct(keys0)
                    && exists|good: Set<KeyId>| good.len() >= threshold && forall|id: KeyId| good.contains(id) ==> counted_ok(*self, keys0, id) {
                    let good = choose|good: Set<KeyId>| good.len() >= threshold && forall|id: KeyId| good.contains(id) ==> counted_ok(*self, keys0, id);
                    let msg = vstd::utf8::encode_utf8(metadata@);
                    assert forall|id: KeyId| good.contains(id) implies counted.contains(id) by {
                        assert(counted_ok(*self, keys0, id));
                        let (i, j) = choose|i: int, j: int| 0 <= i < keys0.len() && 0 <= j < self.signatures@.len()
                            && (#[trigger] keys0[i]).kid() == id && (#[trigger] self.signatures@[j]).kid() == id
                            && keys0[i].sig_ok(signed_msg(self.metadata)->0, self.signatures@[j]);
                        assert(sigmap.contains_key(&id));
                        assert(authmap.contains_key(&id));
                        let j2 = choose|j2: int| 0 <= j2 < self.signatures@.len() && (#[trigger] self.signatures@[j2]).kid() == id && *sigmap[&id] == self.signatures@[j2];
                        assert(j2 == j);
                        let i2 = choose|i2: int| 0 <= i2 < keys0.len() && (#[trigger] keys0[i2]).kid() == id && authmap[&id] == keys0[i2];
                        assert(i2 == i);
                        assert(authmap[&id].sig_ok(msg, *sigmap[&id]));
                    }
                    vstd::set_lib::lemma_len_subset(good, counted);
                    assert(false);
                }
            }
//@before /Ok\(self\.metadata\.clone\(\)\)/
        proof { vstd::set_lib::lemma_len_subset(counted, good_ids(*self, keys0)); }
