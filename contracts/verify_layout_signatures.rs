    requires layout_keys@.len() <= u32::MAX,   // documented precondition: fewer than 2^32 trusted keys (`len() as u32`)
    ensures
        r is Ok ==> r->Ok_0 == layout.metadata,                     // [C01]
        r is Ok ==> owner_gate(*layout, layout_keys@),              // [C01,C08]
