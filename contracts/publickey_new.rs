    ensures r is Ok ==> r->Ok_0.scheme_v() == scheme && r->Ok_0.typ_v() == typ && r->Ok_0.bytes_v() == value@,   // [C12,C09] the key holds what it was given
