// assumed: Json::canonicalize(Json::serialize(m)) is a deterministic partial function of m
pub uninterp spec fn canon_bytes(m: MetadataWrapper) -> Option<Seq<u8>>;
impl MetadataWrapper {
    #[verifier::external_body]
    pub fn to_bytes(&self) -> (r: Result<Vec<u8>>)
        ensures match canon_bytes(*self) { Some(b) => r is Ok && r->Ok_0@ == b, None => r is Err }
    { unimplemented!() }
}
// the byte string that is signed and verified for a metadata value
pub open spec fn signed_msg(m: MetadataWrapper) -> Option<Seq<u8>> {
    match canon_bytes(m) {
        Some(b) => if vstd::utf8::valid_utf8(b) {
            Some(signed_text(b))
        } else { None },
        None => None,
    }
}
// id `id` is counted: an authorized key with that id has a valid signature, attributed to that id, over the signed bytes
pub open spec fn counted_ok(mb: Metablock, keys: Seq<&PublicKey>, id: KeyId) -> bool {
    signed_msg(mb.metadata) is Some &&
    exists|i: int, j: int| 0 <= i < keys.len() && 0 <= j < mb.signatures@.len()
        && (#[trigger] keys[i]).kid() == id && (#[trigger] mb.signatures@[j]).kid() == id
        && keys[i].sig_ok(signed_msg(mb.metadata)->0, mb.signatures@[j])
}


pub open spec fn sig_ids_distinct(sigs: Seq<Signature>) -> bool {
    forall|i: int, j: int| 0 <= i < j < sigs.len() ==> (#[trigger] sigs[i]).kid() != (#[trigger] sigs[j]).kid()
}
pub open spec fn key_ids_distinct(keys: Seq<&PublicKey>) -> bool {
    forall|i: int, j: int| 0 <= i < j < keys.len() ==> (#[trigger] keys[i]).kid() != (#[trigger] keys[j]).kid()
}

// ---- exact (functional) characterisation of Metablock::verify ----
// std's `collect::<HashMap>` keeps, for a repeated id, the LAST key / signature listed under it.
pub open spec fn last_key_idx(keys: Seq<&PublicKey>, id: KeyId) -> int
    decreases keys.len()
{
    if keys.len() == 0 { -1 } else if keys.last().kid() == id { keys.len() - 1 } else { last_key_idx(keys.drop_last(), id) }
}
pub open spec fn last_sig_idx(sigs: Seq<Signature>, id: KeyId) -> int
    decreases sigs.len()
{
    if sigs.len() == 0 { -1 } else if sigs.last().kid() == id { sigs.len() - 1 } else { last_sig_idx(sigs.drop_last(), id) }
}
// id `id` is good: the (last) authorized key filed under it accepts the (last) signature attributed to it
pub open spec fn good_id(mb: Metablock, keys: Seq<&PublicKey>, id: KeyId) -> bool {
    signed_msg(mb.metadata) is Some
    && last_key_idx(keys, id) >= 0 && last_sig_idx(mb.signatures@, id) >= 0
    && keys[last_key_idx(keys, id)].sig_ok(signed_msg(mb.metadata)->0, mb.signatures@[last_sig_idx(mb.signatures@, id)])
}
pub open spec fn sig_ids(mb: Metablock) -> Set<KeyId> {
    mb.signatures@.map_values(|s: Signature| s.kid()).to_set()
}
pub open spec fn good_ids(mb: Metablock, keys: Seq<&PublicKey>) -> Set<KeyId> {
    sig_ids(mb).filter(|id: KeyId| good_id(mb, keys, id))
}
pub open spec fn verify_ok(mb: Metablock, threshold: u32, keys: Seq<&PublicKey>) -> bool {
    threshold >= 1 && mb.signatures@.len() >= 1 && signed_msg(mb.metadata) is Some
    && good_ids(mb, keys).len() >= threshold
}
pub proof fn lemma_last_key_idx(keys: Seq<&PublicKey>, id: KeyId)   // [C04,C13]
    ensures -1 <= last_key_idx(keys, id) < keys.len(),
            last_key_idx(keys, id) >= 0 ==> keys[last_key_idx(keys, id)].kid() == id,
            forall|i: int| last_key_idx(keys, id) < i < keys.len() ==> (#[trigger] keys[i]).kid() != id,
    decreases keys.len()
{
    if keys.len() > 0 && keys.last().kid() != id {
        lemma_last_key_idx(keys.drop_last(), id);
        assert forall|i: int| last_key_idx(keys, id) < i < keys.len() implies (#[trigger] keys[i]).kid() != id by {
            if i < keys.len() - 1 { assert(keys.drop_last()[i] == keys[i]); }
        }
    }
}
pub proof fn lemma_last_sig_idx(sigs: Seq<Signature>, id: KeyId)   // [C04,C13]
    ensures -1 <= last_sig_idx(sigs, id) < sigs.len(),
            last_sig_idx(sigs, id) >= 0 ==> sigs[last_sig_idx(sigs, id)].kid() == id,
            forall|i: int| last_sig_idx(sigs, id) < i < sigs.len() ==> (#[trigger] sigs[i]).kid() != id,
    decreases sigs.len()
{
    if sigs.len() > 0 && sigs.last().kid() != id {
        lemma_last_sig_idx(sigs.drop_last(), id);
        assert forall|i: int| last_sig_idx(sigs, id) < i < sigs.len() implies (#[trigger] sigs[i]).kid() != id by {
            if i < sigs.len() - 1 { assert(sigs.drop_last()[i] == sigs[i]); }
        }
    }
}
// the pair sequences handed to collect::<HashMap> resolve a repeated id exactly like last_key_idx / last_sig_idx
pub proof fn lemma_last_index_keys(s: Seq<(&KeyId, &PublicKey)>, keys: Seq<&PublicKey>, id: &KeyId)   // [C04,C13]
    requires s.len() == keys.len(), forall|i: int| 0 <= i < s.len() ==> *(#[trigger] s[i]).0 == keys[i].kid(),
    ensures trusted_axioms::last_index_of(s, id) == last_key_idx(keys, *id),
    decreases s.len()
{
    if s.len() > 0 {
        assert(*s.last().0 == keys.last().kid());
        if *s.last().0 != *id {
            assert forall|i: int| 0 <= i < s.drop_last().len() implies *(#[trigger] s.drop_last()[i]).0 == keys.drop_last()[i].kid() by { assert(s.drop_last()[i] == s[i]); }
            lemma_last_index_keys(s.drop_last(), keys.drop_last(), id);
        }
    }
}
pub proof fn lemma_last_index_sigs(s: Seq<(&KeyId, &Signature)>, sigs: Seq<Signature>, id: &KeyId)   // [C04,C13]
    requires s.len() == sigs.len(), forall|i: int| 0 <= i < s.len() ==> *(#[trigger] s[i]).0 == sigs[i].kid(),
    ensures trusted_axioms::last_index_of(s, id) == last_sig_idx(sigs, *id),
    decreases s.len()
{
    if s.len() > 0 {
        assert(*s.last().0 == sigs.last().kid());
        if *s.last().0 != *id {
            assert forall|i: int| 0 <= i < s.drop_last().len() implies *(#[trigger] s.drop_last()[i]).0 == sigs.drop_last()[i].kid() by { assert(s.drop_last()[i] == s[i]); }
            lemma_last_index_sigs(s.drop_last(), sigs.drop_last(), id);
        }
    }
}
