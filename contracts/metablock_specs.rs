// assumed: Json::canonicalize(Json::serialize(m)) is a deterministic partial function of m
pub uninterp spec fn canon_bytes(m: MetadataWrapper) -> Option<Seq<u8>>;
impl MetadataWrapper {
    #[verifier::external_body]
    pub fn to_bytes(&self) -> (r: Result<Vec<u8>>)
        ensures match canon_bytes(*self) { Some(b) => r is Ok && r->Ok_0@ == b, None => r is Err }
    { unimplemented!() }
}
// the byte string that is signed and verified for a metadata value
pub open spec fn signed_msg(m: MetadataWrapper) -> Option<Seq<u8>> {
    match canon_bytes(m) {
        Some(b) => if vstd::utf8::valid_utf8(b) {
            Some(vstd::utf8::encode_utf8(str_replace(vstd::utf8::decode_utf8(b), "\\n"@, "\n"@)))
        } else { None },
        None => None,
    }
}
// id `id` is counted: an authorized key with that id has a valid signature, attributed to that id, over the signed bytes
pub open spec fn counted_ok(mb: Metablock, keys: Seq<&PublicKey>, id: KeyId) -> bool {
    signed_msg(mb.metadata) is Some &&
    exists|i: int, j: int| 0 <= i < keys.len() && 0 <= j < mb.signatures@.len()
        && (#[trigger] keys[i]).kid() == id && (#[trigger] mb.signatures@[j]).kid() == id
        && keys[i].sig_ok(signed_msg(mb.metadata)->0, mb.signatures@[j])
}


pub open spec fn sig_ids_distinct(sigs: Seq<Signature>) -> bool {
    forall|i: int, j: int| 0 <= i < j < sigs.len() ==> (#[trigger] sigs[i]).kid() != (#[trigger] sigs[j]).kid()
}
pub open spec fn key_ids_distinct(keys: Seq<&PublicKey>) -> bool {
    forall|i: int, j: int| 0 <= i < j < keys.len() ==> (#[trigger] keys[i]).kid() != (#[trigger] keys[j]).kid()
}
