    ensures r is Ok <==> item_verdict(item_name(item), item_mats(item), item_prods(item), reduced_link_files@),   // [C03,C08,C13]
