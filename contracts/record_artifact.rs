    ensures r is Ok ==> recorded_one(path@, hash_algorithms@, lstrip_paths, r->Ok_0),   // [C18]
