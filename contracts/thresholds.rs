    ensures
        r is Ok ==> thresholds_ok(*layout, steps_links_metadata@, r->Ok_0@),   // [C02,C08]
