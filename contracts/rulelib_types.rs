// ---- shared by units rulelib and matchrule ----
// ---- types: VirtualTargetPath, rules, links (real definitions) ----
pub type TargetDescription = HashMap<HashAlgorithm, HashValue>;
//@take src/crypto.rs enum:HashAlgorithm drop_derives=Debug,Clone,PartialOrd,Ord
//@take src/crypto.rs struct:HashValue drop_derives=Clone
impl std::fmt::Debug for HashAlgorithm { #[verifier::external_body] fn fmt(&self, f: &mut std::fmt::Formatter) -> std::fmt::Result { unimplemented!() } }
impl std::fmt::Debug for HashValue { #[verifier::external_body] fn fmt(&self, f: &mut std::fmt::Formatter) -> std::fmt::Result { unimplemented!() } }
//@take src/models/helpers.rs struct:VirtualTargetPath drop_derives=Debug,Clone
impl Clone for VirtualTargetPath { #[verifier::external_body] fn clone(&self) -> (r: Self) ensures r == *self { unimplemented!() } }
impl std::fmt::Debug for VirtualTargetPath { #[verifier::external_body] fn fmt(&self, f: &mut std::fmt::Formatter) -> std::fmt::Result { unimplemented!() } }
//@take src/models/layout/rule.rs enum:Artifact drop_derives=Clone,PartialEq,Eq
//@take src/models/layout/rule.rs enum:ArtifactRule drop_derives=Clone,PartialEq,Eq
impl ArtifactRule {
//@extract src/models/layout/rule.rs impl:ArtifactRule/fn:pattern props=C03
//@contract ret=r
    ensures *r == rule_pattern(*self),
//@end
}
pub open spec fn rule_pattern(r: ArtifactRule) -> VirtualTargetPath {
    match r {
        ArtifactRule::Create(p) => p, ArtifactRule::Delete(p) => p, ArtifactRule::Modify(p) => p, ArtifactRule::Allow(p) => p,
        ArtifactRule::Require(p) => p, ArtifactRule::Disallow(p) => p, ArtifactRule::Match { pattern, .. } => pattern,
    }
}
#[verifier::external_body] pub struct ByProducts { _opaque: u8 }
#[verifier::external_body] pub struct Command { _opaque: u8 }
//@take src/models/link/metadata.rs struct:LinkMetadata drop_derives=Debug,Clone,PartialEq,Eq
pub type ArtifactMap = BTreeMap<VirtualTargetPath, TargetDescription>;
// the trait declaration of src/models/layout/supply_chain_item.rs with ghost views of its accessors
pub trait SupplyChainItem {
    spec fn name_v(&self) -> Seq<char>;
    spec fn mats_v(&self) -> Seq<ArtifactRule>;
    spec fn prods_v(&self) -> Seq<ArtifactRule>;
    fn name(&self) -> (r: &str) ensures r@ == self.name_v();
    fn expected_materials(&self) -> (r: &Vec<ArtifactRule>) ensures r@ == self.mats_v();
    fn expected_products(&self) -> (r: &Vec<ArtifactRule>) ensures r@ == self.prods_v();
}
//@include prelude/rulelib_stubs.rs
