    ensures
        r is Ok ==> agree_ok(*layout, link_files@),   // [C07,C08]
        // exact: failure only when some step with threshold >= 2 really lacks links or has disagreeing links (order independent)
        r is Err ==> exists|i: int| 0 <= i < layout.steps@.len() && (#[trigger] layout.steps@[i]).threshold >= 2 && !step_agrees(layout.steps@[i], link_files@),   // [C07,C13]
