    ensures
        r is Ok ==> agree_ok(*layout, link_files@),   // [C07]
