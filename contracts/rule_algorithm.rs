// ---- shared by units rulelib and itemrules: the rule algorithm of the specification and the verdict for one item ----
// ---- the specification's rule algorithm (written from the in-toto spec 4.4 / property C03) ----
pub open spec fn matches_pat(pat: VirtualTargetPath, p: VirtualTargetPath) -> bool { glob_ok(pat.text(), p.text()) == Some(true) }
pub open spec fn filtered_by(rule: ArtifactRule, queue: Set<VirtualTargetPath>) -> Set<VirtualTargetPath> {
    queue.filter(|p: VirtualTargetPath| matches_pat(rule_pattern(rule), p))
}
//@include contracts/match_spec.rs
pub struct RuleCtx {
    pub created: Set<VirtualTargetPath>, pub deleted: Set<VirtualTargetPath>, pub modified: Set<VirtualTargetPath>,
    pub artifacts: Map<VirtualTargetPath, TargetDescription>, pub links: Map<String, LinkMetadata>,
}
// one rule applied to the queue: None = verification fails, Some(q) = the shrunken queue
pub open spec fn rule_step(rule: ArtifactRule, queue: Set<VirtualTargetPath>, c: RuleCtx) -> Option<Set<VirtualTargetPath>> {
    let filtered = filtered_by(rule, queue);
    match rule {
        ArtifactRule::Create(_) => Some(queue.difference(filtered.intersect(c.created))),
        ArtifactRule::Delete(_) => Some(queue.difference(filtered.intersect(c.deleted))),
        ArtifactRule::Modify(_) => Some(queue.difference(filtered.intersect(c.modified))),
        ArtifactRule::Allow(_) => Some(queue.difference(filtered)),
        ArtifactRule::Require(p) => if queue.contains(p) { Some(queue) } else { None },
        ArtifactRule::Disallow(p) =>
            if (exists|q: VirtualTargetPath| queue.contains(q) && glob_ok(p.text(), q.text()) is None) || filtered.len() > 0 { None } else { Some(queue) },
        ArtifactRule::Match { .. } => Some(queue.difference(match_consumed(rule, c.artifacts, queue, c.links))),
    }
}
// the first n rules applied in order
pub open spec fn rules_upto(rules: Seq<ArtifactRule>, n: int, queue0: Set<VirtualTargetPath>, c: RuleCtx) -> Option<Set<VirtualTargetPath>>
    decreases n
{
    if n <= 0 { Some(queue0) } else {
        match rules_upto(rules, n - 1, queue0, c) { None => None, Some(q) => rule_step(rules[n - 1], q, c) }
    }
}

// a path whose recorded material and product entries differ (raw maps, looked up by the cleaned path)
pub open spec fn entry_differs(l: LinkMetadata, name: VirtualTargetPath) -> bool {
    (if l.materials@.contains_key(name) { Some(l.materials@[name]) } else { None::<TargetDescription> })
    != (if l.products@.contains_key(name) { Some(l.products@[name]) } else { None::<TargetDescription> })
}
// the context of one pass (materials or products) of an item
pub open spec fn pass_ctx(l: LinkMetadata, artifacts: Map<VirtualTargetPath, TargetDescription>, links: Map<String, LinkMetadata>) -> RuleCtx {
    let m = canon_set(l.materials@);
    let p = canon_set(l.products@);
    RuleCtx { created: p.difference(m), deleted: m.difference(p), modified: m.intersect(p).filter(|x: VirtualTargetPath| entry_differs(l, x)), artifacts, links }
}
// C03: the verdict for one item = both passes of the specification's algorithm succeed
pub open spec fn item_verdict(name: Seq<char>, mats: Seq<ArtifactRule>, prods: Seq<ArtifactRule>, links: Map<String, LinkMetadata>) -> bool {
    exists|key: String| key@ == name && links.contains_key(key) && {
        let l = links[key];
        rules_upto(mats, mats.len() as int, canon_set(l.materials@), pass_ctx(l, l.materials@, links)) is Some
        && rules_upto(prods, prods.len() as int, canon_set(l.products@), pass_ctx(l, l.products@, links)) is Some
    }
}
// the SupplyChainItem accessors as ghost views (trait objects)
pub open spec fn item_name(i: &Box<dyn SupplyChainItem>) -> Seq<char> { (**i).name_v() }
pub open spec fn item_mats(i: &Box<dyn SupplyChainItem>) -> Seq<ArtifactRule> { (**i).mats_v() }
pub open spec fn item_prods(i: &Box<dyn SupplyChainItem>) -> Seq<ArtifactRule> { (**i).prods_v() }
