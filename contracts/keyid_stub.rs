// ---- stub of KeyId::prefix for caller units (contract proved in units/keyid.rs) ----
pub open spec fn spec_prefix(id: Seq<char>) -> Seq<char> {
    choose|p: Seq<char>| vstd::utf8::encode_utf8(p) == vstd::utf8::encode_utf8(id).subrange(0, 8)
}
impl KeyId {
//@extract src/crypto.rs impl:KeyId/fn:prefix stub
//@contract ret=r
    ensures vstd::utf8::encode_utf8(r@) == vstd::utf8::encode_utf8(self.id()).subrange(0, 8),   // proved in units/keyid.rs
            r@ == spec_prefix(self.id()),   // consequence of the clause above by lemma_prefix_is_function (verified below)
//@end
}
proof fn lemma_prefix_is_function(id: Seq<char>, r: Seq<char>)
    requires vstd::utf8::encode_utf8(r) == vstd::utf8::encode_utf8(id).subrange(0, 8)
    ensures r == spec_prefix(id)
{
    fact_encode_utf8_injective(r, spec_prefix(id));
}
