// ---- stage predicates of final-product verification (shared by the proving units and the stub units) ----
// C06: the expiry instant is not earlier than some reading of the verifier's clock
pub open spec fn unexpired(l: LayoutMetadata) -> bool {
    exists|now: int| chrono::clock_reading(now) && !(chrono::instant(l.expires) < now)
}
// C01: every id of a set at least as large as the caller's key table has a table key with a valid, correctly attributed signature
pub open spec fn table_key_signed(mb: Metablock, keys: Map<KeyId, PublicKey>, id: KeyId) -> bool {
    signed_msg(mb.metadata) is Some &&
    exists|k: KeyId, j: int| #[trigger] keys.contains_key(k) && 0 <= j < mb.signatures@.len()
        && keys[k].kid() == id && (#[trigger] mb.signatures@[j]).kid() == id
        && keys[k].sig_ok(signed_msg(mb.metadata)->0, mb.signatures@[j])
}
pub open spec fn owner_gate(mb: Metablock, keys: Map<KeyId, PublicKey>) -> bool {
    keys.len() >= 1
    && exists|good: Set<KeyId>| good.len() >= keys.len()
        && forall|id: KeyId| good.contains(id) ==> table_key_signed(mb, keys, id)
}
// C02
pub open spec fn signed_by(mb: Metablock, key: PublicKey) -> bool {
    counted_ok(mb, seq![&key], key.kid())
}
pub open spec fn step_links_ok(step: Step, links: Map<KeyId, Metablock>, pubkeys: Map<KeyId, PublicKey>, out: Map<KeyId, Metablock>) -> bool {
    out.len() >= step.threshold
    && forall|k: KeyId| #[trigger] out.contains_key(k) ==>
        links.contains_key(k) && out[k] == links[k] && step.pub_keys@.contains(k)
        && pubkeys.contains_key(k) && signed_by(links[k], pubkeys[k])
}
// C02/C13 exact: which links of a step count is a function of the views only (no dependence on iteration order)
pub open spec fn link_counts(step: Step, links: Map<KeyId, Metablock>, pubkeys: Map<KeyId, PublicKey>, k: KeyId) -> bool {
    links.contains_key(k) && step.pub_keys@.contains(k) && pubkeys.contains_key(k)
    && verify_ok(links[k], 1, seq![&pubkeys[k]])
}
pub open spec fn counting_links(step: Step, links: Map<KeyId, Metablock>, pubkeys: Map<KeyId, PublicKey>) -> Set<KeyId> {
    links.dom().filter(|k: KeyId| link_counts(step, links, pubkeys, k))
}
pub open spec fn step_links_exact(step: Step, links: Map<KeyId, Metablock>, pubkeys: Map<KeyId, PublicKey>, out: Map<KeyId, Metablock>) -> bool {
    (forall|k: KeyId| #[trigger] out.contains_key(k) <==> link_counts(step, links, pubkeys, k))
    && (forall|k: KeyId| #[trigger] out.contains_key(k) ==> out[k] == links[k])
}
pub open spec fn links_of(all: Map<String, HashMap<KeyId, Metablock>>, name: String) -> Map<KeyId, Metablock> {
    if all.contains_key(name) { all[name]@ } else { Map::empty() }
}
pub open spec fn thresholds_ok(layout: LayoutMetadata, input: Map<String, HashMap<KeyId, Metablock>>, out: Map<String, HashMap<KeyId, Metablock>>) -> bool {
    (forall|i: int| 0 <= i < layout.steps@.len() ==> out.contains_key(#[trigger] layout.steps@[i].name))
    && forall|name: String| #[trigger] out.contains_key(name) ==> exists|j: int| 0 <= j < layout.steps@.len()
        && layout.steps@[j].name == name
        && step_links_ok(layout.steps@[j], links_of(input, name), layout.keys@, out[name]@)
        && step_links_exact(layout.steps@[j], links_of(input, name), layout.keys@, out[name]@)
}
// C07
pub open spec fn step_agrees(step: Step, link_files: Map<String, HashMap<KeyId, LinkMetadata>>) -> bool {
    link_files.contains_key(step.name)
    && link_files[step.name]@.len() >= step.threshold
    && forall|a: KeyId, b: KeyId| link_files[step.name]@.contains_key(a) && link_files[step.name]@.contains_key(b) ==>
        link_files[step.name]@[a].materials == link_files[step.name]@[b].materials
        && link_files[step.name]@[a].products == link_files[step.name]@[b].products
}
pub open spec fn agree_ok(layout: LayoutMetadata, link_files: Map<String, HashMap<KeyId, LinkMetadata>>) -> bool {
    forall|i: int| 0 <= i < layout.steps@.len() && (#[trigger] layout.steps@[i]).threshold >= 2 ==> step_agrees(layout.steps@[i], link_files)
}
