    ensures r is Ok ==> inspections_ran(*layout, r->Ok_0@),   // [C08]
