// ---- later stages: predicates that are (so far) only established by assumed stub contracts ----
pub uninterp spec fn loaded(layout: LayoutMetadata, dir: Seq<char>, m: Map<String, HashMap<KeyId, Metablock>>) -> bool;
pub uninterp spec fn sublayouts_ok(layout: LayoutMetadata, input: Map<String, HashMap<KeyId, Metablock>>, dir: Seq<char>, out: Map<String, HashMap<KeyId, LinkMetadata>>) -> bool;
// assumed: KeyId's derived Ord is a total order on key-id texts
pub uninterp spec fn kid_le(a: KeyId, b: KeyId) -> bool;
#[verifier::external_body]
pub proof fn fact_kid_order()
    ensures forall|a: KeyId, b: KeyId| #![trigger kid_le(a, b)] kid_le(a, b) || kid_le(b, a),
            forall|a: KeyId, b: KeyId| #![trigger kid_le(a, b), kid_le(b, a)] kid_le(a, b) && kid_le(b, a) ==> a == b,
{}
pub open spec fn is_min_kid(s: Set<KeyId>, k: KeyId) -> bool { s.contains(k) && forall|j: KeyId| s.contains(j) ==> kid_le(k, j) }
pub open spec fn min_kid(s: Set<KeyId>) -> KeyId { choose|k: KeyId| is_min_kid(s, k) }
// the representative link of every step is one of that step's verified links
pub open spec fn reduced_ok(lf: Map<String, HashMap<KeyId, LinkMetadata>>, red: Map<String, LinkMetadata>) -> bool {
    red.dom() == lf.dom()
    && forall|name: String| #[trigger] lf.contains_key(name) ==> lf[name]@.values().contains(red[name])
}
// artifact rules of every item hold against the reduced links (meaning: rulelib unit / C03)
pub uninterp spec fn item_rules_ok(item_name: Seq<char>, mats: Seq<ArtifactRule>, prods: Seq<ArtifactRule>, red: Map<String, LinkMetadata>) -> bool;
pub open spec fn step_rules_ok(layout: LayoutMetadata, red: Map<String, LinkMetadata>) -> bool {
    forall|i: int| 0 <= i < layout.steps@.len() ==> item_rules_ok((#[trigger] layout.steps@[i]).name@, layout.steps@[i].expected_materials@, layout.steps@[i].expected_products@, red)
}
pub open spec fn inspection_rules_ok(layout: LayoutMetadata, red: Map<String, LinkMetadata>) -> bool {
    forall|i: int| 0 <= i < layout.inspect@.len() ==> item_rules_ok((#[trigger] layout.inspect@[i]).name@, layout.inspect@[i].expected_materials@, layout.inspect@[i].expected_products@, red)
}
//@include contracts/inspections.rs
// C08: everything that must have succeeded before any inspection command of `layout` may be started
pub open spec fn steps_verified(layout: LayoutMetadata, dir: Seq<char>) -> bool {
    unexpired(layout)
    && exists|l0: Map<String, HashMap<KeyId, Metablock>>, l1: Map<String, HashMap<KeyId, Metablock>>,
              l2: Map<String, HashMap<KeyId, LinkMetadata>>, red: Map<String, LinkMetadata>|
        #![trigger thresholds_ok(layout, l0, l1), sublayouts_ok(layout, l1, dir, l2), reduced_ok(l2, red)]
        loaded(layout, dir, l0) && thresholds_ok(layout, l0, l1) && sublayouts_ok(layout, l1, dir, l2)
        && agree_ok(layout, l2) && reduced_ok(l2, red) && step_rules_ok(layout, red)
}
// C15: the summary carries the first step's materials and the last step's products, byproducts and command
pub open spec fn summary_of(layout: LayoutMetadata, red: Map<String, LinkMetadata>, name: Seq<char>, l: LinkMetadata) -> bool {
    l.name@ == name
    && (layout.steps@.len() > 0 ==> {
        let first = red[layout.steps@[0].name];
        let last = red[layout.steps@[layout.steps@.len() - 1].name];
        l.materials == first.materials && l.products == last.products && l.byproducts == last.byproducts && l.command == last.command })
}
// what a successful final-product verification guarantees (C01, C06, C08)
pub open spec fn verified(mb: Metablock, keys: Map<KeyId, PublicKey>, dir: Seq<char>) -> bool {
    owner_gate(mb, keys)
    && mb.metadata is Layout
    && steps_verified(mb.metadata->Layout_0, dir)
    && exists|ins: Map<String, LinkMetadata>, red: Map<String, LinkMetadata>| #![trigger inspections_ran(mb.metadata->Layout_0, ins), inspection_rules_ok(mb.metadata->Layout_0, red)]
        inspections_ran(mb.metadata->Layout_0, ins) && inspection_rules_ok(mb.metadata->Layout_0, red)
}

