// C02: a block is filed under the id of the first of its signatures whose key-id prefix equals the file's prefix
pub open spec fn prefix_matches(mb: Metablock, j: int, short: Seq<char>) -> bool {
    0 <= j < mb.signatures@.len() && spec_prefix(mb.signatures@[j].kid().id()) == short
}
