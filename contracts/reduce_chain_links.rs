    ensures
        r is Ok ==> reduced_ok(link_files@, r->Ok_0@),   // [C13,C08]
        r is Ok ==> forall|name: String| #[trigger] link_files@.contains_key(name) ==> link_files@[name]@.len() >= 1
            && r->Ok_0@[name] == link_files@[name]@[min_kid(link_files@[name]@.dom())],   // [C13,C02]
