// ---- what a MATCH rule consumes, written from the in-toto specification (4.3.3 "MATCH") ----
pub uninterp spec fn canon_of(p: VirtualTargetPath) -> Option<VirtualTargetPath>;
//@extract src/rulelib.rs fn:canonicalize_path stub
//@contract ret=r
    ensures r == canon_of(*path),    // assumed: path_clean::clean is a function of the text
//@end
// the cleaned paths of the artifacts recorded in a link (meaning: canonicalize_path over the map's keys)
pub uninterp spec fn canon_set(m: Map<VirtualTargetPath, TargetDescription>) -> Set<VirtualTargetPath>;
pub open spec fn canon_or_self(p: VirtualTargetPath) -> VirtualTargetPath { match canon_of(p) { Some(c) => c, None => p } }
// an artifact map re-keyed by cleaned path (`.iter().map(|(p, v)| (clean(p) or p, v)).collect::<BTreeMap>()`); which of several
// colliding entries survives is std's business and left open
pub uninterp spec fn rekeyed(m: Map<VirtualTargetPath, TargetDescription>) -> Map<VirtualTargetPath, TargetDescription>;
#[verifier::external_body]
pub proof fn fact_rekeyed(m: Map<VirtualTargetPath, TargetDescription>)
    ensures forall|k: VirtualTargetPath| m.contains_key(k) ==> #[trigger] rekeyed(m).contains_key(canon_or_self(k)),
            forall|k2: VirtualTargetPath| #[trigger] rekeyed(m).contains_key(k2) ==> exists|k: VirtualTargetPath| m.contains_key(k) && canon_or_self(k) == k2 && rekeyed(m)[k2] == m[k],
            // the cleaned paths are among the new keys
            forall|p: VirtualTargetPath| canon_set(m).contains(p) ==> #[trigger] rekeyed(m).contains_key(p),
{}
// std::path as functions of the texts: PathBuf::push (replaces when the pushed path is absolute), lossy rendering
pub uninterp spec fn path_push(base: Seq<char>, p: Seq<char>) -> Seq<char>;
pub open spec fn dir_prefix(d: Option<String>) -> Seq<char> {
    match d { None => Seq::<char>::empty(), Some(dir) => path_push(Seq::<char>::empty(), dir@).push('/') }
}
pub open spec fn text_is_prefix(p: Seq<char>, s: Seq<char>) -> bool { p.len() <= s.len() && s.subrange(0, p.len() as int) == p }
pub open spec fn vtp_with_text(t: Seq<char>) -> VirtualTargetPath { choose|v: VirtualTargetPath| v.text() == t }
// one queued source artifact `p` is consumed by MATCH iff it lies under the source prefix, its remaining path matches the pattern,
// and the destination step recorded an artifact with equal digests under <destination prefix>/<remaining path>
pub open spec fn match_one(pattern: VirtualTargetPath, sp: Seq<char>, dp: Seq<char>, src: Map<VirtualTargetPath, TargetDescription>,
                           dst: Map<VirtualTargetPath, TargetDescription>, p: VirtualTargetPath) -> bool {
    text_is_prefix(sp, p.text()) && {
        let base = p.text().subrange(sp.len() as int, p.text().len() as int);
        let dpath = vtp_with_text(path_push(path_push(Seq::<char>::empty(), dp), base));
        glob_ok(pattern.text(), base) == Some(true)
        && dst.contains_key(dpath) && src.contains_key(p) && src[p] == dst[dpath]
    }
}
#[verifier::opaque]
pub open spec fn match_consumed(rule: ArtifactRule, artifacts: Map<VirtualTargetPath, TargetDescription>, queue: Set<VirtualTargetPath>, links: Map<String, LinkMetadata>) -> Set<VirtualTargetPath> {
    match rule {
        ArtifactRule::Match { pattern, in_src, with, in_dst, from } =>
            if !links.contains_key(from) { Set::<VirtualTargetPath>::empty() } else {
                let dl = links[from];
                let dst_raw = match with { Artifact::Materials => dl.materials@, Artifact::Products => dl.products@ };
                queue.filter(|p: VirtualTargetPath| match_one(pattern, dir_prefix(in_src), dir_prefix(in_dst), rekeyed(artifacts), rekeyed(dst_raw), p))
            },
        _ => Set::<VirtualTargetPath>::empty(),
    }
}
