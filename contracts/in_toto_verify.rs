    requires layout_keys@.len() <= u32::MAX,
    ensures r is Ok ==> verified(*layout, layout_keys@, link_dir@),   // [C01,C06,C08]
            r is Ok ==> r->Ok_0.metadata is Link,                       // [C15,C14]
            r is Ok ==> r->Ok_0.metadata->Link_0.name@ == (match step_name { Some(n) => n@, None => Seq::empty() }),   // [C15]
