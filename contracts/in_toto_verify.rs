    requires layout_keys@.len() <= u32::MAX,
    ensures r is Ok ==> verified(*layout, layout_keys@, link_dir@),   // [C01,C02,C03,C06,C07,C08]
            r is Ok ==> r->Ok_0.metadata is Link,                       // [C15,C14]
            r is Ok ==> r->Ok_0.metadata->Link_0.name@ == (match step_name { Some(n) => n@, None => Seq::empty() }),   // [C15]
            // C01 in the property's own words (corollary of owner_gate by lemma_owner_gate_every_key_signed):
            r is Ok ==> layout_keys@.len() >= 1,   // [C01]
            r is Ok ==> forall|k: KeyId| layout_keys@.contains_key(k) ==> key_signed(*layout, #[trigger] layout_keys@[k]),   // [C01]
            r is Ok ==> forall|a: KeyId, b: KeyId| layout_keys@.contains_key(a) && layout_keys@.contains_key(b) && a != b
                ==> (#[trigger] layout_keys@[a]).kid() != (#[trigger] layout_keys@[b]).kid(),   // [C01]
