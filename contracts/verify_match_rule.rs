    requires rule is Match,
             // every queued path is a key of the re-keyed artifact map (the queue starts as the cleaned paths and only shrinks)
             forall|p: VirtualTargetPath| src_artifact_queue@.contains(p) ==> #[trigger] rekeyed(src_artifacts@).contains_key(p),   // [C14]
    ensures r@ == match_consumed(*rule, src_artifacts@, src_artifact_queue@, items_metadata@),   // [C03,C08,C13]
