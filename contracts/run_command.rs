    ensures r is Ok ==> cmd_ran(strs(cmd_args@), opt_text(run_dir), r->Ok_0),   // [C08,C18]
