// ---- shared by units hashes (proving) and record (caller): hash types, io::Read as a byte stream, ring digest contexts ----
//@take src/crypto.rs enum:HashAlgorithm drop_derives=Debug,Clone,PartialOrd,Ord
impl Clone for HashAlgorithm { #[verifier::external_body] fn clone(&self) -> (r: Self) ensures r == *self { unimplemented!() } }
//@take src/crypto.rs struct:HashValue drop_derives=Clone
impl HashValue {
    pub closed spec fn bytes(self) -> Seq<u8> { self.0@ }
}
// ---- trusted stubs: io::Read as a byte stream, ring digest contexts ----
#[verifier::external_type_specification]
#[verifier::external_body]
pub struct ExIoError(std::io::Error);
impl From<std::io::Error> for Error { #[verifier::external_body] fn from(e: std::io::Error) -> Error { unimplemented!() } }
#[verifier::external_trait_specification]
pub trait ExRead {
    type ExternalTraitSpecificationFor: std::io::Read;
    fn read(&mut self, buf: &mut [u8]) -> std::io::Result<usize>;
}
// the bytes a reader will still deliver
pub uninterp spec fn rest<R>(r: R) -> Seq<u8>;
pub mod digest {
    use vstd::prelude::*;
    pub struct Algorithm { pub id: u8 }
    #[verifier::external_body] pub struct Context { _o: u8 }
    pub uninterp spec fn ctx_alg(c: Context) -> u8;
    pub uninterp spec fn ctx_data(c: Context) -> Seq<u8>;
    #[verifier::external_body] pub struct Digest { _o: u8 }
    pub uninterp spec fn digest_of(alg: u8, data: Seq<u8>) -> Seq<u8>;
    impl Context {
        #[verifier::external_body] pub fn new(a: &'static Algorithm) -> (r: Context) ensures ctx_alg(r) == a.id, ctx_data(r) == Seq::<u8>::empty() { unimplemented!() }
    }
}
pub exec static SHA256: digest::Algorithm ensures SHA256.id == 1 { digest::Algorithm { id: 1 } }
pub exec static SHA512: digest::Algorithm ensures SHA512.id == 2 { digest::Algorithm { id: 2 } }
pub open spec fn alg_id(a: HashAlgorithm) -> u8 { match a { HashAlgorithm::Sha256 => 1, HashAlgorithm::Sha512 => 2, HashAlgorithm::Unknown(_) => 0 } }
