// ---- shared by units record (proving) and recordall (caller): one recorded artifact ----
// ---- trusted stubs: the file system as seen through File::open / BufReader ----
#[verifier::external_type_specification]
#[verifier::external_body]
pub struct ExFile(std::fs::File);
#[verifier::external_type_specification]
#[verifier::external_body]
#[verifier::reject_recursive_types(R)]
pub struct ExBufReader<R: ?Sized>(std::io::BufReader<R>);
// the content of the file an open handle refers to, and which path it was opened from
pub uninterp spec fn file_bytes(f: File) -> Seq<u8>;
pub uninterp spec fn opened_from(f: File) -> Seq<char>;
pub uninterp spec fn path_text<P>(p: P) -> Seq<char>;
pub assume_specification<P: AsRef<std::path::Path>> [File::open::<P>] (path: P) -> (r: std::io::Result<File>)
    ensures r is Ok ==> opened_from(r->Ok_0) == path_text(path);
#[verifier::external_body]
pub proof fn fact_path_text_str()
    ensures forall|s: &str| #[trigger] path_text::<&str>(s) == s@
{}
// BufReader only buffers: it delivers exactly the bytes of the underlying file
pub assume_specification<R: Read> [BufReader::<R>::new] (inner: R) -> (r: BufReader<R>)
    ensures rest(r) == rest(inner);
#[verifier::external_body]
pub proof fn fact_rest_file(f: File)
    ensures rest(f) == file_bytes(f)
{}
// a `&mut R` reads from the reader it points to
#[verifier::external_body]
pub proof fn fact_rest_mut_ref()
    ensures forall|r: &mut BufReader<File>| #[trigger] rest::<&mut BufReader<File>>(r) == rest::<BufReader<File>>(*r)
{}
// a file holds fewer than 2^64 bytes
#[verifier::external_body]
pub proof fn fact_file_len(f: File)
    ensures file_bytes(f).len() <= u64::MAX
{}

// C18: one recorded artifact = (path with the longest strip-prefix removed, digests of ALL bytes of the file opened at `path`)
pub open spec fn recorded_one(path: Seq<char>, algs: Seq<HashAlgorithm>, ls: Option<&[&str]>, out: (VirtualTargetPath, TargetDescription)) -> bool {
    (exists|f: File| opened_from(f) == path
        && forall|i: int| 0 <= i < algs.len() ==> (#[trigger] out.1@.contains_key(algs[i]))
            && out.1@[algs[i]].bytes() == digest::digest_of(alg_id(algs[i]), file_bytes(f)))
    && (ls is None ==> out.0.text() == path)
    && (ls is Some && (exists|j: int| 0 <= j < ls->0@.len() && is_prefix(#[trigger] ls->0@[j]@, path)) ==>
            exists|i: int| best_prefix(path, ls->0@, i) && out.0.text() == path.subrange(#[trigger] ls->0@[i]@.len() as int, path.len() as int))
    && (ls is Some && (forall|j: int| 0 <= j < ls->0@.len() ==> !is_prefix(#[trigger] ls->0@[j]@, path)) ==> out.0.text() == path)
}
