    ensures r is Ok ==> r->Ok_0.metadata is Link,   // [C08,C14]
            r is Ok ==> ran_as(name@, strs(cmd_args@), r->Ok_0.metadata->Link_0),   // [C08,C18]
