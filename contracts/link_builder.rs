// ---- the link builder (real code) ----
//@take src/models/link/metadata.rs struct:LinkMetadataBuilder
impl ByProducts { #[verifier::external_body] pub fn new() -> Self { unimplemented!() } }
impl Default for Command { #[verifier::external_body] fn default() -> Self { unimplemented!() } }
impl LinkMetadataBuilder {
    // ghost view of the builder: the link it would build
    pub closed spec fn st(self) -> LinkMetadata {
        LinkMetadata { name: self.name, materials: self.materials, products: self.products, env: self.env, byproducts: self.byproducts, command: self.command }
    }
//@extract src/models/link/metadata.rs impl:LinkMetadataBuilder/fn:new $MODE
//@end
//@extract src/models/link/metadata.rs impl:LinkMetadataBuilder/fn:name $MODE
//@mutself
//@contract ret=r
    ensures r.st() == (LinkMetadata { name: name, ..self.st() }),
//@end
//@extract src/models/link/metadata.rs impl:LinkMetadataBuilder/fn:materials $MODE
//@mutself
//@contract ret=r
    ensures r.st() == (LinkMetadata { materials: materials, ..self.st() }),
//@end
//@extract src/models/link/metadata.rs impl:LinkMetadataBuilder/fn:products $MODE
//@mutself
//@contract ret=r
    ensures r.st() == (LinkMetadata { products: products, ..self.st() }),
//@end
//@extract src/models/link/metadata.rs impl:LinkMetadataBuilder/fn:byproducts $MODE
//@mutself
//@contract ret=r
    ensures r.st() == (LinkMetadata { byproducts: byproducts, ..self.st() }),
//@end
//@extract src/models/link/metadata.rs impl:LinkMetadataBuilder/fn:command $MODE
//@mutself
//@contract ret=r
    ensures r.st() == (LinkMetadata { command: command, ..self.st() }),
//@end
//@extract src/models/link/metadata.rs impl:LinkMetadataBuilder/fn:build $MODE
//@contract ret=r
    ensures r is Ok, r->Ok_0 == self.st(),
//@end
}
impl LinkMetadata {
//@extract src/models/link/metadata.rs impl:LinkMetadata/fn:new $MODE
//@contract ret=r
    ensures r is Ok, r->Ok_0.name == name, r->Ok_0.materials == materials, r->Ok_0.products == products,
            r->Ok_0.env == env, r->Ok_0.byproducts == byproducts, r->Ok_0.command == command,
//@end
}
