    ensures
        r is Ok,                                                                  // [C18]
        lstrip_paths is None ==> r->Ok_0@ == path@,                               // [C18]
        lstrip_paths is Some && (forall|j: int| 0 <= j < lstrip_paths->0@.len() ==> !is_prefix(#[trigger] lstrip_paths->0@[j]@, path@)) ==> r->Ok_0@ == path@,   // [C18]
        lstrip_paths is Some && (exists|j: int| 0 <= j < lstrip_paths->0@.len() && is_prefix(#[trigger] lstrip_paths->0@[j]@, path@)) ==>
            exists|i: int| best_prefix(path@, lstrip_paths->0@, i) && r->Ok_0@ == path@.subrange(#[trigger] lstrip_paths->0@[i]@.len() as int, path@.len() as int),   // [C18]
