//@props C03
//@include prelude/head.rs
use std::path::PathBuf;
verus! {
//@include prelude/axioms.rs
//@include prelude/std_string.rs
//@include prelude/utf8_facts.rs
//@include prelude/error.rs
//@include prelude/std_collect.rs
//@include prelude/ring_stub.rs
//@include prelude/chrono_stub.rs
//@include prelude/crypto_types.rs

//@include contracts/rulelib_types.rs

//@include contracts/rule_algorithm.rs
// apply_rules_on_link: the contract its body is proved against in unit `rulelib`
//@extract src/rulelib.rs fn:apply_rules_on_link stub
//@contract ret=r
//@include contracts/apply_rules_on_link.rs
//@end

// C03: every item of the list (all steps, or all inspections) is judged, each by the specification's algorithm
pub open spec fn all_items_verdict(items: Seq<Box<dyn SupplyChainItem>>, links: Map<String, LinkMetadata>) -> bool {
    forall|i: int| 0 <= i < items.len() ==> item_verdict(item_name(&#[trigger] items[i]), item_mats(&items[i]), item_prods(&items[i]), links)
}
//@extract src/verifylib.rs fn:verify_all_item_rules props=C03,C08,C14
//@contract ret=r
    ensures r is Ok <==> all_items_verdict(steps@, reduced_link_files@),   // [C03,C08]
//@loop 1 iter=it
        invariant
            it.seq().len() == steps@.len(),
            forall|i: int| 0 <= i < steps@.len() ==> *(#[trigger] it.seq()[i]) == steps@[i],
            forall|i: int| 0 <= i < it.index() ==> item_verdict(item_name(&#[trigger] steps@[i]), item_mats(&steps@[i]), item_prods(&steps@[i]), reduced_link_files@),
//@end
} // verus!
fn main() {}
