//@props C10
//@include prelude/head.rs
verus! {
//@include prelude/axioms.rs
//@include prelude/std_string.rs
//@include prelude/utf8_facts.rs
//@include prelude/serde_json_stub.rs
//@include lemmas/cjson_spec.rs

//@take src/interchange/cjson/mod.rs enum:Value
//@take src/interchange/cjson/mod.rs enum:Number

// Vec<u8>::extend(&[u8] / &[u8; N])
pub uninterp spec fn items_of<T, I>(i: I) -> Seq<T>;
pub assume_specification<'a, T: Copy + 'a, A: std::alloc::Allocator, I: IntoIterator<Item = &'a T>> [<Vec<T, A> as Extend<&'a T>>::extend::<I>] (v: &mut Vec<T, A>, i: I)
    ensures final(v)@ == old(v)@ + items_of::<T, I>(i);
#[verifier::external_body]
pub proof fn fact_items_of_slice()
    ensures forall|s: &[u8]| #[trigger] items_of::<u8, &[u8]>(s) == s@,
            forall|s: &[u8; 4]| #[trigger] items_of::<u8, &[u8; 4]>(s) == s@,
            forall|s: &[u8; 5]| #[trigger] items_of::<u8, &[u8; 5]>(s) == s@,
{}

// abstraction of the ordered tree
spec fn abs(v: Value) -> JVal
    decreases v
{
    match v {
        Value::Null => JVal::Null,
        Value::Bool(b) => JVal::Bool(b),
        Value::Number(Number::I64(n)) => JVal::I64(n),
        Value::Number(Number::U64(n)) => JVal::U64(n),
        Value::String(s) => JVal::Str(s@),
        Value::Array(a) => JVal::Arr(Seq::new(a@.len(), |i: int| if 0 <= i < a@.len() { abs(a@[i]) } else { JVal::Null })),
        Value::Object(m) => JVal::Obj(Seq::new(btree_keys(m).len(), |i: int|
            if 0 <= i < btree_keys(m).len() && m@.contains_key(btree_keys(m)[i]) { (btree_keys(m)[i]@, abs(m@[btree_keys(m)[i]])) } else { (Seq::empty(), JVal::Null) })),
    }
}
// the keys of a BTreeMap in iteration (= ascending) order  (assumed std contract of BTreeMap)
pub uninterp spec fn btree_keys<K, V>(m: BTreeMap<K, V>) -> Seq<K>;
pub open spec fn char_seq_lt(a: Seq<char>, b: Seq<char>) -> bool
    decreases a.len()
{
    if b.len() == 0 { false } else if a.len() == 0 { true }
    else if (a[0] as u32) < (b[0] as u32) { true } else if (a[0] as u32) > (b[0] as u32) { false }
    else { char_seq_lt(a.drop_first(), b.drop_first()) }
}
#[verifier::external_body]
pub proof fn fact_btree_keys<V>(m: BTreeMap<String, V>)
    ensures btree_keys(m).no_duplicates(),
            btree_keys(m).to_set() == m@.dom(),
            btree_keys(m).len() == m@.dom().len(),
            forall|i: int, j: int| 0 <= i < j < btree_keys(m).len() ==> char_seq_lt(#[trigger] btree_keys(m)[i]@, #[trigger] btree_keys(m)[j]@),
{}
// D22: `m.iter()` on a BTreeMap: yields the entries in the order of btree_keys(m)
#[verifier::prophetic]
pub open spec fn btree_iter_post<'a, V>(m: &'a BTreeMap<String, V>, it: std::collections::btree_map::Iter<'a, String, V>) -> bool {
    let rem = vstd::std_specs::iter::IteratorSpec::remaining(&it);
    &&& vstd::std_specs::iter::IteratorSpec::obeys_prophetic_iter_laws(&it)
    &&& vstd::std_specs::iter::IteratorSpec::decrease(&it) is Some
    &&& rem.len() == btree_keys(*m).len()
    &&& forall|i: int| 0 <= i < rem.len() ==> *(#[trigger] rem[i]).0 == btree_keys(*m)[i] && m@.contains_key(btree_keys(*m)[i]) && *rem[i].1 == m@[btree_keys(*m)[i]]
}
#[verifier::external_body]
fn btree_iter_sorted<'a, V>(m: &'a BTreeMap<String, V>) -> (it: std::collections::btree_map::Iter<'a, String, V>)
    ensures btree_iter_post(m, it)
{ m.iter() }

impl Value {
//@extract src/interchange/cjson/mod.rs impl:Value/fn:write props=C10,C05,C14
//@subst D22 /obj\.iter\(\)/ => btree_iter_sorted(obj)
//@contract ret=r
    ensures r is Ok,                                               // [C10]
            final(buf)@ == old(buf)@ + enc(abs(*self)),            // [C10,C05]
    decreases self,
//@before /match \*self \{/
        proof { fact_items_of_slice(); }
        let ghost buf0 = buf@;
//@loop 1 iter=it
                    invariant
                        forall|s: &[u8]| #[trigger] items_of::<u8, &[u8]>(s) == s@,
                        *self is Array && self->Array_0 == *arr,
                        it.seq().len() == arr@.len(),
                        forall|i: int| 0 <= i < arr@.len() ==> *(#[trigger] it.seq()[i]) == arr@[i],
                        abs(*self) is Arr && abs(*self)->Arr_0.len() == arr@.len(),
                        forall|i: int| 0 <= i < arr@.len() ==> (#[trigger] abs(*self)->Arr_0[i]) == abs(arr@[i]),
                        first == (it.index() == 0),
                        buf@ == buf0 + seq![0x5bu8] + enc_elems(abs(*self)->Arr_0, it.index() as int),
//@loop 2 iter=it
                    invariant
                        forall|s: &[u8]| #[trigger] items_of::<u8, &[u8]>(s) == s@,
                        *self is Object && self->Object_0 == *obj,
                        it.seq().len() == btree_keys(*obj).len(),
                        forall|i: int| 0 <= i < it.seq().len() ==> *(#[trigger] it.seq()[i]).0 == btree_keys(*obj)[i],
                        forall|i: int| 0 <= i < it.seq().len() ==> obj@.contains_key(#[trigger] btree_keys(*obj)[i]),
                        forall|i: int| 0 <= i < it.seq().len() ==> *(#[trigger] it.seq()[i]).1 == obj@[btree_keys(*obj)[i]],
                        abs(*self) is Obj && abs(*self)->Obj_0.len() == btree_keys(*obj).len(),
                        forall|i: int| 0 <= i < btree_keys(*obj).len() ==> (#[trigger] abs(*self)->Obj_0[i]) == (btree_keys(*obj)[i]@, abs(obj@[btree_keys(*obj)[i]])),
                        first == (it.index() == 0),
                        buf@ == buf0 + seq![0x7bu8] + enc_members(abs(*self)->Obj_0, it.index() as int),
//@before /for \(k, v\) in/
                proof {
                    fact_btree_keys(*obj);
                    assert forall|i: int| 0 <= i < btree_keys(*obj).len() implies obj@.contains_key(#[trigger] btree_keys(*obj)[i]) by {
                        assert(btree_keys(*obj).contains(btree_keys(*obj)[i]));
                        assert(btree_keys(*obj).to_set().contains(btree_keys(*obj)[i]));
                    }
                }
//@before /a\.write\(buf\)\?;/
                    proof { assert(*a == arr@[it.index() as int]); assert(abs(*self)->Arr_0[it.index() as int] == abs(*a));
                            assert(decreases_to!(*arr => arr@[it.index() as int]));
                            assert(*self is Array && self->Array_0 == *arr);
                            assert(decreases_to!(*self => self->Array_0));
                            assert(decreases_to!(*self => *arr));
                            assert(decreases_to!(*self => *a)); }
//@before /v\.write\(buf\)\?;/
                    proof { assert(*v == obj@[btree_keys(*obj)[it.index() as int]]);
                            assert(decreases_to!(*obj => obj@[btree_keys(*obj)[it.index() as int]]));
                            assert(*self is Object && self->Object_0 == *obj);
                            assert(decreases_to!(*self => self->Object_0));
                            assert(decreases_to!(*self => *v)); }
//@end
}
} // verus!
fn main() {}
