//@props C10
//@include prelude/head.rs
verus! {
//@include prelude/axioms.rs
//@include prelude/std_string.rs
//@include prelude/utf8_facts.rs
//@include prelude/error.rs
//@include prelude/std_collect.rs
//@include prelude/ring_stub.rs
//@include prelude/crypto_types.rs
//@include prelude/btree_keys.rs
//@include prelude/serde_json_stub.rs
//@include lemmas/cjson_spec.rs
//@include lemmas/unescape_inj.rs
//@include lemmas/cjson_inj.rs

//@take src/interchange/cjson/mod.rs enum:Value
//@take src/interchange/cjson/mod.rs enum:Number

// Vec<u8>::extend(&[u8] / &[u8; N])
pub uninterp spec fn items_of<T, I>(i: I) -> Seq<T>;
pub assume_specification<'a, T: Copy + 'a, A: std::alloc::Allocator, I: IntoIterator<Item = &'a T>> [<Vec<T, A> as Extend<&'a T>>::extend::<I>] (v: &mut Vec<T, A>, i: I)
    ensures final(v)@ == old(v)@ + items_of::<T, I>(i);
#[verifier::external_body]
pub proof fn fact_items_of_slice()
    ensures forall|s: &[u8]| #[trigger] items_of::<u8, &[u8]>(s) == s@,
            forall|s: &[u8; 4]| #[trigger] items_of::<u8, &[u8; 4]>(s) == s@,
            forall|s: &[u8; 5]| #[trigger] items_of::<u8, &[u8; 5]>(s) == s@,
{}

// abstraction of the ordered tree
spec fn abs(v: Value) -> JVal
    decreases v
{
    match v {
        Value::Null => JVal::Null,
        Value::Bool(b) => JVal::Bool(b),
        Value::Number(Number::I64(n)) => JVal::Int(n as int),
        Value::Number(Number::U64(n)) => JVal::Int(n as int),
        Value::String(s) => JVal::Str(s@),
        Value::Array(a) => JVal::Arr(Seq::new(a@.len(), |i: int| if 0 <= i < a@.len() { abs(a@[i]) } else { JVal::Null })),
        Value::Object(m) => JVal::Obj(Seq::new(btree_keys(m).len(), |i: int|
            if 0 <= i < btree_keys(m).len() && m@.contains_key(btree_keys(m)[i]) { (btree_keys(m)[i]@, abs(m@[btree_keys(m)[i]])) } else { (Seq::empty(), JVal::Null) })),
    }
}
impl Value {
//@extract src/interchange/cjson/mod.rs impl:Value/fn:write props=C10,C05,C14
//@subst D22 /obj\.iter\(\)/ => btree_iter_sorted(obj)
//@contract ret=r
    ensures r is Ok,                                               // [C10]
            final(buf)@ == old(buf)@ + enc(abs(*self)),            // [C10,C05]
    decreases self,
//@before /match \*self \{/
        proof { fact_items_of_slice(); }
        let ghost buf0 = buf@;
//@loop 1 iter=it
                    invariant
                        forall|s: &[u8]| #[trigger] items_of::<u8, &[u8]>(s) == s@,
                        *self is Array && self->Array_0 == *arr,
                        it.seq().len() == arr@.len(),
                        forall|i: int| 0 <= i < arr@.len() ==> *(#[trigger] it.seq()[i]) == arr@[i],
                        abs(*self) is Arr && abs(*self)->Arr_0.len() == arr@.len(),
                        forall|i: int| 0 <= i < arr@.len() ==> (#[trigger] abs(*self)->Arr_0[i]) == abs(arr@[i]),
                        first == (it.index() == 0),
                        buf@ == buf0 + seq![0x5bu8] + enc_elems(abs(*self)->Arr_0, it.index() as int),
//@loop 2 iter=it
                    invariant
                        forall|s: &[u8]| #[trigger] items_of::<u8, &[u8]>(s) == s@,
                        *self is Object && self->Object_0 == *obj,
                        it.seq().len() == btree_keys(*obj).len(),
                        forall|i: int| 0 <= i < it.seq().len() ==> *(#[trigger] it.seq()[i]).0 == btree_keys(*obj)[i],
                        forall|i: int| 0 <= i < it.seq().len() ==> obj@.contains_key(#[trigger] btree_keys(*obj)[i]),
                        forall|i: int| 0 <= i < it.seq().len() ==> *(#[trigger] it.seq()[i]).1 == obj@[btree_keys(*obj)[i]],
                        abs(*self) is Obj && abs(*self)->Obj_0.len() == btree_keys(*obj).len(),
                        forall|i: int| 0 <= i < btree_keys(*obj).len() ==> (#[trigger] abs(*self)->Obj_0[i]) == (btree_keys(*obj)[i]@, abs(obj@[btree_keys(*obj)[i]])),
                        first == (it.index() == 0),
                        buf@ == buf0 + seq![0x7bu8] + enc_members(abs(*self)->Obj_0, it.index() as int),
//@before /for \(k, v\) in/
                proof {
                    fact_btree_keys(*obj);
                    assert forall|i: int| 0 <= i < btree_keys(*obj).len() implies obj@.contains_key(#[trigger] btree_keys(*obj)[i]) by {
                        assert(btree_keys(*obj).contains(btree_keys(*obj)[i]));
                        assert(btree_keys(*obj).to_set().contains(btree_keys(*obj)[i]));
                    }
                }
//@before /a\.write\(buf\)\?;/
                    proof { assert(*a == arr@[it.index() as int]); assert(abs(*self)->Arr_0[it.index() as int] == abs(*a));
                            assert(decreases_to!(*arr => arr@[it.index() as int]));
                            assert(*self is Array && self->Array_0 == *arr);
                            assert(decreases_to!(*self => self->Array_0));
                            assert(decreases_to!(*self => *arr));
                            assert(decreases_to!(*self => *a)); }
//@before /v\.write\(buf\)\?;/
                    proof { assert(*v == obj@[btree_keys(*obj)[it.index() as int]]);
                            assert(decreases_to!(*obj => obj@[btree_keys(*obj)[it.index() as int]]));
                            assert(*self is Object && self->Object_0 == *obj);
                            assert(decreases_to!(*self => self->Object_0));
                            assert(decreases_to!(*self => *v)); }
//@end
}

// ---- convert: serde_json tree -> ordered tree (C10) ----
spec fn abs_json(j: serde_json::Value) -> JVal
    decreases j
{
    match j {
        serde_json::Value::Null => JVal::Null,
        serde_json::Value::Bool(b) => JVal::Bool(b),
        serde_json::Value::Number(n) => match serde_json::num_i64(n) {
            Some(i) => JVal::Int(i as int),
            None => match serde_json::num_u64(n) { Some(u) => JVal::Int(u as int), None => JVal::Null },
        },
        serde_json::Value::String(s) => JVal::Str(s@),
        serde_json::Value::Array(a) => JVal::Arr(Seq::new(a@.len(), |i: int| if 0 <= i < a@.len() { abs_json(a@[i]) } else { JVal::Null })),
        serde_json::Value::Object(m) => JVal::Obj(Seq::new(btree_keys(m.inner).len(), |i: int|
            if 0 <= i < btree_keys(m.inner).len() && m.inner@.contains_key(btree_keys(m.inner)[i]) { (btree_keys(m.inner)[i]@, abs_json(m.inner@[btree_keys(m.inner)[i]])) } else { (Seq::empty(), JVal::Null) })),
    }
}
// the value contains a number that is neither an i64 nor a u64 (a float, or out of range)
spec fn has_non_integer(j: serde_json::Value) -> bool
    decreases j
{
    match j {
        serde_json::Value::Number(n) => serde_json::num_i64(n) is None && serde_json::num_u64(n) is None,
        serde_json::Value::Array(a) => exists|i: int| 0 <= i < a@.len() && has_non_integer(#[trigger] a@[i]),
        serde_json::Value::Object(m) => exists|k: String| m.inner@.contains_key(k) && has_non_integer(#[trigger] m.inner@[k]),
        _ => false,
    }
}
//@extract src/interchange/cjson/mod.rs fn:convert props=C10,C05,C14
//@subst G1 /\.map\(Number::I64\)/ => .map(|x: i64| -> (r: Number) ensures r == Number::I64(x) { Number::I64(x) })
//@subst G1 /\.or_else\(\|\| (n\.as_u64\(\)\.map\(Number::U64\))\)/ => .or_else(|| -> (r: Option<Number>) ensures r == (match serde_json::num_u64(*n) { Some(u) => Some(Number::U64(u)), None => None }) { \1 })
//@subst G1 /\.map\(Number::U64\)/ => .map(|x: u64| -> (r: Number) ensures r == Number::U64(x) { Number::U64(x) })
//@subst G1 /\.map\(Value::Number\)/ => .map(|x: Number| -> (r: Value) ensures r == Value::Number(x) { Value::Number(x) })
//@subst D21 /for res in arr\.iter\(\)\.map\(convert\) \{/ => for a in arr.iter() { let res = convert(a);
//@contract ret=r
    ensures
        r is Err <==> has_non_integer(*jsn),          // [C10]
        r is Ok ==> abs(r->Ok_0) == abs_json(*jsn),   // [C10,C05]
    decreases jsn,
//@before /match \*jsn \{/
    proof { fact_string_ext(); fact_string_ord(); }
//@loop 1 iter=it
                invariant
                    *jsn is Array && jsn->Array_0 == *arr,
                    it.seq().len() == arr@.len(),
                    forall|i: int| 0 <= i < arr@.len() ==> *(#[trigger] it.seq()[i]) == arr@[i],
                    forall|i: int| 0 <= i < arr@.len() ==> decreases_to!(*jsn => #[trigger] arr@[i]),
                    out@.len() == it.index(),
                    forall|i: int| 0 <= i < it.index() ==> abs(#[trigger] out@[i]) == abs_json(arr@[i]),
                    forall|i: int| 0 <= i < it.index() ==> !has_non_integer(#[trigger] arr@[i]),
//@before /out\.push\(res\?\)/
                proof { assert(*a == arr@[it.index() as int]); if res is Err { assert(has_non_integer(arr@[it.index() as int])); } }
//@after_loop 1
            proof {
                assert(abs(Value::Array(out))->Arr_0 =~= abs_json(*jsn)->Arr_0);
            }
//@after_loop 2
            proof {
                assert forall|s: String| out@.contains_key(s) <==> obj.inner@.contains_key(s) by {
                    if obj.inner@.contains_key(s) {
                        assert(ks.to_set().contains(s));
                        assert(ks.contains(s));
                        let i = choose|i: int| 0 <= i < ks.len() && ks[i] == s;
                        assert(ks[i] == s);
                    }
                }
                assert(out@.dom() =~= obj.inner@.dom());
                fact_btree_keys_unique(out, obj.inner);
                assert(abs(Value::Object(out))->Obj_0 =~= abs_json(*jsn)->Obj_0);
                assert forall|k: String| obj.inner@.contains_key(k) implies !has_non_integer(#[trigger] obj.inner@[k]) by {
                    assert(ks.to_set().contains(k));
                    assert(ks.contains(k));
                    let i = choose|i: int| 0 <= i < ks.len() && ks[i] == k;
                    assert(!has_non_integer(obj.inner@[ks[i]]));
                }
            }
//@before /let mut out = BTreeMap::new\(\);/
            let ghost ks = btree_keys(obj.inner);
            proof {
                fact_btree_keys(obj.inner);
                assert forall|i: int| 0 <= i < ks.len() implies obj.inner@.contains_key(#[trigger] ks[i]) by {
                    assert(ks.contains(ks[i]));
                    assert(ks.to_set().contains(ks[i]));
                }
            }
//@loop 2 iter=it
                invariant
                    forall|a: String, b: String| #![trigger a@, b@] a@ == b@ ==> a == b,
                    vstd::std_specs::btree::key_obeys_cmp_spec::<String>(),
                    *jsn is Object && jsn->Object_0 == *obj,
                    ks == btree_keys(obj.inner),
                    ks.no_duplicates(),
                    it.seq().len() == ks.len(),
                    forall|i: int| 0 <= i < it.seq().len() ==> *(#[trigger] it.seq()[i]).0 == ks[i],
                    forall|i: int| 0 <= i < ks.len() ==> obj.inner@.contains_key(#[trigger] ks[i]),
                    forall|i: int| 0 <= i < it.seq().len() ==> *(#[trigger] it.seq()[i]).1 == obj.inner@[ks[i]],
                    forall|i: int| 0 <= i < ks.len() ==> decreases_to!(*jsn => obj.inner@[#[trigger] ks[i]]),
                    forall|s: String| #[trigger] out@.contains_key(s) <==> exists|i: int| 0 <= i < it.index() && #[trigger] ks[i] == s,
                    forall|i: int| 0 <= i < it.index() ==> abs(out@[#[trigger] ks[i]]) == abs_json(obj.inner@[ks[i]]),
                    forall|i: int| 0 <= i < it.index() ==> !has_non_integer(obj.inner@[#[trigger] ks[i]]),
//@end

//@extract src/interchange/cjson/mod.rs fn:canonicalize props=C10,C05,C14
//@contract ret=r
    ensures
        r is Err <==> has_non_integer(*jsn),                  // [C10]
        r is Ok ==> r->Ok_0@ == enc(abs_json(*jsn)),          // [C10,C05]
//@end

// C10: object members are written in strictly ascending code-point order of their keys
spec fn members_sorted(j: JVal) -> bool
    decreases j
{
    match j {
        JVal::Arr(a) => forall|i: int| 0 <= i < a.len() ==> members_sorted(#[trigger] a[i]),
        JVal::Obj(o) => (forall|i: int, k: int| 0 <= i < k < o.len() ==> char_seq_lt(#[trigger] o[i].0, #[trigger] o[k].0))
            && forall|i: int| 0 <= i < o.len() ==> members_sorted((#[trigger] o[i]).1),
        _ => true,
    }
}
proof fn lemma_abs_json_sorted(j: serde_json::Value)   // [C10]
    ensures members_sorted(abs_json(j))
    decreases j
{
    match j {
        serde_json::Value::Array(a) => {
            assert forall|i: int| 0 <= i < a@.len() implies members_sorted(#[trigger] abs_json(j)->Arr_0[i]) by {
                lemma_abs_json_sorted(a@[i]);
            }
        }
        serde_json::Value::Object(m) => {
            let ks = btree_keys(m.inner);
            fact_btree_keys(m.inner);
            assert forall|i: int| 0 <= i < ks.len() implies m.inner@.contains_key(#[trigger] ks[i]) by {
                assert(ks.contains(ks[i]));
                assert(ks.to_set().contains(ks[i]));
            }
            let o = abs_json(j)->Obj_0;
            assert forall|i: int| 0 <= i < o.len() implies members_sorted((#[trigger] o[i]).1) by {
                lemma_abs_json_sorted(m.inner@[ks[i]]);
            }
        }
        _ => {}
    }
}
} // verus!
fn main() {}
