//@props C08
//@include prelude/head.rs
use std::path::{Path, PathBuf};
verus! {
//@include prelude/axioms.rs
//@include prelude/std_string.rs
//@include prelude/utf8_facts.rs
//@include prelude/error.rs
//@include prelude/std_collect.rs
//@include prelude/ring_stub.rs
//@include prelude/chrono_stub.rs
//@include prelude/crypto_types.rs
//@include prelude/models_types.rs
//@include contracts/metablock_specs.rs
//@include contracts/stage_specs.rs
//@include lemmas/owner_gate.rs
//@include contracts/stage_specs2.rs

//@take src/models/layout/supply_chain_item.rs trait:SupplyChainItem
// D4: the two `.iter().map(|s| Box::new(s.clone()) as Box<dyn SupplyChainItem>).collect()` statements of
// in_toto_verify cannot be typed by Verus (unsizing cast); they are replaced by these trusted stubs.
pub uninterp spec fn items_are_steps(items: Vec<Box<dyn SupplyChainItem>>, steps: Seq<Step>) -> bool;
pub uninterp spec fn items_are_inspections(items: Vec<Box<dyn SupplyChainItem>>, ins: Seq<Inspection>) -> bool;
#[verifier::external_body]
fn boxed_steps(steps: &Vec<Step>) -> (r: Vec<Box<dyn SupplyChainItem>>) ensures items_are_steps(r, steps@) { unimplemented!() }
#[verifier::external_body]
fn boxed_inspections(ins: &Vec<Inspection>) -> (r: Vec<Box<dyn SupplyChainItem>>) ensures items_are_inspections(r, ins@) { unimplemented!() }

// D17: `a.extend(b)` for two HashMaps (vstd cannot express the generic Extend impl): union, entries of `b` win
#[verifier::external_body]
fn map_extend<K: std::cmp::Eq + std::hash::Hash, V>(m: &mut HashMap<K, V>, other: HashMap<K, V>)
    ensures final(m)@ == old(m)@.union_prefer_right(other@)
{ m.extend(other) }

// ---- stage functions as stubs: contracts proved in vl_sig / vl_flow, or assumed (marked) ----
//@extract src/verifylib.rs fn:verify_layout_signatures stub
//@contract ret=r
//@include contracts/verify_layout_signatures.rs
//@end
//@extract src/verifylib.rs fn:verify_layout_expiration stub
//@contract ret=r
//@include contracts/verify_layout_expiration.rs
//@end
//@extract src/verifylib.rs fn:load_links_for_layout stub
//@contract ret=r
    requires unexpired(*layout),                                          // [C06,C08] ordering: expiry is checked before any link file is read
    ensures r is Ok ==> loaded(*layout, link_dir@, r->Ok_0@),              // assumed (file system)
//@end
//@extract src/verifylib.rs fn:verify_link_signature_thresholds stub
//@contract ret=r
//@include contracts/thresholds.rs
//@end
//@extract src/verifylib.rs fn:verify_sublayouts stub
//@contract ret=r
    requires exists|l0: Map<String, HashMap<KeyId, Metablock>>| thresholds_ok(*layout, l0, chain_link_dict@),   // [C15,C08] only verified links are expanded
    ensures r is Ok ==> sublayouts_ok(*layout, chain_link_dict@, link_dir@, r->Ok_0@),
            r is Ok ==> r->Ok_0@.dom() == chain_link_dict@.dom(),
//@end
//@extract src/verifylib.rs fn:verify_all_steps_command_alignment stub
//@contract ret=r
//@include contracts/command_alignment.rs
//@end
//@extract src/verifylib.rs fn:verify_threshold_constraints stub
//@contract ret=r
//@include contracts/threshold_constraints.rs
//@end
//@extract src/verifylib.rs fn:reduce_chain_links stub
//@contract ret=r
//@include contracts/reduce_chain_links.rs
//@end
pub uninterp spec fn all_item_rules_ok(items: Vec<Box<dyn SupplyChainItem>>, red: Map<String, LinkMetadata>) -> bool;
#[verifier::external_body]
pub proof fn fact_item_rules_steps(items: Vec<Box<dyn SupplyChainItem>>, layout: LayoutMetadata, red: Map<String, LinkMetadata>)
    requires items_are_steps(items, layout.steps@), all_item_rules_ok(items, red)
    ensures step_rules_ok(layout, red)
{}
#[verifier::external_body]
pub proof fn fact_item_rules_inspections(items: Vec<Box<dyn SupplyChainItem>>, layout: LayoutMetadata, red: Map<String, LinkMetadata>)
    requires items_are_inspections(items, layout.inspect@), all_item_rules_ok(items, red)
    ensures inspection_rules_ok(layout, red)
{}
//@extract src/verifylib.rs fn:verify_all_item_rules stub
//@contract ret=r
    ensures r is Ok ==> all_item_rules_ok(*steps, reduced_link_files@),   // [C03,C08]
//@end
//@extract src/verifylib.rs fn:run_all_inspections stub
//@contract ret=r
    requires exists|dir: Seq<char>| steps_verified(*layout, dir),      // [C08] no inspection is started unless every earlier stage succeeded
//@include contracts/run_all_inspections.rs
//@end
//@extract src/verifylib.rs fn:get_summary_link stub
//@contract ret=r
//@include contracts/get_summary_link.rs
//@end

//@extract src/verifylib.rs fn:in_toto_verify props=C01,C02,C03,C06,C07,C08,C15,C14
//@subst D4 /let steps = layout\s*\.steps\s*\.iter\(\)\s*\.map\(\|step\| Box::new\(step\.clone\(\)\) as Box<dyn SupplyChainItem>\)\s*\.collect\(\);/ => let steps = boxed_steps(&layout.steps);
//@subst D4 /let inspects = layout\s*\.inspect\s*\.iter\(\)\s*\.map\(\|step\| Box::new\(step\.clone\(\)\) as Box<dyn SupplyChainItem>\)\s*\.collect\(\);/ => let inspects = boxed_inspections(&layout.inspect);
//@subst D17 /reduced_link_files\.extend\(inspection_link_files\);/ => map_extend(&mut reduced_link_files, inspection_link_files);
//@contract ret=r
//@include contracts/in_toto_verify.rs
//@before /Verify layout signature\(s\) using passed key\(s\) and/
    let ghost mb0 = *layout;
    proof { fact_string_ext(); }
//@after /let steps_links_metadata = load_links_for_layout\(&layout, link_dir\)\?;/
    let ghost g0 = steps_links_metadata@;
//@after /verify_link_signature_thresholds\(&layout, steps_links_metadata\)\?;/
    let ghost g1 = link_files@;
//@after /let link_files = verify_sublayouts\(&layout, link_files, link_dir\)\?;/
    let ghost g2 = link_files@;
//@after /let mut reduced_link_files = reduce_chain_links\(link_files\)\?;/
    let ghost red0 = reduced_link_files@;
//@after /verify_all_item_rules\(&steps, &reduced_link_files\)\?;/
    proof {
        fact_item_rules_steps(steps, layout, red0);
        assert(thresholds_ok(layout, g0, g1) && sublayouts_ok(layout, g1, link_dir@, g2) && reduced_ok(g2, red0));
        assert(steps_verified(layout, link_dir@));
    }
//@after /let inspection_link_files = run_all_inspections\(&layout\)\?;/
    let ghost ins0 = inspection_link_files@;
//@after /verify_all_item_rules\(&inspects, &reduced_link_files\)\?;/
    proof {
        fact_item_rules_inspections(inspects, layout, reduced_link_files@);
        assert(mb0.metadata == MetadataWrapper::Layout(layout));
        assert(inspections_ran(mb0.metadata->Layout_0, ins0) && inspection_rules_ok(mb0.metadata->Layout_0, reduced_link_files@));
        reveal_strlit("");
        lemma_owner_gate_every_key_signed(mb0, layout_keys@);
        assert forall|i: int| 0 <= i < layout.steps@.len() implies reduced_link_files@.contains_key(#[trigger] layout.steps@[i].name) by {
            assert(g1.contains_key(layout.steps@[i].name));
        }
    }
//@end
} // verus!
fn main() {}
