//@props C02
//@include prelude/head.rs
use std::path::{Path, PathBuf};
verus! {
//@include prelude/axioms.rs
//@include prelude/std_string.rs
//@include prelude/utf8_facts.rs
//@include prelude/error.rs
//@include prelude/std_collect.rs
//@include prelude/ring_stub.rs
//@include prelude/chrono_stub.rs
//@include prelude/crypto_types.rs
//@include prelude/models_types.rs
//@include prelude/vdisp.rs

//@include contracts/metablock_specs.rs
//@include contracts/metablock_stub.rs
//@include contracts/keyid_stub.rs
//@include contracts/match_signatures_spec.rs

// ---- the file system, the glob crate and std::path / str trimming as uninterpreted functions of texts (assumed) ----
#[verifier::external_type_specification]
#[verifier::external_body]
pub struct ExPathBuf(PathBuf);
#[verifier::external_type_specification]
#[verifier::external_body]
pub struct ExPath(Path);
pub uninterp spec fn pathbuf_text(p: PathBuf) -> Option<Seq<char>>;
pub uninterp spec fn path_text(p: &Path) -> Option<Seq<char>>;
pub uninterp spec fn path_join(dir: Seq<char>, name: Seq<char>) -> Seq<char>;
pub assume_specification [<PathBuf as std::ops::Deref>::deref] (p: &PathBuf) -> (r: &Path)
    ensures path_text(r) == pathbuf_text(*p);
pub assume_specification [Path::to_str] (p: &Path) -> (r: Option<&str>)
    ensures match path_text(p) { Some(t) => r is Some && r->0@ == t, None => r is None };
// D46: `PathBuf::from(D)` followed by `.push(N)`
#[verifier::external_body]
fn pathbuf_from_str(dir: &str) -> (r: PathBuf)
    ensures pathbuf_text(r) == Some(dir@)
{ PathBuf::from(dir) }
#[verifier::external_body]
fn pathbuf_push_string(p: &mut PathBuf, name: String)
    ensures pathbuf_text(*old(p)) is Some && pathbuf_text(*final(p)) is Some ==> pathbuf_text(*final(p))->0 == path_join(pathbuf_text(*old(p))->0, name@)
{ p.push(name) }
// the last component of a path, as text (None: no file name, or not UTF-8)
pub uninterp spec fn file_name_text(p: PathBuf) -> Option<Seq<char>>;
// D48: `P.file_name()` gives an `&OsStr` (an unsized foreign type Verus cannot name): a view with the one method used on it
pub struct FileNameView { pub s: Option<String> }
impl FileNameView {
    pub open spec fn text(&self) -> Option<Seq<char>> { match self.s { Some(t) => Some(t@), None => None } }
    pub fn to_str(&self) -> (r: Option<&str>)
        ensures match self.text() { Some(t) => r is Some && r->0@ == t, None => r is None }
    { match &self.s { Some(t) => Some(t.as_str()), None => None } }
}
#[verifier::external_body]
fn file_name_of(p: &PathBuf) -> (r: Option<FileNameView>)
    ensures r is None ==> file_name_text(*p) is None, r is Some ==> r->0.text() == file_name_text(*p)
{ p.file_name().map(|n| FileNameView { s: n.to_str().map(|x| x.to_string()) }) }
// glob: the files matching a pattern, in glob's order; unreadable entries are skipped by `.flatten()`
pub mod glob {
    use super::*;
    #[verifier::external_body] pub struct Paths { _p: u8 }
    #[verifier::external_body] pub struct PatternError { _p: u8 }
    impl std::fmt::Display for PatternError { #[verifier::external_body] fn fmt(&self, f: &mut std::fmt::Formatter) -> std::fmt::Result { unimplemented!() } }
    pub uninterp spec fn matched(pattern: Seq<char>) -> Option<Seq<PathBuf>>;
    pub uninterp spec fn paths_view(p: Paths) -> Seq<PathBuf>;
    #[verifier::external_body]
    pub fn glob(pattern: &str) -> (r: std::result::Result<Paths, PatternError>)
        ensures match matched(pattern@) { Some(fs) => r is Ok && paths_view(r->Ok_0) == fs, None => r is Err }
    { unimplemented!() }
}
use glob::glob;
// D47: `PATHS.flatten()` (readable entries of the glob iterator) as a vector
#[verifier::external_body]
fn glob_flatten(p: glob::Paths) -> (r: Vec<PathBuf>)
    ensures r@ == glob::paths_view(p)
{ unimplemented!() }
// str trimming (std): uninterpreted functions of the texts
pub uninterp spec fn trim_end_str(s: Seq<char>, pat: Seq<char>) -> Seq<char>;
pub uninterp spec fn trim_start_str(s: Seq<char>, pat: Seq<char>) -> Seq<char>;
pub uninterp spec fn trim_start_chr(s: Seq<char>, c: char) -> Seq<char>;
#[verifier::external_body]
fn str_trim_end_matches_str<'a>(s: &'a str, pat: &str) -> (r: &'a str) ensures r@ == trim_end_str(s@, pat@) { s.trim_end_matches(pat) }
#[verifier::external_body]
fn str_trim_start_matches_string<'a>(s: &'a str, pat: &String) -> (r: &'a str) ensures r@ == trim_start_str(s@, pat@) { s.trim_start_matches(pat.as_str()) }
#[verifier::external_body]
fn str_trim_start_matches_char<'a>(s: &'a str, c: char) -> (r: &'a str) ensures r@ == trim_start_chr(s@, c) { s.trim_start_matches(c) }
// the short key id a link file is filed under: "<step>.<short>.link" with the suffix, the step name and the dots trimmed off
pub open spec fn short_id_of(file_name: Seq<char>, step_name: Seq<char>) -> Seq<char> {
    trim_start_chr(trim_start_str(trim_end_str(file_name, ".link"@), step_name), '.')
}
// the content of a file as a signed block (None: unreadable or not a Metablock document); assumed (fs + serde)
pub uninterp spec fn file_metablock(p: PathBuf) -> Option<Metablock>;
//@extract src/verifylib.rs fn:load_linkfile stub
//@contract ret=r
    ensures r is Ok <==> file_metablock(*path) is Some,
            r is Ok ==> r->Ok_0 == file_metablock(*path)->0,
//@end
//@extract src/verifylib.rs fn:match_signatures stub
//@contract
//@include contracts/match_signatures.rs
//@end

// C02: the files glob finds for a step
pub open spec fn step_files(dir: Seq<char>, step_name: Seq<char>) -> Option<Seq<PathBuf>> {
    glob::matched(path_join(dir, step_name + ".????????.link"@))
}
// C02: every link kept for a step comes from a file of that step that parses, under the id of a signature entry of that link whose
// prefix equals the short id in the file's name; the first such entry of every file is present; all files of the step parse
pub open spec fn file_short(files: Seq<PathBuf>, i: int, step_name: Seq<char>) -> Seq<char> { short_id_of(file_name_text(files[i])->0, step_name) }
pub open spec fn loaded_upto(files: Seq<PathBuf>, n: int, step_name: Seq<char>, m: Map<KeyId, Metablock>) -> bool {
    (forall|i: int| 0 <= i < n ==> file_metablock(#[trigger] files[i]) is Some && file_name_text(files[i]) is Some)
    && (forall|k: KeyId| #[trigger] m.contains_key(k) ==> exists|i: int, j: int| 0 <= i < n && file_metablock(#[trigger] files[i]) == Some(m[k])
            && #[trigger] prefix_matches(m[k], j, file_short(files, i, step_name)) && m[k].signatures@[j].kid() == k)
    && (forall|i: int, j: int| 0 <= i < n && #[trigger] prefix_matches(file_metablock(files[i])->0, j, #[trigger] file_short(files, i, step_name))
            && (forall|j2: int| 0 <= j2 < j ==> !prefix_matches(file_metablock(files[i])->0, j2, file_short(files, i, step_name)))
            ==> m.contains_key(file_metablock(files[i])->0.signatures@[j].kid()))
}
pub open spec fn loaded_step(files: Seq<PathBuf>, step_name: Seq<char>, m: Map<KeyId, Metablock>) -> bool { loaded_upto(files, files.len() as int, step_name, m) }
pub open spec fn loaded_all(layout: LayoutMetadata, dir: Seq<char>, out: Map<String, HashMap<KeyId, Metablock>>) -> bool {
    (forall|i: int| 0 <= i < layout.steps@.len() ==> out.contains_key(#[trigger] layout.steps@[i].name))
    && (forall|name: String| #[trigger] out.contains_key(name) ==> exists|i: int| 0 <= i < layout.steps@.len() && (#[trigger] layout.steps@[i]).name == name
            && step_files(dir, name@) is Some && loaded_step(step_files(dir, name@)->0, name@, out[name]@)
            && out[name]@.len() >= layout.steps@[i].threshold)
}
//@extract src/verifylib.rs fn:load_links_for_layout props=C02,C07,C14
//@fmt 1
//@subst D46 /PathBuf::from\(link_dir\)/ => pathbuf_from_str(link_dir)
//@subst D46 /path_pattern\.push\(pattern\)/ => pathbuf_push_string(&mut path_pattern, pattern)
//@subst D47 /matched_files\.flatten\(\)/ => glob_flatten(matched_files)
//@subst D48 /link_path\s*\.file_name\(\)/ => file_name_of(&link_path)
//@subst D49 /signer_short_key_id\s*\.trim_end_matches\("\.link"\)\s*\.trim_start_matches\(&step\.name\)\s*\.trim_start_matches\('\.'\)/ => str_trim_start_matches_char(str_trim_start_matches_string(str_trim_end_matches_str(signer_short_key_id.as_str(), ".link"), &step.name), '.')
//@subst G2 /let mut steps_links_metadata = HashMap::new\(\);/ => let mut steps_links_metadata: HashMap<String, HashMap<KeyId, Metablock>> = HashMap::new();
//@subst G2 /let mut links_per_step = HashMap::new\(\);/ => let mut links_per_step: HashMap<KeyId, Metablock> = HashMap::new();
//@subst W1 /match_signatures\(\s*link_metablock,\s*signer_short_key_id,\s*&mut links_per_step,\s*\);/ => match_signatures(link_metablock, signer_short_key_id, &mut links_per_step);
//@contract ret=r
    ensures r is Ok ==> loaded_all(*layout, link_dir@, r->Ok_0@),   // [C02,C07] (C07: no matched link file is silently left out)
//@before /let mut steps_links_metadata: /
    proof { fact_string_ext(); fact_keyid_key_model(); }
//@loop 1 iter=it1
        invariant
            forall|a: String, b: String| #![trigger a@, b@] a@ == b@ ==> a == b,
            vstd::std_specs::hash::obeys_key_model::<KeyId>(), vstd::std_specs::hash::obeys_key_model::<String>(),
            it1.seq().len() == layout.steps@.len(),
            forall|i: int| 0 <= i < layout.steps@.len() ==> *(#[trigger] it1.seq()[i]) == layout.steps@[i],
            forall|i: int| 0 <= i < it1.index() ==> steps_links_metadata@.contains_key(#[trigger] layout.steps@[i].name),
            forall|name: String| #[trigger] steps_links_metadata@.contains_key(name) ==> exists|i: int| 0 <= i < it1.index() && (#[trigger] layout.steps@[i]).name == name
                && step_files(link_dir@, name@) is Some && loaded_step(step_files(link_dir@, name@)->0, name@, steps_links_metadata@[name]@)
                && steps_links_metadata@[name]@.len() >= layout.steps@[i].threshold,
//@before /for link_path in /
        let ghost files = glob::paths_view(matched_files);
        assert(step_files(link_dir@, step.name@) == Some(files));
//@loop 2 iter=it2
            invariant
                vstd::std_specs::hash::obeys_key_model::<KeyId>(),
                it2.seq() == files,
                loaded_upto(files, it2.index() as int, step.name@, links_per_step@),
//@before /match_signatures\(link_metablock, signer_short_key_id, &mut links_per_step\);/
            let ghost m0 = links_per_step@;
            let ghost mb = link_metablock;
            let ghost idx = it2.index() as int;
            assert(files[idx] == link_path);
            assert(signer_short_key_id@ == file_short(files, idx, step.name@));
//@after /match_signatures\(link_metablock, signer_short_key_id, &mut links_per_step\);/
            proof {
                let m1 = links_per_step@;
                let short = file_short(files, idx, step.name@);
                assert forall|k: KeyId| #[trigger] m1.contains_key(k) implies exists|i: int, j: int| 0 <= i < idx + 1 && file_metablock(#[trigger] files[i]) == Some(m1[k])
                        && #[trigger] prefix_matches(m1[k], j, file_short(files, i, step.name@)) && m1[k].signatures@[j].kid() == k by {
                    if m0.contains_key(k) && m1[k] == m0[k] {
                        let (i, j) = choose|i: int, j: int| 0 <= i < idx && file_metablock(#[trigger] files[i]) == Some(m0[k])
                            && #[trigger] prefix_matches(m0[k], j, file_short(files, i, step.name@)) && m0[k].signatures@[j].kid() == k;
                        assert(0 <= i < idx + 1 && file_metablock(files[i]) == Some(m1[k]) && prefix_matches(m1[k], j, file_short(files, i, step.name@)));
                    } else {
                        let j = choose|j: int| #[trigger] prefix_matches(mb, j, short) && (forall|i: int| 0 <= i < j ==> !prefix_matches(mb, i, short))
                            && m1 == m0.insert(mb.signatures@[j].kid(), mb);
                        assert(k == mb.signatures@[j].kid() && m1[k] == mb);
                        assert(file_metablock(files[idx]) == Some(m1[k]) && prefix_matches(m1[k], j, file_short(files, idx, step.name@)));
                    }
                }
                assert forall|i: int, j: int| 0 <= i < idx + 1 && #[trigger] prefix_matches(file_metablock(files[i])->0, j, #[trigger] file_short(files, i, step.name@))
                        && (forall|j2: int| 0 <= j2 < j ==> !prefix_matches(file_metablock(files[i])->0, j2, file_short(files, i, step.name@)))
                        implies m1.contains_key(file_metablock(files[i])->0.signatures@[j].kid()) by {
                    if i == idx {
                        let j1 = choose|j1: int| #[trigger] prefix_matches(mb, j1, short) && (forall|i2: int| 0 <= i2 < j1 ==> !prefix_matches(mb, i2, short))
                            && m1 == m0.insert(mb.signatures@[j1].kid(), mb);
                        assert(j1 == j) by { if j1 < j { assert(!prefix_matches(mb, j1, short)); } else if j < j1 { assert(!prefix_matches(mb, j, short)); } }
                    } else {
                        assert(m0.contains_key(file_metablock(files[i])->0.signatures@[j].kid()));
                    }
                }
            }
//@end
} // verus!
fn main() {}
