//@props C18
//@include prelude/head.rs
use std::io::Read;
verus! {
//@include prelude/axioms.rs
//@include prelude/std_string.rs
//@include prelude/utf8_facts.rs
//@include prelude/error.rs

//@include contracts/hash_specs.rs
impl HashValue {
//@extract src/crypto.rs impl:HashValue/fn:new
//@contract ret=r
    ensures r.bytes() == bytes@,
//@end
}
// D38: `read.read(&mut buf)` on a generic reader, with std's documented contract: at most buf.len() bytes are
// delivered; Ok(0) (for a non-empty buffer) means end of stream; the delivered bytes are the next bytes of the stream
#[verifier::external_body]
fn reader_read<R: Read>(r: &mut R, buf: &mut Vec<u8>) -> (res: std::io::Result<usize>)
    ensures final(buf)@.len() == old(buf)@.len(),
            res is Ok ==> res->Ok_0 <= old(buf)@.len()
                && final(buf)@.subrange(0, res->Ok_0 as int) == rest(*old(r)).subrange(0, res->Ok_0 as int)
                && res->Ok_0 <= rest(*old(r)).len()
                && rest(*final(r)) == rest(*old(r)).skip(res->Ok_0 as int)
                && (res->Ok_0 == 0 && old(buf)@.len() > 0 ==> rest(*old(r)).len() == 0),
{ unimplemented!() }
impl HashAlgorithm {
//@extract src/crypto.rs impl:HashAlgorithm/fn:digest_context props=C18,C14
//@contract ret=r
    ensures r is Ok <==> !(self is Unknown),
            r is Ok ==> digest::ctx_alg(r->Ok_0) == alg_id(*self) && digest::ctx_data(r->Ok_0) == Seq::<u8>::empty(),
//@end
}
// D36: `for context in hashes.values_mut() { context.update(data) }`: every context absorbs `data`
#[verifier::external_body]
fn update_all(hashes: &mut HashMap<&HashAlgorithm, digest::Context>, data: &[u8])
    ensures final(hashes)@.dom() == old(hashes)@.dom(),
            forall|k: &HashAlgorithm| #[trigger] old(hashes)@.contains_key(k) ==> digest::ctx_alg(final(hashes)@[k]) == digest::ctx_alg(old(hashes)@[k])
                && digest::ctx_data(final(hashes)@[k]) == digest::ctx_data(old(hashes)@[k]) + data@,
{ unimplemented!() }
// D37: `hashes.drain().map(|(k, v)| (k.clone(), HashValue::new(v.finish().as_ref().to_vec()))).collect()`
#[verifier::external_body]
fn finish_all(hashes: &mut HashMap<&HashAlgorithm, digest::Context>) -> (r: HashMap<HashAlgorithm, HashValue>)
    ensures forall|k: HashAlgorithm| #[trigger] r@.contains_key(k) <==> old(hashes)@.contains_key(&k),
            forall|k: HashAlgorithm| #[trigger] r@.contains_key(k) ==> r@[k].bytes() == digest::digest_of(digest::ctx_alg(old(hashes)@[&k]), digest::ctx_data(old(hashes)@[&k])),
{ unimplemented!() }

// C18: the digest recorded for each requested algorithm is the digest of all bytes of the stream, and `size` is their number
//@extract src/crypto.rs fn:calculate_hashes props=C18,C14
//@subst D38 /read\.read\(&mut buf\)/ => reader_read(&mut read, &mut buf)
//@subst D36 /for context in hashes\.values_mut\(\) \{\s*context\.update\(&buf\[0\.\.read_bytes\]\);\s*\}/ => update_all(&mut hashes, slice_to(&buf, read_bytes));
//@subst D37 /hashes\s*\.drain\(\)\s*\.map\(\|\(k, v\)\| \(k\.clone\(\), HashValue::new\(v\.finish\(\)\.as_ref\(\)\.to_vec\(\)\)\)\)\s*\.collect\(\)/ => finish_all(&mut hashes)
//@subst G2 /let mut size = 0;/ => let mut size: u64 = 0;
//@subst G2 /let mut hashes = HashMap::new\(\);/ => let mut hashes: HashMap<&HashAlgorithm, digest::Context> = HashMap::new();
//@contract ret=r
//@include contracts/calculate_hashes.rs
//@before /let mut size/
    let ghost stream0 = rest(read);
    proof { fact_hashalg_key_model(); }
//@loop 1 iter=it
        invariant
            vstd::std_specs::hash::obeys_key_model::<&HashAlgorithm>(),
            it.seq().len() == hash_algs@.len(),
            forall|i: int| 0 <= i < hash_algs@.len() ==> *(#[trigger] it.seq()[i]) == hash_algs@[i],
            forall|i: int| 0 <= i < it.index() ==> hashes@.contains_key(&#[trigger] hash_algs@[i]),
            forall|k: &HashAlgorithm| #[trigger] hashes@.contains_key(k) ==> digest::ctx_alg(hashes@[k]) == alg_id(*k) && digest::ctx_data(hashes@[k]) == Seq::<u8>::empty(),
//@before /let mut buf = vec!\[0; 1024\];/
    let ghost mut done: Seq<u8> = Seq::empty();
//@loop 2
        invariant
            buf@.len() == 1024,
            stream0 == done + rest(read),
            stream0.len() <= u64::MAX,
            size == done.len(),
            forall|i: int| 0 <= i < hash_algs@.len() ==> hashes@.contains_key(&#[trigger] hash_algs@[i]),
            forall|k: &HashAlgorithm| #[trigger] hashes@.contains_key(k) ==> digest::ctx_alg(hashes@[k]) == alg_id(*k) && digest::ctx_data(hashes@[k]) == done,
        ensures
            rest(read).len() == 0,
        decreases rest(read).len(),
//@after /update_all\(&mut hashes, slice_to\(&buf, read_bytes\)\);/
                proof {
                    done = done + buf@.subrange(0, read_bytes as int);
                }
//@end
#[verifier::external_body]
pub proof fn fact_hashalg_key_model()
    ensures vstd::std_specs::hash::obeys_key_model::<&HashAlgorithm>(), vstd::std_specs::hash::obeys_key_model::<HashAlgorithm>()
{}
// `&buf[0..n]`
#[verifier::external_body]
fn slice_to(buf: &Vec<u8>, n: usize) -> (r: &[u8]) requires n <= buf@.len() ensures r@ == buf@.subrange(0, n as int) { &buf[0..n] }
} // verus!
fn main() {}
