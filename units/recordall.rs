//@props C18
//@include prelude/head.rs
use std::io::Read;
use std::io::BufReader;
use std::fs::File;
use std::path::{Path, PathBuf};
verus! {
//@include prelude/axioms.rs
//@include prelude/std_string.rs
//@include prelude/utf8_facts.rs
//@include prelude/error.rs
//@include contracts/hash_specs.rs
//@include contracts/lstrip_specs.rs

pub type TargetDescription = HashMap<HashAlgorithm, HashValue>;
//@take src/models/helpers.rs struct:VirtualTargetPath drop_derives=Debug,Clone,PartialEq,Eq,PartialOrd,Ord,Hash
impl VirtualTargetPath {
    pub closed spec fn text(self) -> Seq<char> { self.0@ }
}
impl std::fmt::Display for VirtualTargetPath { #[verifier::external_body] fn fmt(&self, f: &mut std::fmt::Formatter) -> std::fmt::Result { unimplemented!() } }
impl PartialEq for VirtualTargetPath { #[verifier::external_body] fn eq(&self, o: &Self) -> bool { unimplemented!() } }
impl Eq for VirtualTargetPath {}
impl PartialOrd for VirtualTargetPath { #[verifier::external_body] fn partial_cmp(&self, o: &Self) -> Option<std::cmp::Ordering> { unimplemented!() } }
impl Ord for VirtualTargetPath { #[verifier::external_body] fn cmp(&self, o: &Self) -> std::cmp::Ordering { unimplemented!() } }
#[verifier::external_body]
pub proof fn fact_vtp_ext()
    ensures forall|a: VirtualTargetPath, b: VirtualTargetPath| #![trigger a.text(), b.text()] a.text() == b.text() ==> a == b,
            vstd::std_specs::btree::key_obeys_cmp_spec::<VirtualTargetPath>(),
{}
//@include contracts/record_specs.rs

#[verifier::external_body]
pub proof fn fact_hashalg_key_model2() ensures vstd::std_specs::hash::obeys_key_model::<String>() {}
// the algorithm a name selects, and the list selected by the optional `hash_algorithms` argument
pub open spec fn alg_named(n: Seq<char>) -> Option<HashAlgorithm> {
    if n == "sha256"@ { Some(HashAlgorithm::Sha256) } else if n == "sha512"@ { Some(HashAlgorithm::Sha512) } else { None }
}
pub open spec fn selected_algs(h: Option<&[&str]>) -> Seq<HashAlgorithm> {
    match h { None => seq![HashAlgorithm::Sha256], Some(names) => Seq::new(names@.len(), |i: int| alg_named(names@[i]@)->0) }
}
impl HashAlgorithm {
//@extract src/crypto.rs impl:HashAlgorithm/fn:return_all props=C18
//@subst G2 /let mut map = HashMap::new\(\);/ => let mut map: HashMap<String, HashAlgorithm> = HashMap::new();
//@subst D27 /String::from\("sha256"\)/ => "sha256".to_owned()
//@subst D27 /String::from\("sha512"\)/ => "sha512".to_owned()
//@contract ret=r
    ensures forall|k: String| #[trigger] r@.contains_key(k) <==> (k@ == "sha256"@ || k@ == "sha512"@),   // [C18]
            forall|k: String| #[trigger] r@.contains_key(k) ==> r@[k] == (if k@ == "sha256"@ { HashAlgorithm::Sha256 } else { HashAlgorithm::Sha512 }),   // [C18]
//@before /let mut map: HashMap<String, HashAlgorithm> = HashMap::new\(\);/
        proof { fact_string_ext(); fact_hashalg_key_model2(); reveal_strlit("sha256"); reveal_strlit("sha512");
                assert("sha256"@ != "sha512"@) by { assert("sha256"@[3] == '2'); assert("sha512"@[3] == '5'); } }
//@end
}
// ---- trusted stubs: walkdir, path_clean, std::fs metadata (assumed: arbitrary results, no panic; a directory walk is finite) ----
#[verifier::external_type_specification]
#[verifier::external_body]
pub struct ExIoError2(std::io::ErrorKind);
#[verifier::external_type_specification]
#[verifier::external_body]
pub struct ExPathBuf(PathBuf);
#[verifier::external_type_specification]
#[verifier::external_body]
pub struct ExPath(Path);
#[verifier::external_type_specification]
#[verifier::external_body]
pub struct ExMetadata(std::fs::Metadata);
#[verifier::external_type_specification]
#[verifier::external_body]
pub struct ExFileType(std::fs::FileType);
pub assume_specification<P: AsRef<Path>> [std::fs::symlink_metadata::<P>] (p: P) -> (r: std::io::Result<std::fs::Metadata>);
pub assume_specification<P: AsRef<Path>> [std::fs::metadata::<P>] (p: P) -> (r: std::io::Result<std::fs::Metadata>);
pub assume_specification [std::fs::Metadata::is_file] (m: &std::fs::Metadata) -> (r: bool);
pub assume_specification [std::fs::Metadata::file_type] (m: &std::fs::Metadata) -> (r: std::fs::FileType);
pub assume_specification [std::fs::FileType::is_symlink] (t: &std::fs::FileType) -> (r: bool);
pub assume_specification [std::fs::FileType::is_file] (t: &std::fs::FileType) -> (r: bool);
pub assume_specification [PathBuf::as_path] (p: &PathBuf) -> (r: &Path);
pub assume_specification [Path::to_str] (p: &Path) -> (r: Option<&str>);
#[verifier::external_body]
fn clean(p: &&str) -> PathBuf { unimplemented!() }
pub mod walkdir {
    use vstd::prelude::*;
    use std::path::PathBuf;
    #[verifier::external_body] pub struct WalkDir { _o: u8 }
    #[verifier::external_body] pub struct IntoIter { _o: u8 }
    #[verifier::external_body] pub struct DirEntry { _o: u8 }
    #[verifier::external_body] pub struct Error { _o: u8 }
    // entries still to come (a directory walk with loop detection is finite)
    pub uninterp spec fn fuel(it: IntoIter) -> nat;
    impl WalkDir {
        #[verifier::external_body] pub fn new(p: PathBuf) -> WalkDir { unimplemented!() }
        #[verifier::external_body] pub fn follow_links(self, yes: bool) -> WalkDir { unimplemented!() }
        #[verifier::external_body] pub fn into_iter(self) -> IntoIter { unimplemented!() }
    }
    impl IntoIter {
        #[verifier::external_body]
        pub fn next(&mut self) -> (r: Option<Result<DirEntry, Error>>) ensures r is Some ==> fuel(*final(self)) < fuel(*old(self)) { unimplemented!() }
        #[verifier::external_body]
        pub fn skip_current_dir(&mut self) ensures fuel(*final(self)) <= fuel(*old(self)) { unimplemented!() }
    }
}
use self::walkdir::WalkDir;
//@extract src/runlib.rs fn:dir_entry_to_path stub
//@end
//@extract src/runlib.rs fn:record_artifact stub
//@contract ret=r
//@include contracts/record_artifact.rs
//@end

// C18: the recorded map is exactly a sequence of single-file recordings with pairwise different keys - a second file that would
// receive an already present key is an error, never a silent replacement
pub open spec fn rec_ok(algs: Seq<HashAlgorithm>, ls: Option<&[&str]>, e: (VirtualTargetPath, TargetDescription)) -> bool {
    exists|p: Seq<char>| #[trigger] recorded_one(p, algs, ls, e)
}
pub open spec fn distinct_keys(recs: Seq<(VirtualTargetPath, TargetDescription)>) -> bool {
    forall|i: int, j: int| 0 <= i < j < recs.len() ==> (#[trigger] recs[i]).0 != (#[trigger] recs[j]).0
}
pub open spec fn is_map_of(m: Map<VirtualTargetPath, TargetDescription>, recs: Seq<(VirtualTargetPath, TargetDescription)>) -> bool {
    (forall|i: int| 0 <= i < recs.len() ==> m.contains_key((#[trigger] recs[i]).0) && m[recs[i].0] == recs[i].1)
    && (forall|k: VirtualTargetPath| #[trigger] m.contains_key(k) ==> exists|i: int| 0 <= i < recs.len() && (#[trigger] recs[i]).0 == k)
}
pub open spec fn record_log(m: Map<VirtualTargetPath, TargetDescription>, recs: Seq<(VirtualTargetPath, TargetDescription)>, algs: Seq<HashAlgorithm>, ls: Option<&[&str]>) -> bool {
    distinct_keys(recs) && is_map_of(m, recs) && forall|i: int| 0 <= i < recs.len() ==> rec_ok(algs, ls, #[trigger] recs[i])
}
// inserting a fresh key extends the log
pub proof fn lemma_log_push(m0: Map<VirtualTargetPath, TargetDescription>, recs: Seq<(VirtualTargetPath, TargetDescription)>, e: (VirtualTargetPath, TargetDescription))   // [C18]
    requires distinct_keys(recs), is_map_of(m0, recs), !m0.contains_key(e.0)
    ensures distinct_keys(recs.push(e)), is_map_of(m0.insert(e.0, e.1), recs.push(e))
{
    let r2 = recs.push(e);
    let m2 = m0.insert(e.0, e.1);
    assert forall|i: int, j: int| 0 <= i < j < r2.len() implies (#[trigger] r2[i]).0 != (#[trigger] r2[j]).0 by {
        if j == recs.len() { assert(r2[i] == recs[i]); assert(m0.contains_key(recs[i].0)); }
        else { assert(r2[i] == recs[i] && r2[j] == recs[j]); }
    }
    assert forall|i: int| 0 <= i < r2.len() implies m2.contains_key((#[trigger] r2[i]).0) && m2[r2[i].0] == r2[i].1 by {
        if i < recs.len() { assert(r2[i] == recs[i]); assert(m0.contains_key(recs[i].0)); }
    }
    assert forall|k: VirtualTargetPath| #[trigger] m2.contains_key(k) implies exists|i: int| 0 <= i < r2.len() && (#[trigger] r2[i]).0 == k by {
        if k == e.0 { assert(r2[recs.len() as int].0 == k); }
        else {
            assert(m0.contains_key(k));
            let i = choose|i: int| 0 <= i < recs.len() && (#[trigger] recs[i]).0 == k;
            assert(r2[i] == recs[i]);
        }
    }
}
//@extract src/runlib.rs fn:record_artifacts props=C18,C14
//@subst D27 /String::from\(&path\)/ => path.clone()
//@subst G2 /let mut visited_sym_links = HashSet::new\(\);/ => let mut visited_sym_links: HashSet<String> = HashSet::new();
//@subst G2 /let mut map = vec!\[\];/ => let mut map: Vec<HashAlgorithm> = vec![];
//@contract ret=r
    ensures r is Ok ==> exists|recs: Seq<(VirtualTargetPath, TargetDescription)>| #[trigger] record_log(r->Ok_0@, recs, selected_algs(hash_algorithms), lstrip_paths),   // [C18]
            r is Ok && hash_algorithms is Some ==> forall|i: int| 0 <= i < hash_algorithms->0@.len() ==> alg_named(#[trigger] hash_algorithms->0@[i]@) is Some,   // [C18] an unknown algorithm name is an error
//@before /let available_algorithms = /
    proof { fact_string_ext(); fact_vtp_ext(); }
    let ghost hsel = hash_algorithms;
//@loop 1 iter=hit
                invariant
                    forall|a: String, b: String| #![trigger a@, b@] a@ == b@ ==> a == b,
                    vstd::std_specs::hash::obeys_key_model::<String>(),
                    forall|k: String| #[trigger] available_algorithms@.contains_key(k) <==> (k@ == "sha256"@ || k@ == "sha512"@),
                    forall|k: String| #[trigger] available_algorithms@.contains_key(k) ==> available_algorithms@[k] == (if k@ == "sha256"@ { HashAlgorithm::Sha256 } else { HashAlgorithm::Sha512 }),
                    hit.seq().len() == hashes@.len(),
                    forall|i: int| 0 <= i < hashes@.len() ==> *(#[trigger] hit.seq()[i]) == hashes@[i],
                    map@.len() == hit.index(),
                    forall|i: int| 0 <= i < hit.index() ==> alg_named(#[trigger] hashes@[i]@) == Some(map@[i]),
//@before /Initialize artifacts/
    let ghost algs = hash_algorithms@;
    assert(algs =~= selected_algs(hsel));
    let ghost mut recs: Seq<(VirtualTargetPath, TargetDescription)> = Seq::empty();
//@loop 2
        invariant
            algs == hash_algorithms@,
            forall|a: VirtualTargetPath, b: VirtualTargetPath| #![trigger a.text(), b.text()] a.text() == b.text() ==> a == b,
            vstd::std_specs::btree::key_obeys_cmp_spec::<VirtualTargetPath>(),
            vstd::std_specs::hash::obeys_key_model::<String>(),
            distinct_keys(recs) && is_map_of(artifacts@, recs),
            forall|i: int| 0 <= i < recs.len() ==> rec_ok(algs, lstrip_paths, #[trigger] recs[i]),
//@loop 3
            invariant
                algs == hash_algorithms@,
                forall|a: VirtualTargetPath, b: VirtualTargetPath| #![trigger a.text(), b.text()] a.text() == b.text() ==> a == b,
                vstd::std_specs::btree::key_obeys_cmp_spec::<VirtualTargetPath>(),
                vstd::std_specs::hash::obeys_key_model::<String>(),
                distinct_keys(recs) && is_map_of(artifacts@, recs),
                forall|i: int| 0 <= i < recs.len() ==> rec_ok(algs, lstrip_paths, #[trigger] recs[i]),
            decreases walkdir::fuel(walker),
//@before /artifacts\.insert\(virtual_target_path, hashes\);/ nth=1
                        let ghost e1 = (virtual_target_path, hashes);
                        proof {
                            assert(recorded_one(path@, algs, lstrip_paths, e1));
                            lemma_log_push(artifacts@, recs, e1);
                            assert forall|i: int| 0 <= i < recs.push(e1).len() implies rec_ok(algs, lstrip_paths, #[trigger] recs.push(e1)[i]) by {
                                if i < recs.len() { assert(recs.push(e1)[i] == recs[i]); }
                            }
                            recs = recs.push(e1);
                        }
//@before /artifacts\.insert\(virtual_target_path, hashes\);/ nth=2
                let ghost e2 = (virtual_target_path, hashes);
                proof {
                    assert(recorded_one(path@, algs, lstrip_paths, e2));
                    lemma_log_push(artifacts@, recs, e2);
                    assert forall|i: int| 0 <= i < recs.push(e2).len() implies rec_ok(algs, lstrip_paths, #[trigger] recs.push(e2)[i]) by {
                        if i < recs.len() { assert(recs.push(e2)[i] == recs[i]); }
                    }
                    recs = recs.push(e2);
                }
//@before /Ok\(artifacts\)$/
    let ghost m_end = artifacts@;
    assert(record_log(m_end, recs, algs, lstrip_paths));
//@bind_tail res
    proof {
        assert(res is Ok && res->Ok_0@ == m_end);
        assert(record_log(res->Ok_0@, recs, selected_algs(hsel), lstrip_paths));
    }
//@end
} // verus!
fn main() {}
