//@props C15
//@include prelude/head.rs
use std::path::{Path, PathBuf};
verus! {
//@include prelude/axioms.rs
//@include prelude/std_string.rs
//@include prelude/utf8_facts.rs
//@include prelude/error.rs
//@include prelude/std_collect.rs
//@include prelude/ring_stub.rs
//@include prelude/chrono_stub.rs
//@include prelude/crypto_types.rs
//@include prelude/models_types.rs
//@include contracts/metablock_specs.rs
//@include contracts/stage_specs.rs
//@include lemmas/owner_gate.rs
//@include contracts/stage_specs2.rs

//@include contracts/link_builder.rs MODE=props=C15
//@take src/models/layout/supply_chain_item.rs trait:SupplyChainItem
impl SupplyChainItem for Step {
//@extract src/models/layout/step.rs "impl:SupplyChainItem for Step/fn:name"
//@contract ret=r
    ensures r@ == self.name@,
//@end
//@extract src/models/layout/step.rs "impl:SupplyChainItem for Step/fn:expected_materials"
//@end
//@extract src/models/layout/step.rs "impl:SupplyChainItem for Step/fn:expected_products"
//@end
}
// Metablock::new with no signing keys (stub; the signing path is the C09 unit)
pub struct PrivateKey { _p: u8 }
impl Metablock {
//@extract src/models/metadata.rs impl:Metablock/fn:new stub
//@contract ret=r
    ensures private_keys@.len() == 0 && r is Ok ==> r->Ok_0.metadata == metadata && r->Ok_0.signatures@.len() == 0,
//@end
}

//@extract src/verifylib.rs fn:get_summary_link props=C15,C14
//@mapindex reduced_link_files
//@contract ret=r
//@include contracts/get_summary_link.rs
//@before /let builder = LinkMetadataBuilder::new\(\)/
    proof { fact_string_ext(); fact_artifact_map_ext(); }
//@end

// ---- verify_sublayouts (C15) ----
//@include prelude/vdisp.rs
//@include contracts/keyid_stub.rs
// std::path: join / to_str as uninterpreted functions of the texts
pub uninterp spec fn path_join(dir: Seq<char>, name: Seq<char>) -> Seq<char>;
pub uninterp spec fn pathbuf_text(p: PathBuf) -> Option<Seq<char>>;
#[verifier::external_type_specification]
#[verifier::external_body]
pub struct ExPathBuf(PathBuf);
#[verifier::external_type_specification]
#[verifier::external_body]
pub struct ExPath(Path);
#[verifier::external_body]
fn path_new_join(dir: &str, name: &String) -> (r: PathBuf)
    ensures pathbuf_text(r) is Some ==> pathbuf_text(r)->0 == path_join(dir@, name@)
{ Path::new(dir).join(name) }
pub uninterp spec fn path_text(p: &Path) -> Option<Seq<char>>;
pub assume_specification [<PathBuf as std::ops::Deref>::deref] (p: &PathBuf) -> (r: &Path)
    ensures path_text(r) == pathbuf_text(*p);
pub assume_specification [Path::to_str] (p: &Path) -> (r: Option<&str>)
    ensures match path_text(p) { Some(t) => r is Some && r->0@ == t, None => r is None };

//@extract src/verifylib.rs fn:in_toto_verify stub
//@contract ret=r
//@include contracts/in_toto_verify.rs
//@end

// C15: what verify_sublayouts guarantees for one (step, key) entry of its input
pub open spec fn sub_entry_ok(layout: LayoutMetadata, link_dir: Seq<char>, step: String, k: KeyId, mb: Metablock, out: LinkMetadata) -> bool {
    match mb.metadata {
        MetadataWrapper::Link(l) => out == l,
        MetadataWrapper::Layout(_) => layout.keys@.contains_key(k)
            && verified(mb, Map::<KeyId, PublicKey>::empty().insert(k, layout.keys@[k]), path_join(link_dir, step@ + "."@ + spec_prefix(k.id())))
            && out.name@ == step@,
    }
}
//@extract src/verifylib.rs fn:verify_sublayouts props=C15,C06,C07,C08,C14
//@fmt 2
//@subst D20 /Path::new\(link_dir\)\.join\(&sub_link_dir\)/ => path_new_join(link_dir, &sub_link_dir)
//@subst G2 /let mut steps_link_metadata = HashMap::new\(\);/ => let mut steps_link_metadata: HashMap<String, HashMap<KeyId, LinkMetadata>> = HashMap::new();
//@subst G2 /let mut link_per_step = HashMap::new\(\);/ => let mut link_per_step: HashMap<KeyId, LinkMetadata> = HashMap::new();
//@subst G2 /let mut layout_key_dict = HashMap::new\(\);/ => let mut layout_key_dict: HashMap<KeyId, PublicKey> = HashMap::new();
//@contract ret=r
    ensures
        r is Ok ==> r->Ok_0@.dom() == chain_link_dict@.dom(),     // [C15]
        r is Ok ==> forall|step: String| #[trigger] chain_link_dict@.contains_key(step) ==>
            r->Ok_0@[step]@.dom() == chain_link_dict@[step]@.dom()
            && forall|k: KeyId| #[trigger] chain_link_dict@[step]@.contains_key(k) ==>
                sub_entry_ok(*layout, link_dir@, step, k, chain_link_dict@[step]@[k], r->Ok_0@[step]@[k]),   // [C15,C06,C07,C08]
//@before /let mut steps_link_metadata/
    let ghost in0 = chain_link_dict@;
    proof { fact_string_ext(); fact_keyid_key_model(); fact_to_owned_keyid(); }
//@loop 1 iter=it1
        invariant
            forall|a: String, b: String| #![trigger a@, b@] a@ == b@ ==> a == b,
            vstd::std_specs::hash::obeys_key_model::<String>(),
            vstd::std_specs::hash::obeys_key_model::<KeyId>(),
            forall|x: KeyId, r: KeyId| #[trigger] to_owned_post(x, r) ==> r == x,
            forall|i: int| 0 <= i < it1.seq().len() ==> in0.contains_key((#[trigger] it1.seq()[i]).0) && in0[it1.seq()[i].0] == it1.seq()[i].1,
            forall|step: String| in0.contains_key(step) ==> exists|i: int| 0 <= i < it1.seq().len() && (#[trigger] it1.seq()[i]).0 == step,
            forall|i: int| 0 <= i < it1.index() ==> steps_link_metadata@.contains_key((#[trigger] it1.seq()[i]).0),
            forall|step: String| #[trigger] steps_link_metadata@.contains_key(step) ==> in0.contains_key(step)
                && steps_link_metadata@[step]@.dom() == in0[step]@.dom()
                && forall|k: KeyId| #[trigger] in0[step]@.contains_key(k) ==>
                    sub_entry_ok(*layout, link_dir@, step, k, in0[step]@[k], steps_link_metadata@[step]@[k]),
//@loop 2 iter=it2
            invariant
                forall|a: String, b: String| #![trigger a@, b@] a@ == b@ ==> a == b,
                vstd::std_specs::hash::obeys_key_model::<String>(),
                vstd::std_specs::hash::obeys_key_model::<KeyId>(),
                forall|x: KeyId, r: KeyId| #[trigger] to_owned_post(x, r) ==> r == x,
                forall|j: int| 0 <= j < it2.seq().len() ==> key_link_dict@.contains_key(*(#[trigger] it2.seq()[j]).0) && key_link_dict@[*it2.seq()[j].0] == *it2.seq()[j].1,
                forall|k: KeyId| key_link_dict@.contains_key(k) ==> exists|j: int| 0 <= j < it2.seq().len() && *(#[trigger] it2.seq()[j]).0 == k,
                forall|j: int| 0 <= j < it2.index() ==> link_per_step@.contains_key(*(#[trigger] it2.seq()[j]).0),
                forall|k: KeyId| #[trigger] link_per_step@.contains_key(k) ==> key_link_dict@.contains_key(k)
                    && sub_entry_ok(*layout, link_dir@, step_name, k, key_link_dict@[k], link_per_step@[k]),
//@after_loop 2
        proof { assert(link_per_step@.dom() =~= key_link_dict@.dom()); }
//@after_loop 1
    proof { assert(steps_link_metadata@.dom() =~= in0.dom()); }
//@after /layout_key_dict\.insert\(keyid\.to_owned\(\), pubkey\.clone\(\)\);/
                    proof {
                        assert(layout_key_dict@ =~= Map::<KeyId, PublicKey>::empty().insert(*keyid, layout.keys@[*keyid]));
                        assert(layout_key_dict@.dom() =~= set![*keyid]);
                    }
//@end
} // verus!
fn main() {}
