//@props C15
//@include prelude/head.rs
use std::path::{Path, PathBuf};
verus! {
//@include prelude/axioms.rs
//@include prelude/std_string.rs
//@include prelude/utf8_facts.rs
//@include prelude/error.rs
//@include prelude/std_collect.rs
//@include prelude/ring_stub.rs
//@include prelude/chrono_stub.rs
//@include prelude/crypto_types.rs
//@include prelude/models_types.rs
//@include contracts/metablock_specs.rs
//@include contracts/stage_specs.rs
//@include contracts/stage_specs2.rs

// ---- the link builder (real code) ----
//@take src/models/link/metadata.rs struct:LinkMetadataBuilder
impl ByProducts { #[verifier::external_body] pub fn new() -> Self { unimplemented!() } }
impl Default for Command { #[verifier::external_body] fn default() -> Self { unimplemented!() } }
impl LinkMetadataBuilder {
    // ghost view of the builder: the link it would build
    pub closed spec fn st(self) -> LinkMetadata {
        LinkMetadata { name: self.name, materials: self.materials, products: self.products, env: self.env, byproducts: self.byproducts, command: self.command }
    }
//@extract src/models/link/metadata.rs impl:LinkMetadataBuilder/fn:new props=C15
//@end
//@extract src/models/link/metadata.rs impl:LinkMetadataBuilder/fn:name props=C15
//@mutself
//@contract ret=r
    ensures r.st() == (LinkMetadata { name: name, ..self.st() }),
//@end
//@extract src/models/link/metadata.rs impl:LinkMetadataBuilder/fn:materials props=C15
//@mutself
//@contract ret=r
    ensures r.st() == (LinkMetadata { materials: materials, ..self.st() }),
//@end
//@extract src/models/link/metadata.rs impl:LinkMetadataBuilder/fn:products props=C15
//@mutself
//@contract ret=r
    ensures r.st() == (LinkMetadata { products: products, ..self.st() }),
//@end
//@extract src/models/link/metadata.rs impl:LinkMetadataBuilder/fn:byproducts props=C15
//@mutself
//@contract ret=r
    ensures r.st() == (LinkMetadata { byproducts: byproducts, ..self.st() }),
//@end
//@extract src/models/link/metadata.rs impl:LinkMetadataBuilder/fn:command props=C15
//@mutself
//@contract ret=r
    ensures r.st() == (LinkMetadata { command: command, ..self.st() }),
//@end
//@extract src/models/link/metadata.rs impl:LinkMetadataBuilder/fn:build props=C15
//@contract ret=r
    ensures r is Ok, r->Ok_0 == self.st(),
//@end
}
impl LinkMetadata {
//@extract src/models/link/metadata.rs impl:LinkMetadata/fn:new props=C15
//@contract ret=r
    ensures r is Ok, r->Ok_0.name == name, r->Ok_0.materials == materials, r->Ok_0.products == products,
            r->Ok_0.env == env, r->Ok_0.byproducts == byproducts, r->Ok_0.command == command,
//@end
}
//@take src/models/layout/supply_chain_item.rs trait:SupplyChainItem
impl SupplyChainItem for Step {
//@extract src/models/layout/step.rs "impl:SupplyChainItem for Step/fn:name"
//@contract ret=r
    ensures r@ == self.name@,
//@end
//@extract src/models/layout/step.rs "impl:SupplyChainItem for Step/fn:expected_materials"
//@end
//@extract src/models/layout/step.rs "impl:SupplyChainItem for Step/fn:expected_products"
//@end
}
// Metablock::new with no signing keys (stub; the signing path is the C09 unit)
pub struct PrivateKey { _p: u8 }
impl Metablock {
//@extract src/models/metadata.rs impl:Metablock/fn:new stub
//@contract ret=r
    ensures private_keys@.len() == 0 && r is Ok ==> r->Ok_0.metadata == metadata && r->Ok_0.signatures@.len() == 0,
//@end
}

//@extract src/verifylib.rs fn:get_summary_link props=C15,C14
//@subst D16 /reduced_link_files\[layout\.steps\[0\]\.name\(\)\]/ => reduced_link_files.get(layout.steps[0].name()).expect("no entry found for key")
//@subst D16 /reduced_link_files\[layout\.steps\[layout\.steps\.len\(\) - 1\]\.name\(\)\]/ => reduced_link_files.get(layout.steps[layout.steps.len() - 1].name()).expect("no entry found for key") count=3
//@contract ret=r
//@include contracts/get_summary_link.rs
//@before /let builder = LinkMetadataBuilder::new\(\)/
    proof { fact_string_ext(); fact_artifact_map_ext(); }
//@end
} // verus!
fn main() {}
