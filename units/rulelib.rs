//@props C03
//@include prelude/head.rs
use std::path::PathBuf;
verus! {
//@include prelude/axioms.rs
//@include prelude/std_string.rs
//@include prelude/utf8_facts.rs
//@include prelude/error.rs
//@include prelude/std_collect.rs
//@include prelude/ring_stub.rs
//@include prelude/chrono_stub.rs
//@include prelude/crypto_types.rs

//@include contracts/rulelib_types.rs

//@include contracts/rule_algorithm.rs
// ---- apply_rules_on_link ----
// D32: `M.iter().filter_map(|(path, _)| canonicalize_path(path)).collect::<BTreeSet<_>>()`
#[verifier::external_body]
fn canon_paths(m: &ArtifactMap) -> (r: BTreeSet<VirtualTargetPath>)
    ensures r@ == canon_set(m@)
{ unimplemented!() }
// D33: `A.intersection(&B).cloned().filter_map(F).collect()`
pub open spec fn fmap_ret<F: FnMut(VirtualTargetPath) -> Option<VirtualTargetPath>>(f: F, x: VirtualTargetPath) -> Option<VirtualTargetPath> { choose|o: Option<VirtualTargetPath>| f.ensures((x,), o) }
#[verifier::external_body]
fn btreeset_intersection_filter_map<F: FnMut(VirtualTargetPath) -> Option<VirtualTargetPath>>(a: &BTreeSet<VirtualTargetPath>, b: &BTreeSet<VirtualTargetPath>, f: F) -> (r: BTreeSet<VirtualTargetPath>)
    requires forall|x: VirtualTargetPath| #[trigger] f.requires((x,)),
             forall|x: VirtualTargetPath, o1: Option<VirtualTargetPath>, o2: Option<VirtualTargetPath>| f.ensures((x,), o1) && f.ensures((x,), o2) ==> o1 == o2,
    ensures forall|x: VirtualTargetPath| #![trigger a@.contains(x), b@.contains(x)] #![trigger fmap_ret(f, x)] a@.contains(x) && b@.contains(x) ==> f.ensures((x,), fmap_ret(f, x)),
            forall|y: VirtualTargetPath| #[trigger] r@.contains(y) <==> exists|x: VirtualTargetPath| a@.contains(x) && b@.contains(x) && #[trigger] fmap_ret(f, x) == Some(y),
{ unimplemented!() }
//@extract src/rulelib.rs fn:verify_match_rule stub
//@contract ret=r
//@include contracts/verify_match_rule.rs
//@end
// assumed: `==` / `!=` on a target description (HashMap<HashAlgorithm, HashValue>) is structural equality
#[verifier::external_body]
pub proof fn fact_target_description_eq()
    ensures <TargetDescription as vstd::std_specs::cmp::PartialEqSpec>::obeys_eq_spec(),
            forall|a: TargetDescription, b: TargetDescription| #[trigger] vstd::std_specs::cmp::PartialEqSpec::eq_spec(&a, &b) == (a == b),
{}

proof fn lemma_rules_none(rules: Seq<ArtifactRule>, n: int, m: int, q0: Set<VirtualTargetPath>, c: RuleCtx)   // [C03]
    requires 0 <= n <= m, rules_upto(rules, n, q0, c) is None
    ensures rules_upto(rules, m, q0, c) is None
    decreases m - n
{
    if n < m { lemma_rules_none(rules, n, m - 1, q0, c); }
}
//@extract src/rulelib.rs fn:apply_rules_on_link props=C03,C08,C13,C14
//@hoist VerificationDataList
//@subst D32 /src_link\s*\.materials\s*\.iter\(\)\s*\.filter_map\(\|\(path, _\)\| canonicalize_path\(path\)\)\s*\.collect\(\)/ => canon_paths(&src_link.materials)
//@subst D32 /src_link\s*\.products\s*\.iter\(\)\s*\.filter_map\(\|\(path, _\)\| canonicalize_path\(path\)\)\s*\.collect\(\)/ => canon_paths(&src_link.products)
//@subst D33 /material_paths\s*\.intersection\(&product_paths\)\s*\.cloned\(\)\s*\.filter_map\(\|name\| (\{.*?\n        \})\)\s*\.collect\(\)/ => btreeset_intersection_filter_map(&material_paths, &product_paths, |name: VirtualTargetPath| -> (o: Option<VirtualTargetPath>) ensures o == (if entry_differs(*src_link, name) { Some(name) } else { None::<VirtualTargetPath> }) \1)
//@subst D31 /queue\s*\.iter\(\)\s*\.filter\(\|p\| (p\.matches\(rule\.pattern\(\)\.value\(\)\)\.unwrap_or\(false\))\)\s*\.cloned\(\)\s*\.collect\(\)/ => btreeset_filter_cloned(&queue, |p: &&VirtualTargetPath| -> (keep: bool) ensures keep == matches_pat(rule_pattern(*rule), **p) { \1 })
//@subst D30 /(\w+)\s*\.(intersection|difference)\(&(\w+)\)\s*\.cloned\(\)\s*\.collect\(\)/ => btreeset_\2_cloned(&\1, &\3) count=6
//@contract ret=r
//@include contracts/apply_rules_on_link.rs
//@before /let item_name = item\.name\(\);/
    proof { fact_string_ext(); fact_vtp_ext(); fact_target_description_eq(); }
    let ghost links = reduced_link_files@;
    let ghost mats = item_mats(item);
    let ghost prods = item_prods(item);
//@before /materials of this link/
    let ghost l = *src_link;
    let ghost qm = canon_set(l.materials@);
    let ghost qp = canon_set(l.products@);
    let ghost cm = pass_ctx(l, l.materials@, links);
    let ghost cp = pass_ctx(l, l.products@, links);
    assert(exists|key: String| key@ == item_name@ && links.contains_key(key) && links[key] == l);
//@before /let list = \[/
    assert forall|y: VirtualTargetPath| modified@.contains(y) <==> (qm.contains(y) && qp.contains(y) && entry_differs(l, y)) by {
        if qm.contains(y) && qp.contains(y) && entry_differs(l, y) {
            assert(material_paths@.contains(y) && product_paths@.contains(y));
        }
    }
    assert(modified@ =~= qm.intersect(qp).filter(|x: VirtualTargetPath| entry_differs(l, x)));
    assert(created@ == cm.created && deleted@ == cm.deleted && modified@ == cm.modified);
//@before /for verification_data in list/
    let ghost vd0 = list@[0];
    let ghost vd1 = list@[1];
//@loop 1 iter=it1
        invariant
            forall|a: String, b: String| #![trigger a@, b@] a@ == b@ ==> a == b,
            forall|a: VirtualTargetPath, b: VirtualTargetPath| #![trigger a.text(), b.text()] a.text() == b.text() ==> a == b,
            vstd::std_specs::btree::key_obeys_cmp_spec::<VirtualTargetPath>(),
            it1.seq().len() == 2 && it1.seq()[0] == vd0 && it1.seq()[1] == vd1,
            vd0.rules@ == mats && vd0.artifacts@ == l.materials@ && vd0.artifact_paths@ == qm,
            vd1.rules@ == prods && vd1.artifacts@ == l.products@ && vd1.artifact_paths@ == qp,
            created@ == cm.created && deleted@ == cm.deleted && modified@ == cm.modified,
            cm == pass_ctx(l, l.materials@, links) && cp == pass_ctx(l, l.products@, links),
            qm == canon_set(l.materials@) && qp == canon_set(l.products@),
            links == reduced_link_files@,
            exists|key: String| key@ == item_name@ && links.contains_key(key) && links[key] == l,
            item_name@ == crate::item_name(item) && mats == item_mats(item) && prods == item_prods(item),
            it1.index() >= 1 ==> rules_upto(mats, mats.len() as int, qm, cm) is Some,
            it1.index() >= 2 ==> rules_upto(prods, prods.len() as int, qp, cp) is Some,
//@after /let artifacts = verification_data\.artifacts;/
        let ghost rs = rules@;
        let ghost q0 = queue@;
        let ghost c = if it1.index() == 0 { cm } else { cp };
        assert(it1.index() == 0 ==> rs == mats && q0 == qm && artifacts@ == l.materials@);
        assert(it1.index() == 1 ==> rs == prods && q0 == qp && artifacts@ == l.products@);
//@loop 2 iter=it2
            invariant
                forall|a: String, b: String| #![trigger a@, b@] a@ == b@ ==> a == b,
                forall|a: VirtualTargetPath, b: VirtualTargetPath| #![trigger a.text(), b.text()] a.text() == b.text() ==> a == b,
                vstd::std_specs::btree::key_obeys_cmp_spec::<VirtualTargetPath>(),
                it2.seq().len() == rs.len(),
                forall|i: int| 0 <= i < rs.len() ==> *(#[trigger] it2.seq()[i]) == rs[i],
                created@ == c.created && deleted@ == c.deleted && modified@ == c.modified,
                artifacts@ == c.artifacts && reduced_link_files@ == c.links,
                rules_upto(rs, it2.index() as int, q0, c) == Some(queue@),
                it1.index() == 0 || it1.index() == 1,
                it1.index() == 0 ==> rs == mats && q0 == qm && c == cm,
                it1.index() == 1 ==> rs == prods && q0 == qp && c == cp && rules_upto(mats, mats.len() as int, qm, cm) is Some,
                queue@.subset_of(q0) && q0 == canon_set(artifacts@),
                exists|key: String| key@ == item_name@ && links.contains_key(key) && links[key] == l,
                item_name@ == crate::item_name(item) && mats == item_mats(item) && prods == item_prods(item),
                cm == pass_ctx(l, l.materials@, links) && cp == pass_ctx(l, l.products@, links),
                qm == canon_set(l.materials@) && qp == canon_set(l.products@),
                links == reduced_link_files@,
//@loop 3 iter=it3
                        invariant
                            vstd::std_specs::btree::key_obeys_cmp_spec::<VirtualTargetPath>(),
                            *pattern == rule_pattern(*rule),
                            rule is Disallow && *rule == rs[it2.index() as int] && 0 <= it2.index() < rs.len(),
                            rules_upto(rs, it2.index() as int, q0, c) == Some(queue@),
                            it1.index() == 0 || it1.index() == 1,
                            it1.index() == 0 ==> rs == mats && q0 == qm && c == cm,
                            it1.index() == 1 ==> rs == prods && q0 == qp && c == cp,
                            forall|a: String, b: String| #![trigger a@, b@] a@ == b@ ==> a == b,
                            exists|key: String| key@ == item_name@ && links.contains_key(key) && links[key] == l,
                            item_name@ == crate::item_name(item) && mats == item_mats(item) && prods == item_prods(item),
                            cm == pass_ctx(l, l.materials@, links) && cp == pass_ctx(l, l.products@, links),
                            qm == canon_set(l.materials@) && qp == canon_set(l.products@),
                            links == reduced_link_files@,
                            forall|q: VirtualTargetPath| queue@.contains(q) ==> exists|j: int| 0 <= j < it3.seq().len() && *(#[trigger] it3.seq()[j]) == q,
                            forall|j: int| 0 <= j < it3.index() ==> glob_ok(pattern.text(), (#[trigger] it3.seq()[j]).text()) is Some,
//@before /return Err\(Error::ArtifactRuleError\(format!\(/ nth=1
                    proof {
                        let idx = it2.index() as int;
                        assert(rule_step(rs[idx], queue@, c) is None);
                        assert(rules_upto(rs, idx + 1, q0, c) is None);
                        lemma_rules_none(rs, idx + 1, rs.len() as int, q0, c);
                        assert(it1.index() == 0 ==> rules_upto(mats, mats.len() as int, qm, cm) is None);
                        assert(it1.index() == 1 ==> rules_upto(prods, prods.len() as int, qp, cp) is None);
                    }
//@before /return Err\(Error::ArtifactRuleError\(format!\(/ nth=2
                    proof {
                        let idx = it2.index() as int;
                        assert(filtered@ =~= filtered_by(*rule, queue@));
                        assert(filtered_by(*rule, queue@).len() > 0);
                        assert(rule_step(rs[idx], queue@, c) is None);
                        assert(rules_upto(rs, idx + 1, q0, c) is None);
                        lemma_rules_none(rs, idx + 1, rs.len() as int, q0, c);
                        assert(it1.index() == 0 ==> rules_upto(mats, mats.len() as int, qm, cm) is None);
                        assert(it1.index() == 1 ==> rules_upto(prods, prods.len() as int, qp, cp) is None);
                    }
//@before /path\.matches\(pattern\.value\(\)\)\?;/
                        proof {
                            if glob_ok(pattern.text(), path.text()) is None {
                                let idx = it2.index() as int;
                                assert(queue@.contains(*path));
                                assert(rule_step(rs[idx], queue@, c) is None);
                                assert(rules_upto(rs, idx, q0, c) == Some(queue@));
                                assert(rules_upto(rs, idx + 1, q0, c) == rule_step(rs[idx], queue@, c));
                                assert(rules_upto(rs, idx + 1, q0, c) is None);
                                lemma_rules_none(rs, idx + 1, rs.len() as int, q0, c);
                                assert(it1.index() == 0 ==> rules_upto(mats, mats.len() as int, qm, cm) is None);
                                assert(it1.index() == 1 ==> rules_upto(prods, prods.len() as int, qp, cp) is None);
                            }
                        }
//@before /let consumed = match rule \{/
            let ghost qold = queue@;
            proof { fact_rekeyed(artifacts@); }
            assert(*rule == rs[it2.index() as int]);
            assert(filtered@ =~= filtered_by(*rule, qold));
//@before /queue = btreeset_difference_cloned\(&queue, &consumed\);/
            assert(rule is Create ==> consumed@ =~= filtered_by(*rule, qold).intersect(c.created));
            assert(rule is Delete ==> consumed@ =~= filtered_by(*rule, qold).intersect(c.deleted));
            assert(rule is Modify ==> consumed@ =~= filtered_by(*rule, qold).intersect(c.modified));
            assert(rule is Allow ==> consumed@ =~= filtered_by(*rule, qold));
            assert(rule is Require ==> consumed@ =~= Set::<VirtualTargetPath>::empty() && qold.contains(rule_pattern(*rule)));
            assert(rule is Disallow ==> consumed@ =~= Set::<VirtualTargetPath>::empty() && filtered_by(*rule, qold).len() == 0);
            assert(rule is Disallow ==> !(exists|q: VirtualTargetPath| qold.contains(q) && glob_ok(rule_pattern(*rule).text(), q.text()) is None));
            assert(rule is Match ==> consumed@ == match_consumed(*rule, c.artifacts, qold, c.links));
//@after /queue = btreeset_difference_cloned\(&queue, &consumed\);/
            assert(rule is Require || rule is Disallow ==> queue@ =~= qold);
            assert(rule_step(*rule, qold, c) == Some(queue@));
//@end
} // verus!
fn main() {}
