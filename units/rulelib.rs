//@props C03
//@include prelude/head.rs
use std::path::PathBuf;
verus! {
//@include prelude/axioms.rs
//@include prelude/std_string.rs
//@include prelude/utf8_facts.rs
//@include prelude/error.rs
//@include prelude/std_collect.rs
//@include prelude/ring_stub.rs
//@include prelude/chrono_stub.rs
//@include prelude/crypto_types.rs

// ---- types: VirtualTargetPath, rules, links (real definitions) ----
pub type TargetDescription = HashMap<HashAlgorithm, HashValue>;
//@take src/crypto.rs enum:HashAlgorithm drop_derives=Debug,Clone,PartialOrd,Ord
//@take src/crypto.rs struct:HashValue drop_derives=Clone
//@take src/models/helpers.rs struct:VirtualTargetPath drop_derives=Debug,Clone
impl Clone for VirtualTargetPath { #[verifier::external_body] fn clone(&self) -> (r: Self) ensures r == *self { unimplemented!() } }
impl std::fmt::Debug for VirtualTargetPath { #[verifier::external_body] fn fmt(&self, f: &mut std::fmt::Formatter) -> std::fmt::Result { unimplemented!() } }
//@take src/models/layout/rule.rs enum:Artifact drop_derives=Clone,PartialEq,Eq
//@take src/models/layout/rule.rs enum:ArtifactRule drop_derives=Clone,PartialEq,Eq
impl ArtifactRule {
//@extract src/models/layout/rule.rs impl:ArtifactRule/fn:pattern props=C03
//@contract ret=r
    ensures *r == rule_pattern(*self),
//@end
}
pub open spec fn rule_pattern(r: ArtifactRule) -> VirtualTargetPath {
    match r {
        ArtifactRule::Create(p) => p, ArtifactRule::Delete(p) => p, ArtifactRule::Modify(p) => p, ArtifactRule::Allow(p) => p,
        ArtifactRule::Require(p) => p, ArtifactRule::Disallow(p) => p, ArtifactRule::Match { pattern, .. } => pattern,
    }
}
#[verifier::external_body] pub struct ByProducts { _opaque: u8 }
#[verifier::external_body] pub struct Command { _opaque: u8 }
//@take src/models/link/metadata.rs struct:LinkMetadata drop_derives=Debug,Clone,PartialEq,Eq
pub type ArtifactMap = BTreeMap<VirtualTargetPath, TargetDescription>;
//@take src/models/layout/supply_chain_item.rs trait:SupplyChainItem
//@include prelude/rulelib_stubs.rs

// ---- the specification's rule algorithm (written from the in-toto spec 4.4 / property C03) ----
pub open spec fn matches_pat(pat: VirtualTargetPath, p: VirtualTargetPath) -> bool { glob_ok(pat.text(), p.text()) == Some(true) }
pub open spec fn filtered_by(rule: ArtifactRule, queue: Set<VirtualTargetPath>) -> Set<VirtualTargetPath> {
    queue.filter(|p: VirtualTargetPath| matches_pat(rule_pattern(rule), p))
}
// what a MATCH rule consumes (meaning: verify_match_rule, see below)
pub uninterp spec fn match_consumed(rule: ArtifactRule, artifacts: Map<VirtualTargetPath, TargetDescription>, queue: Set<VirtualTargetPath>, links: Map<String, LinkMetadata>) -> Set<VirtualTargetPath>;
pub struct RuleCtx {
    pub created: Set<VirtualTargetPath>, pub deleted: Set<VirtualTargetPath>, pub modified: Set<VirtualTargetPath>,
    pub artifacts: Map<VirtualTargetPath, TargetDescription>, pub links: Map<String, LinkMetadata>,
}
// one rule applied to the queue: None = verification fails, Some(q) = the shrunken queue
pub open spec fn rule_step(rule: ArtifactRule, queue: Set<VirtualTargetPath>, c: RuleCtx) -> Option<Set<VirtualTargetPath>> {
    let filtered = filtered_by(rule, queue);
    match rule {
        ArtifactRule::Create(_) => Some(queue.difference(filtered.intersect(c.created))),
        ArtifactRule::Delete(_) => Some(queue.difference(filtered.intersect(c.deleted))),
        ArtifactRule::Modify(_) => Some(queue.difference(filtered.intersect(c.modified))),
        ArtifactRule::Allow(_) => Some(queue.difference(filtered)),
        ArtifactRule::Require(p) => if queue.contains(p) { Some(queue) } else { None },
        ArtifactRule::Disallow(p) =>
            if (exists|q: VirtualTargetPath| queue.contains(q) && glob_ok(p.text(), q.text()) is None) || filtered.len() > 0 { None } else { Some(queue) },
        ArtifactRule::Match { .. } => Some(queue.difference(match_consumed(rule, c.artifacts, queue, c.links))),
    }
}
// the first n rules applied in order
pub open spec fn rules_upto(rules: Seq<ArtifactRule>, n: int, queue0: Set<VirtualTargetPath>, c: RuleCtx) -> Option<Set<VirtualTargetPath>>
    decreases n
{
    if n <= 0 { Some(queue0) } else {
        match rules_upto(rules, n - 1, queue0, c) { None => None, Some(q) => rule_step(rules[n - 1], q, c) }
    }
}

// ---- apply_rules_on_link ----
pub uninterp spec fn canon_of(p: VirtualTargetPath) -> Option<VirtualTargetPath>;
//@extract src/rulelib.rs fn:canonicalize_path stub
//@contract ret=r
    ensures r == canon_of(*path),    // assumed: path_clean::clean is a function of the text
//@end
// D32: `M.iter().filter_map(|(path, _)| canonicalize_path(path)).collect::<BTreeSet<_>>()`
#[verifier::external_body]
fn canon_paths(m: &ArtifactMap) -> (r: BTreeSet<VirtualTargetPath>)
    ensures forall|x: VirtualTargetPath| #[trigger] r@.contains(x) <==> exists|k: VirtualTargetPath| m@.contains_key(k) && canon_of(k) == Some(x)
{ unimplemented!() }
// D33: `A.intersection(&B).cloned().filter_map(F).collect()`
#[verifier::external_body]
fn btreeset_intersection_filter_map<F: FnMut(VirtualTargetPath) -> Option<VirtualTargetPath>>(a: &BTreeSet<VirtualTargetPath>, b: &BTreeSet<VirtualTargetPath>, f: F) -> (r: BTreeSet<VirtualTargetPath>)
    requires forall|x: VirtualTargetPath| #[trigger] f.requires((x,)),
    ensures forall|y: VirtualTargetPath| #[trigger] r@.contains(y) <==> exists|x: VirtualTargetPath| a@.contains(x) && b@.contains(x) && f.ensures((x,), Some(y)),
{ unimplemented!() }
// a path whose recorded material and product entries differ (raw maps, looked up by the cleaned path)
pub open spec fn entry_differs(l: LinkMetadata, name: VirtualTargetPath) -> bool {
    (if l.materials@.contains_key(name) { Some(l.materials@[name]) } else { None::<TargetDescription> })
    != (if l.products@.contains_key(name) { Some(l.products@[name]) } else { None::<TargetDescription> })
}
pub open spec fn canon_set(m: Map<VirtualTargetPath, TargetDescription>) -> Set<VirtualTargetPath> {
    m.dom().filter(|k: VirtualTargetPath| canon_of(k) is Some).map(|k: VirtualTargetPath| canon_of(k)->0)
}
// the context of one pass (materials or products) of an item
pub open spec fn pass_ctx(l: LinkMetadata, artifacts: Map<VirtualTargetPath, TargetDescription>, links: Map<String, LinkMetadata>) -> RuleCtx {
    let m = canon_set(l.materials@);
    let p = canon_set(l.products@);
    RuleCtx { created: p.difference(m), deleted: m.difference(p), modified: m.intersect(p).filter(|x: VirtualTargetPath| entry_differs(l, x)), artifacts, links }
}
// C03: the verdict for one item = both passes of the specification's algorithm succeed
pub open spec fn item_verdict(name: Seq<char>, mats: Seq<ArtifactRule>, prods: Seq<ArtifactRule>, links: Map<String, LinkMetadata>) -> bool {
    exists|key: String| key@ == name && links.contains_key(key) && {
        let l = links[key];
        rules_upto(mats, mats.len() as int, canon_set(l.materials@), pass_ctx(l, l.materials@, links)) is Some
        && rules_upto(prods, prods.len() as int, canon_set(l.products@), pass_ctx(l, l.products@, links)) is Some
    }
}
//@extract src/rulelib.rs fn:verify_match_rule stub
//@contract ret=r
    requires rule is Match,
    ensures r@ == match_consumed(*rule, src_artifacts@, src_artifact_queue@, items_metadata@),
//@end
// the SupplyChainItem accessors as ghost views (trait objects)
pub uninterp spec fn item_name(i: &Box<dyn SupplyChainItem>) -> Seq<char>;
pub uninterp spec fn item_mats(i: &Box<dyn SupplyChainItem>) -> Seq<ArtifactRule>;
pub uninterp spec fn item_prods(i: &Box<dyn SupplyChainItem>) -> Seq<ArtifactRule>;

//@extract src/rulelib.rs fn:apply_rules_on_link props=C03,C14
//@subst D32 /src_link\s*\.materials\s*\.iter\(\)\s*\.filter_map\(\|\(path, _\)\| canonicalize_path\(path\)\)\s*\.collect\(\)/ => canon_paths(&src_link.materials)
//@subst D32 /src_link\s*\.products\s*\.iter\(\)\s*\.filter_map\(\|\(path, _\)\| canonicalize_path\(path\)\)\s*\.collect\(\)/ => canon_paths(&src_link.products)
//@subst D33 /material_paths\s*\.intersection\(&product_paths\)\s*\.cloned\(\)\s*\.filter_map\(\|name\| (\{.*?\n        \})\)\s*\.collect\(\)/ => btreeset_intersection_filter_map(&material_paths, &product_paths, |name: VirtualTargetPath| -> (o: Option<VirtualTargetPath>) ensures o == (if entry_differs(*src_link, name) { Some(name) } else { None::<VirtualTargetPath> }) \1)
//@subst D31 /queue\s*\.iter\(\)\s*\.filter\(\|p\| (p\.matches\(rule\.pattern\(\)\.value\(\)\)\.unwrap_or\(false\))\)\s*\.cloned\(\)\s*\.collect\(\)/ => btreeset_filter_cloned(&queue, |p: &&VirtualTargetPath| -> (keep: bool) ensures keep == matches_pat(rule_pattern(*rule), **p) { \1 })
//@subst D30 /(\w+)\s*\.(intersection|difference)\(&(\w+)\)\s*\.cloned\(\)\s*\.collect\(\)/ => btreeset_\2_cloned(&\1, &\3) count=6
//@contract ret=r
    ensures r is Ok <==> item_verdict(item_name(item), item_mats(item), item_prods(item), reduced_link_files@),   // [C03]
//@end
} // verus!
fn main() {}
