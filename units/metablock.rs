//@props C04
//@include prelude/head.rs
verus! {
//@include prelude/axioms.rs
//@include prelude/std_string.rs
//@include prelude/utf8_facts.rs
//@include prelude/error.rs
//@include prelude/std_collect.rs
//@include prelude/ring_stub.rs
//@include prelude/crypto_types.rs

pub open spec fn alg_of(s: SignatureScheme) -> int {
    match s {
        SignatureScheme::Ed25519 => 1,
        SignatureScheme::RsaSsaPssSha256 => 2,
        SignatureScheme::RsaSsaPssSha512 => 3,
        SignatureScheme::EcdsaP256Sha256 => 4,
        SignatureScheme::Unknown(_) => 0,
    }
}
impl PublicKey {
    pub closed spec fn sig_ok(self, msg: Seq<u8>, sig: Signature) -> bool {
        !(self.scheme is Unknown) && ring::signature::sig_valid(alg_of(self.scheme), self.value.0@, msg, sig.value.0@)
    }
    pub closed spec fn kid(self) -> KeyId { self.key_id }
//@extract src/crypto.rs impl:PublicKey/fn:key_id
//@contract ret=r
    ensures *r == self.kid(),
//@end
//@extract src/crypto.rs impl:PublicKey/fn:verify props=C04,C14
//@contract ret=r
    ensures r is Ok <==> self.sig_ok(msg@, *sig),   // [C04]
//@end
}

// ---- Metablock::verify (C04) ----
// The metadata payload is abstract in this unit: only its canonical bytes matter.
#[verifier::external_body]
pub struct MetadataWrapper { _opaque: u8 }
impl Clone for MetadataWrapper {
    #[verifier::external_body]
    fn clone(&self) -> (r: Self) ensures r == *self { unimplemented!() }
}
// assumed: Json::canonicalize(Json::serialize(m)) is a deterministic partial function of m
pub uninterp spec fn canon_bytes(m: MetadataWrapper) -> Option<Seq<u8>>;
impl MetadataWrapper {
    #[verifier::external_body]
    pub fn to_bytes(&self) -> (r: Result<Vec<u8>>)
        ensures match canon_bytes(*self) { Some(b) => r is Ok && r->Ok_0@ == b, None => r is Err }
    { unimplemented!() }
}
// the byte string that is signed and verified for a metadata value
pub open spec fn signed_msg(m: MetadataWrapper) -> Option<Seq<u8>> {
    match canon_bytes(m) {
        Some(b) => if vstd::utf8::valid_utf8(b) {
            Some(vstd::utf8::encode_utf8(str_replace(vstd::utf8::decode_utf8(b), "\\n"@, "\n"@)))
        } else { None },
        None => None,
    }
}
//@take src/models/metadata.rs struct:Metablock drop_derives=Debug,Clone,PartialEq,Eq

// id `id` is counted: an authorized key with that id has a valid signature, attributed to that id, over the signed bytes
pub open spec fn counted_ok(mb: Metablock, keys: Seq<&PublicKey>, id: KeyId) -> bool {
    signed_msg(mb.metadata) is Some &&
    exists|i: int, j: int| 0 <= i < keys.len() && 0 <= j < mb.signatures@.len()
        && (#[trigger] keys[i]).kid() == id && (#[trigger] mb.signatures@[j]).kid() == id
        && keys[i].sig_ok(signed_msg(mb.metadata)->0, mb.signatures@[j])
}

impl Metablock {
//@extract src/models/metadata.rs impl:Metablock/fn:verify props=C04,C14 as=Metablock::verify<Vec>
//@subst D7 /pub fn verify<'a, I>\(/ => pub fn verify<'a>(
//@subst D7 /authorized_keys: I,/ => authorized_keys: Vec<&'a PublicKey>,
//@subst D7 /where\s+I: IntoIterator<Item = &'a PublicKey>,/ => 
//@include contracts/metablock_verify_body.rs KEYS=authorized_keys@
//@end
//@extract src/models/metadata.rs impl:Metablock/fn:verify props=C04,C14 as=Metablock::verify<Values>
//@subst D7 /pub fn verify<'a, I>\(/ => pub fn verify_values<'a>(
//@subst D7 /authorized_keys: I,/ => authorized_keys: std::collections::hash_map::Values<'a, KeyId, PublicKey>,
//@subst D7 /where\s+I: IntoIterator<Item = &'a PublicKey>,/ => 
//@include contracts/metablock_verify_body.rs KEYS=vstd::std_specs::iter::IteratorSpec::remaining(&authorized_keys)
//@end
}
} // verus!
fn main() {}
