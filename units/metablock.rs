//@props C04
//@include prelude/head.rs
verus! {
//@include prelude/axioms.rs
//@include prelude/std_string.rs
//@include prelude/utf8_facts.rs
//@include prelude/error.rs
//@include prelude/std_collect.rs
//@include prelude/ring_stub.rs
//@include prelude/crypto_types.rs

pub open spec fn alg_of(s: SignatureScheme) -> int {
    match s {
        SignatureScheme::Ed25519 => 1,
        SignatureScheme::RsaSsaPssSha256 => 2,
        SignatureScheme::RsaSsaPssSha512 => 3,
        SignatureScheme::EcdsaP256Sha256 => 4,
        SignatureScheme::Unknown(_) => 0,
    }
}
impl PublicKey {
    pub closed spec fn sig_ok(self, msg: Seq<u8>, sig: Signature) -> bool {
        !(self.scheme is Unknown) && ring::signature::sig_valid(alg_of(self.scheme), self.value.0@, msg, sig.value.0@)
    }
    pub closed spec fn kid(self) -> KeyId { self.key_id }
//@extract src/crypto.rs impl:PublicKey/fn:key_id
//@contract ret=r
    ensures *r == self.kid(),
//@end
//@extract src/crypto.rs impl:PublicKey/fn:verify props=C04,C14
//@contract ret=r
    ensures r is Ok <==> self.sig_ok(msg@, *sig),   // [C04]
//@end
}

// ---- Metablock::verify (C04) ----
// The metadata payload is abstract in this unit: only its canonical bytes matter.
#[verifier::external_body]
pub struct MetadataWrapper { _opaque: u8 }
impl Clone for MetadataWrapper {
    #[verifier::external_body]
    fn clone(&self) -> (r: Self) ensures r == *self { unimplemented!() }
}
// assumed: Json::canonicalize(Json::serialize(m)) is a deterministic partial function of m
pub uninterp spec fn canon_bytes(m: MetadataWrapper) -> Option<Seq<u8>>;
impl MetadataWrapper {
    #[verifier::external_body]
    pub fn to_bytes(&self) -> (r: Result<Vec<u8>>)
        ensures match canon_bytes(*self) { Some(b) => r is Ok && r->Ok_0@ == b, None => r is Err }
    { unimplemented!() }
}
// the byte string that is signed and verified for a metadata value
pub open spec fn signed_msg(m: MetadataWrapper) -> Option<Seq<u8>> {
    match canon_bytes(m) {
        Some(b) => if vstd::utf8::valid_utf8(b) {
            Some(vstd::utf8::encode_utf8(str_replace(vstd::utf8::decode_utf8(b), "\\n"@, "\n"@)))
        } else { None },
        None => None,
    }
}
//@take src/models/metadata.rs struct:Metablock drop_derives=Debug,Clone,PartialEq,Eq

// id `id` is counted: an authorized key with that id has a valid signature, attributed to that id, over the signed bytes
pub open spec fn counted_ok(mb: Metablock, keys: Seq<&PublicKey>, id: KeyId) -> bool {
    signed_msg(mb.metadata) is Some &&
    exists|i: int, j: int| 0 <= i < keys.len() && 0 <= j < mb.signatures@.len()
        && (#[trigger] keys[i]).kid() == id && (#[trigger] mb.signatures@[j]).kid() == id
        && keys[i].sig_ok(signed_msg(mb.metadata)->0, mb.signatures@[j])
}

impl Metablock {
//@extract src/models/metadata.rs impl:Metablock/fn:verify props=C04,C14 as=Metablock::verify<Vec>
//@subst D7 /pub fn verify<'a, I>\(/ => pub fn verify<'a>(
//@subst D7 /authorized_keys: I,/ => authorized_keys: Vec<&'a PublicKey>,
//@subst D7 /where\s+I: IntoIterator<Item = &'a PublicKey>,/ => 
//@subst G1 /\.map\(\|k\| (\(k\.key_id\(\), k\))\)/ => .map(|k: &'a PublicKey| -> (r: (&'a KeyId, &'a PublicKey)) ensures *r.0 == k.kid(), r.1 == k { \1 })
//@subst G1 /\.map\(\|sig\| (\(sig\.key_id\(\), sig\))\)/ => .map(|sig: &Signature| -> (r: (&KeyId, &Signature)) ensures *r.0 == sig.kid(), r.1 == sig { \1 })
//@contract ret=r
    ensures
        r is Ok ==> threshold >= 1,                              // [C04]
        r is Ok ==> self.signatures@.len() >= 1,                 // [C04]
        r is Ok ==> r->Ok_0 == self.metadata,                    // [C04]
        r is Ok ==> exists|good: Set<KeyId>| good.len() >= threshold
            && forall|id: KeyId| good.contains(id) ==> counted_ok(*self, authorized_keys@, id),   // [C04]
//@before /if self\.signatures\.is_empty\(\)/
        let ghost keys0 = authorized_keys@;
        proof { fact_keyid_key_model(); }
//@before /let raw = self\.metadata\.to_bytes\(\)\?;/
        let ghost authmap = authorized_keys@;
        assert(forall|id: &KeyId| #[trigger] authmap.contains_key(id) ==> exists|i: int| 0 <= i < keys0.len() && (#[trigger] keys0[i]).kid() == *id && authmap[id] == keys0[i]);
//@after /let raw = self\.metadata\.to_bytes\(\)\?;/
        let ghost raw0 = raw@;
//@after /\.replace\("\\\\n", "\\n"\);/
        proof { fact_replace_str_pattern(vstd::utf8::decode_utf8(raw0), "\\n", "\n"@); }
        assert(signed_msg(self.metadata) == Some(vstd::utf8::encode_utf8(metadata@)));
//@before /check the signatures, if is signed by an authorized key/
        let ghost sigmap = signatures@;
        assert(forall|id: &KeyId| #[trigger] sigmap.contains_key(id) ==> exists|j: int| 0 <= j < self.signatures@.len() && (#[trigger] self.signatures@[j]).kid() == *id && *sigmap[id] == self.signatures@[j]);
        let ghost mut counted: Set<KeyId> = Set::empty();
//@loop 1 iter=it
            invariant_except_break
                signatures_needed >= 1,
            invariant
                threshold >= 1,
                signatures_needed <= threshold,
                signed_msg(self.metadata) == Some(vstd::utf8::encode_utf8(metadata@)),
                forall|i: int, j: int| 0 <= i < j < it.seq().len() ==> (#[trigger] it.seq()[i]).0 != (#[trigger] it.seq()[j]).0,
                forall|i: int| 0 <= i < it.seq().len() ==> sigmap.contains_key((#[trigger] it.seq()[i]).0) && sigmap[it.seq()[i].0] == it.seq()[i].1,
                forall|k: KeyId| counted.contains(k) ==> exists|i: int| 0 <= i < it.index() && *(#[trigger] it.seq()[i]).0 == k,
                counted.len() == threshold - signatures_needed,
                forall|k: KeyId| counted.contains(k) ==> counted_ok(*self, keys0, k),
                forall|id: &KeyId| #[trigger] sigmap.contains_key(id) ==> exists|j: int| 0 <= j < self.signatures@.len() && (#[trigger] self.signatures@[j]).kid() == *id && *sigmap[id] == self.signatures@[j],
                forall|id: &KeyId| #[trigger] authmap.contains_key(id) ==> exists|i: int| 0 <= i < keys0.len() && (#[trigger] keys0[i]).kid() == *id && authmap[id] == keys0[i],
                authmap == authorized_keys@,
                vstd::std_specs::hash::obeys_key_model::<&KeyId>(),
//@before /signatures_needed -= 1;/
                        proof {
                            assert(sigmap.contains_key(key_id) && sigmap[key_id] == sig);
                            assert(authmap.contains_key(key_id) && authmap[key_id] == *pub_key);
                            let i0 = choose|i: int| 0 <= i < keys0.len() && (#[trigger] keys0[i]).kid() == *key_id && authmap[key_id] == keys0[i];
                            let j0 = choose|j: int| 0 <= j < self.signatures@.len() && (#[trigger] self.signatures@[j]).kid() == *key_id && *sigmap[key_id] == self.signatures@[j];
                            assert(keys0[i0] == *pub_key);
                            assert(self.signatures@[j0] == *sig);
                            assert(pub_key.sig_ok(vstd::utf8::encode_utf8(metadata@), *sig));
                            assert(keys0[i0].sig_ok(signed_msg(self.metadata)->0, self.signatures@[j0]));
                            assert(counted_ok(*self, keys0, *key_id));
                            assert(!counted.contains(*key_id));
                            counted = counted.insert(*key_id);
                        }
//@end
}
} // verus!
fn main() {}
