//@props C04
//@include prelude/head.rs
verus! {
//@include prelude/axioms.rs
//@include prelude/std_string.rs
//@include prelude/utf8_facts.rs
//@include prelude/error.rs
//@include prelude/std_collect.rs
//@include prelude/ring_stub.rs
//@include prelude/crypto_types.rs

impl PublicKey {
//@extract src/crypto.rs impl:PublicKey/fn:key_id
//@contract ret=r
    ensures *r == self.kid(),
//@end
//@extract src/crypto.rs impl:PublicKey/fn:verify props=C04,C14
//@contract ret=r
    ensures r is Ok <==> self.sig_ok(msg@, *sig),   // [C04]
//@end
}

// ---- Metablock::verify (C04) ----
// The metadata payload is abstract in this unit: only its canonical bytes matter.
#[verifier::external_body]
pub struct MetadataWrapper { _opaque: u8 }
impl Clone for MetadataWrapper {
    #[verifier::external_body]
    fn clone(&self) -> (r: Self) ensures r == *self { unimplemented!() }
}
//@take src/models/metadata.rs struct:Metablock drop_derives=Debug,Clone,PartialEq,Eq

//@include contracts/metablock_specs.rs
impl Metablock {
//@extract src/models/metadata.rs impl:Metablock/fn:verify props=C01,C02,C04,C05,C09,C11,C12,C13,C14 as=Metablock::verify
//@subst D7 /pub fn verify<'a, I>\(/ => pub fn verify<'a>(
//@subst D7 /authorized_keys: I,/ => authorized_keys: Vec<&'a PublicKey>,
//@subst D7 /where\s+I: IntoIterator<Item = &'a PublicKey>,/ => 
//@include contracts/metablock_verify_body.rs KEYS=authorized_keys@
//@end
//@extract src/models/metadata.rs impl:Metablock/fn:verify props=C01,C02,C04,C05,C09,C11,C12,C13,C14 as=Metablock::verify_values
//@subst D7 /pub fn verify<'a, I>\(/ => pub fn verify_values<'a>(
//@subst D7 /authorized_keys: I,/ => authorized_keys: std::collections::hash_map::Values<'a, KeyId, PublicKey>,
//@subst D7 /where\s+I: IntoIterator<Item = &'a PublicKey>,/ => 
//@include contracts/metablock_verify_body.rs KEYS=vstd::std_specs::iter::IteratorSpec::remaining(&authorized_keys)
//@end
}
} // verus!
fn main() {}
