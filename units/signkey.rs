//@props C09
//@include prelude/head.rs
use std::sync::Arc;
verus! {
//@include prelude/axioms.rs
//@include prelude/std_string.rs
//@include prelude/utf8_facts.rs
//@include prelude/error.rs
//@include prelude/std_collect.rs
//@include prelude/ring_stub.rs
//@include prelude/crypto_types.rs
pub assume_specification<T: Clone> [<[T]>::to_vec] (s: &[T]) -> (r: Vec<T>)
    ensures r@ == s@;

impl std::fmt::Debug for SignatureScheme { #[verifier::external_body] fn fmt(&self, f: &mut std::fmt::Formatter) -> std::fmt::Result { unimplemented!() } }
impl Clone for SignatureScheme { #[verifier::external_body] fn clone(&self) -> (r: Self) ensures r == *self { unimplemented!() } }
// assumed: the derived PartialEq of SignatureScheme is structural equality
impl vstd::std_specs::cmp::PartialEqSpecImpl for SignatureScheme {
    open spec fn obeys_eq_spec() -> bool { true }
    open spec fn eq_spec(&self, other: &Self) -> bool { *self == *other }
}
// ---- trusted stubs: ring key pairs.  A key pair has a public part; what it signs verifies under that public part with the
// matching verification algorithm (ring's sign/verify correctness - assumed, cryptographic strength is never used) ----
pub const ED25519_KEYPAIR_LENGTH: usize = 64;
pub const ED25519_PRIVATE_KEY_LENGTH: usize = 32;
pub struct Unspecified;
pub struct KeyRejected;
impl KeyRejected { #[verifier::external_body] pub fn to_string(&self) -> String { unimplemented!() } }
pub struct SystemRandom;
impl SystemRandom { #[verifier::external_body] pub fn new() -> SystemRandom { unimplemented!() } }
#[verifier::external_body] pub struct RingSig { _o: u8 }
pub uninterp spec fn ringsig_bytes(s: RingSig) -> Seq<u8>;
impl RingSig { #[verifier::external_body] pub fn as_ref(&self) -> (r: &[u8]) ensures r@ == ringsig_bytes(*self) { unimplemented!() } }
#[verifier::external_body] pub struct RingPub { _o: u8 }
pub uninterp spec fn ringpub_bytes(s: RingPub) -> Seq<u8>;
impl RingPub { #[verifier::external_body] pub fn as_ref(&self) -> (r: &[u8]) ensures r@ == ringpub_bytes(*self) { unimplemented!() } }

#[verifier::external_body] pub struct Ed25519KeyPair { _o: u8 }
pub uninterp spec fn ed_pub(k: Ed25519KeyPair) -> Seq<u8>;
impl Ed25519KeyPair {
    #[verifier::external_body] pub fn from_seed_and_public_key(seed: &[u8], public: &[u8]) -> (r: std::result::Result<Ed25519KeyPair, KeyRejected>)
        ensures r is Ok ==> ed_pub(r->Ok_0) == public@ { unimplemented!() }
    #[verifier::external_body] pub fn from_pkcs8(der: &[u8]) -> std::result::Result<Ed25519KeyPair, KeyRejected> { unimplemented!() }
    #[verifier::external_body] pub fn public_key(&self) -> (r: &RingPub) ensures ringpub_bytes(*r) == ed_pub(*self) { unimplemented!() }
    #[verifier::external_body] pub fn sign(&self, msg: &[u8]) -> (r: RingSig)
        ensures ring::signature::sig_valid(1, ed_pub(*self), msg@, ringsig_bytes(r)) { unimplemented!() }
}
pub struct RsaEncoding(pub u8);
pub exec static RSA_PSS_SHA256: RsaEncoding ensures RSA_PSS_SHA256.0 == 2 { RsaEncoding(2) }
pub exec static RSA_PSS_SHA512: RsaEncoding ensures RSA_PSS_SHA512.0 == 3 { RsaEncoding(3) }
#[verifier::external_body] pub struct RsaKeyPair { _o: u8 }
#[verifier::external_body] pub struct RsaPublic { _o: u8 }
// the PKCS#1 public key of an RSA key pair (what extract_rsa_pub_from_pkcs8 returns for the same PKCS#8 document)
pub uninterp spec fn rsa_pub(k: RsaKeyPair) -> Seq<u8>;
pub uninterp spec fn rsa_of_der(der: Seq<u8>) -> Option<RsaKeyPair>;
pub uninterp spec fn rsa_modlen(k: RsaKeyPair) -> usize;
impl RsaKeyPair {
    #[verifier::external_body] pub fn from_pkcs8(der: &[u8]) -> (r: std::result::Result<RsaKeyPair, KeyRejected>)
        ensures r is Ok ==> rsa_of_der(der@) == Some(r->Ok_0) { unimplemented!() }
    #[verifier::external_body] pub fn public(&self) -> (r: &RsaPublic) ensures rsapublic_len(*r) == rsa_modlen(*self) { unimplemented!() }
    #[verifier::external_body] pub fn sign(&self, enc: &RsaEncoding, rng: &SystemRandom, msg: &[u8], buf: &mut Vec<u8>) -> (r: std::result::Result<(), Unspecified>)
        ensures r is Ok ==> ring::signature::sig_valid(enc.0 as int, rsa_pub(*self), msg@, final(buf)@) { unimplemented!() }
}
pub uninterp spec fn rsapublic_len(p: RsaPublic) -> usize;
impl RsaPublic { #[verifier::external_body] pub fn modulus_len(&self) -> (r: usize) ensures r == rsapublic_len(*self) { unimplemented!() } }
pub struct EcdsaSigningAlgorithm(pub u8);
pub exec static ECDSA_P256_SHA256_ASN1_SIGNING: EcdsaSigningAlgorithm ensures ECDSA_P256_SHA256_ASN1_SIGNING.0 == 4 { EcdsaSigningAlgorithm(4) }
#[verifier::external_body] pub struct EcdsaKeyPair { _o: u8 }
pub uninterp spec fn ec_pub(k: EcdsaKeyPair) -> Seq<u8>;
impl EcdsaKeyPair {
    #[verifier::external_body] pub fn from_pkcs8(alg: &EcdsaSigningAlgorithm, der: &[u8], rng: &SystemRandom) -> std::result::Result<EcdsaKeyPair, KeyRejected> { unimplemented!() }
    #[verifier::external_body] pub fn public_key(&self) -> (r: &RingPub) ensures ringpub_bytes(*r) == ec_pub(*self) { unimplemented!() }
    #[verifier::external_body] pub fn sign(&self, rng: &SystemRandom, msg: &[u8]) -> (r: std::result::Result<RingSig, Unspecified>)
        ensures r is Ok ==> ring::signature::sig_valid(4, ec_pub(*self), msg@, ringsig_bytes(r->Ok_0)) { unimplemented!() }
}
pub mod derp { pub struct Error { _e: u8 } }
impl From<derp::Error> for Error { #[verifier::external_body] fn from(e: derp::Error) -> Error { unimplemented!() } }
// the PKCS#1 public key inside a PKCS#8 RSA document is the public key of the pair ring parses from it (assumed: derp / ring agree)
//@extract src/crypto.rs fn:extract_rsa_pub_from_pkcs8 stub
//@contract ret=r
    ensures r is Ok && rsa_of_der(der_key@) is Some ==> r->Ok_0@ == rsa_pub(rsa_of_der(der_key@)->0),
//@end
//@extract src/crypto.rs fn:python_sslib_compatibility_keyid_hash_algorithms stub
//@end
impl PublicKey {
//@extract src/crypto.rs impl:PublicKey/fn:key_id stub
//@contract ret=r
    ensures *r == self.kid(),
//@end
//@extract src/crypto.rs impl:PublicKey/fn:new stub
//@contract ret=r
//@include contracts/publickey_new.rs
//@end
}

//@take src/crypto.rs enum:PrivateKeyType
impl std::fmt::Debug for PrivateKeyType { #[verifier::external_body] fn fmt(&self, f: &mut std::fmt::Formatter) -> std::fmt::Result { unimplemented!() } }
//@take src/crypto.rs struct:PrivateKey
// C09: the public half stored in a PrivateKey is the public key of its private half
impl PrivateKey {
    // held as a type invariant: every PrivateKey value that exists satisfies it (checked where the struct is built)
    #[verifier::type_invariant]
    pub closed spec fn wf_private(self) -> bool {
        match self.private {
            PrivateKeyType::Ed25519(kp) => self.public.bytes_v() == ed_pub(kp),
            PrivateKeyType::Rsa(kp) => self.public.bytes_v() == rsa_pub(*kp),
            PrivateKeyType::Ecdsa(kp) => self.public.bytes_v() == ec_pub(kp),
        }
    }
    pub closed spec fn public_v(self) -> PublicKey { self.public }
    pub closed spec fn is_ed(self) -> bool { self.private is Ed25519 }
    pub closed spec fn is_rsa(self) -> bool { self.private is Rsa }
    pub closed spec fn is_ec(self) -> bool { self.private is Ecdsa }
    pub closed spec fn rsa_len(self) -> usize { rsa_modlen(*self.private->Rsa_0) }
    // the scheme a key may be created with: Ed25519 keys only with the Ed25519 scheme, RSA keys never with it and only from 2048 bits
    pub open spec fn scheme_fits(self) -> bool {
        (self.is_ed() ==> self.public_v().scheme_v() == SignatureScheme::Ed25519)
        && (self.is_rsa() ==> self.public_v().scheme_v() != SignatureScheme::Ed25519 && self.rsa_len() >= 256)
    }
//@extract src/crypto.rs impl:PrivateKey/fn:key_id props=C09
//@contract ret=r
    ensures *r == self.public_v().kid(),
//@end
//@extract src/crypto.rs impl:PrivateKey/fn:public props=C09
//@contract ret=r
    ensures *r == self.public_v(),
//@end
// every constructor establishes the invariant
//@extract src/crypto.rs impl:PrivateKey/fn:from_ed25519_with_keyid_hash_algorithms props=C09,C14
//@subst G1 /\.map_err\(\|err\| Error::Encoding\(err\.to_string\(\)\)\)/ => .map_err(|err: KeyRejected| -> (e: Error) { Error::Encoding(err.to_string()) })
//@contract ret=r
    ensures r is Ok ==> r->Ok_0.is_ed() && r->Ok_0.scheme_fits(),   // [C09]
//@end
//@extract src/crypto.rs impl:PrivateKey/fn:from_ed25519 props=C09,C14
//@contract ret=r
    ensures r is Ok ==> r->Ok_0.is_ed() && r->Ok_0.scheme_fits(),   // [C09]
//@end
//@extract src/crypto.rs impl:PrivateKey/fn:ed25519_from_pkcs8_with_keyid_hash_algorithms props=C09,C14
//@contract ret=r
    ensures r is Ok ==> r->Ok_0.is_ed() && r->Ok_0.scheme_fits(),   // [C09]
//@end
//@extract src/crypto.rs impl:PrivateKey/fn:ed25519_from_pkcs8 props=C09,C14
//@contract ret=r
    ensures r is Ok ==> r->Ok_0.is_ed() && r->Ok_0.scheme_fits(),   // [C09]
//@end
//@extract src/crypto.rs impl:PrivateKey/fn:rsa_from_pkcs8 props=C09,C14
//@contract ret=r
    ensures r is Ok ==> r->Ok_0.is_rsa() && r->Ok_0.scheme_fits() && r->Ok_0.public_v().scheme_v() == scheme,   // [C09]
            scheme == SignatureScheme::Ed25519 ==> r is Err,   // [C09]
//@end
//@extract src/crypto.rs impl:PrivateKey/fn:ecdsa_from_pkcs8 props=C09,C14
//@contract ret=r
    ensures r is Ok ==> r->Ok_0.is_ec() && r->Ok_0.public_v().scheme_v() == scheme,   // [C09]
//@end
//@extract src/crypto.rs impl:PrivateKey/fn:from_pkcs8 props=C09,C14
//@contract ret=r
    ensures r is Ok ==> r->Ok_0.scheme_fits() && r->Ok_0.public_v().scheme_v() == scheme,   // [C09] the key signs with the scheme it was created for
//@end
//@extract src/crypto.rs impl:PrivateKey/fn:sign props=C09,C04,C14
//@subst D43 /, &SignatureScheme::/ => , SignatureScheme:: count=4
//@subst D44 /\.as_ref\(\)\.into\(\)/ => .as_ref().to_vec() count=2
//@contract ret=r
    ensures r is Ok ==> r->Ok_0.kid() == self.public_v().kid(),   // [C09] attributed to the signer's own key id
            r is Ok ==> self.public_v().sig_ok(msg@, r->Ok_0),    // [C09] and accepted by the signer's own public key under the key's declared scheme
//@before /let value = match \(&self\.private, &self\.public\.scheme\) \{/
        proof { use_type_invariant(self); }
//@end
}
} // verus!
fn main() {}
