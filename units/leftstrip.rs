//@props C18
//@include prelude/head.rs
verus! {
//@include prelude/axioms.rs
//@include prelude/std_string.rs
//@include prelude/utf8_facts.rs
//@include prelude/error.rs

// io::Error -> Error (assumed total)
#[verifier::external_type_specification]
#[verifier::external_body]
pub struct ExIoError(std::io::Error);
#[verifier::external_type_specification]
pub struct ExIoErrorKind(std::io::ErrorKind);
pub mod io {
    use vstd::prelude::*;
    pub struct Error { _e: u8 }
    impl Error { #[verifier::external_body] pub fn new(k: std::io::ErrorKind, msg: String) -> Error { unimplemented!() } }
}
impl From<io::Error> for Error { #[verifier::external_body] fn from(e: io::Error) -> Error { unimplemented!() } }

// str::starts_with / strip_prefix with a `&&str` pattern (prefix test on the texts)
pub uninterp spec fn pattern_text<P>(p: P) -> Seq<char>;
pub open spec fn is_prefix(p: Seq<char>, s: Seq<char>) -> bool { p.len() <= s.len() && s.subrange(0, p.len() as int) == p }
pub assume_specification<P: std::str::pattern::Pattern> [str::starts_with::<P>] (s: &str, p: P) -> (r: bool)
    ensures r == is_prefix(pattern_text(p), s@);
pub assume_specification<'a, P: std::str::pattern::Pattern> [str::strip_prefix::<P>] (s: &'a str, p: P) -> (r: Option<&'a str>)
    ensures is_prefix(pattern_text(p), s@) ==> r is Some && r->0@ == s@.subrange(pattern_text(p).len() as int, s@.len() as int),
            !is_prefix(pattern_text(p), s@) ==> r is None;
#[verifier::external_body]
pub proof fn fact_pattern_ref_ref_str()
    ensures forall|p: &&str| #[trigger] pattern_text::<&&str>(p) == (**p)@
{}

// C18: the longest (in bytes) matching strip-prefix is removed; among equally long ones the first
pub open spec fn blen(s: Seq<char>) -> nat { vstd::utf8::encode_utf8(s).len() }
pub open spec fn best_prefix(path: Seq<char>, ps: Seq<&str>, i: int) -> bool {
    0 <= i < ps.len() && is_prefix(ps[i]@, path)
    && forall|j: int| 0 <= j < ps.len() && is_prefix(#[trigger] ps[j]@, path) ==> blen(ps[j]@) <= blen(ps[i]@)
}
//@extract src/runlib.rs fn:apply_left_strip props=C18,C14
//@uncontinue
//@subst D27 /String::from\(path\)/ => path.to_owned()
//@subst D27 /String::from\(stripped_path\)/ => stripped_path.to_owned()
//@contract ret=r
    ensures
        r is Ok,                                                                  // [C18]
        lstrip_paths is None ==> r->Ok_0@ == path@,                               // [C18]
        lstrip_paths is Some && (forall|j: int| 0 <= j < lstrip_paths->0@.len() ==> !is_prefix(#[trigger] lstrip_paths->0@[j]@, path@)) ==> r->Ok_0@ == path@,   // [C18]
        lstrip_paths is Some && (exists|j: int| 0 <= j < lstrip_paths->0@.len() && is_prefix(#[trigger] lstrip_paths->0@[j]@, path@)) ==>
            exists|i: int| best_prefix(path@, lstrip_paths->0@, i) && r->Ok_0@ == path@.subrange(#[trigger] lstrip_paths->0@[i]@.len() as int, path@.len() as int),   // [C18]
//@before /let mut stripped_path = path;/
    let ghost ps = l_paths@;
    let ghost mut best: int = -1;
    proof { fact_pattern_ref_ref_str(); reveal_strlit(""); }
//@loop 1 iter=it
        invariant
            forall|p: &&str| #[trigger] pattern_text::<&&str>(p) == (**p)@,
            ps == l_paths@,
            it.seq().len() == ps.len(),
            forall|i: int| 0 <= i < ps.len() ==> *(#[trigger] it.seq()[i]) == ps[i],
            -1 <= best < it.index(),
            best == -1 ==> stripped_path@ == path@ && find_prefix@.len() == 0
                && forall|j: int| 0 <= j < it.index() ==> !is_prefix(#[trigger] ps[j]@, path@),
            best >= 0 ==> is_prefix(ps[best]@, path@) && find_prefix@ == ps[best]@
                && stripped_path@ == path@.subrange(ps[best]@.len() as int, path@.len() as int)
                && forall|j: int| 0 <= j < it.index() && is_prefix(#[trigger] ps[j]@, path@) ==> blen(ps[j]@) <= blen(ps[best]@),
//@before /if !path\.starts_with\(l_path\)/
        proof { fact_str_len_fits(find_prefix@); fact_str_len_fits(l_path@); assert(*l_path == ps[it.index() as int]); }
//@after /find_prefix = l_path;/
        proof { best = it.index() as int; }
//@end
} // verus!
fn main() {}
