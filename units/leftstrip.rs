//@props C18
//@include prelude/head.rs
verus! {
//@include prelude/axioms.rs
//@include prelude/std_string.rs
//@include prelude/utf8_facts.rs
//@include prelude/error.rs

// io::Error -> Error (assumed total)
#[verifier::external_type_specification]
#[verifier::external_body]
pub struct ExIoError(std::io::Error);
#[verifier::external_type_specification]
pub struct ExIoErrorKind(std::io::ErrorKind);
pub mod io {
    use vstd::prelude::*;
    pub struct Error { _e: u8 }
    impl Error { #[verifier::external_body] pub fn new(k: std::io::ErrorKind, msg: String) -> Error { unimplemented!() } }
}
impl From<io::Error> for Error { #[verifier::external_body] fn from(e: io::Error) -> Error { unimplemented!() } }

//@include contracts/lstrip_specs.rs
//@extract src/runlib.rs fn:apply_left_strip props=C18,C14
//@uncontinue
//@subst D27 /String::from\(path\)/ => path.to_owned()
//@subst D27 /String::from\(stripped_path\)/ => stripped_path.to_owned()
//@contract ret=r
//@include contracts/apply_left_strip.rs
//@before /let mut stripped_path = path;/
    let ghost ps = l_paths@;
    let ghost mut best: int = -1;
    proof { fact_pattern_ref_ref_str(); reveal_strlit(""); }
//@loop 1 iter=it
        invariant
            forall|p: &&str| #[trigger] pattern_text::<&&str>(p) == (**p)@,
            ps == l_paths@,
            it.seq().len() == ps.len(),
            forall|i: int| 0 <= i < ps.len() ==> *(#[trigger] it.seq()[i]) == ps[i],
            -1 <= best < it.index(),
            best == -1 ==> stripped_path@ == path@ && find_prefix@.len() == 0
                && forall|j: int| 0 <= j < it.index() ==> !is_prefix(#[trigger] ps[j]@, path@),
            best >= 0 ==> is_prefix(ps[best]@, path@) && find_prefix@ == ps[best]@
                && stripped_path@ == path@.subrange(ps[best]@.len() as int, path@.len() as int)
                && forall|j: int| 0 <= j < it.index() && is_prefix(#[trigger] ps[j]@, path@) ==> blen(ps[j]@) <= blen(ps[best]@),
//@before /if !path\.starts_with\(l_path\)/
        proof { fact_str_len_fits(find_prefix@); fact_str_len_fits(l_path@); assert(*l_path == ps[it.index() as int]); }
//@after /find_prefix = l_path;/
        proof { best = it.index() as int; }
//@end
} // verus!
fn main() {}
