//@props C08
//@include prelude/head.rs
use std::path::{Path, PathBuf};
verus! {
//@include prelude/axioms.rs
//@include prelude/std_string.rs
//@include prelude/utf8_facts.rs
//@include prelude/error.rs
//@include prelude/std_collect.rs
//@include prelude/ring_stub.rs
//@include prelude/crypto_types.rs

//@take src/models/link/byproducts.rs struct:ByProducts drop_derives=Clone,Debug,PartialEq,Eq,Default
//@take src/models/helpers.rs struct:VirtualTargetPath drop_derives=Debug,Clone,PartialEq,Eq,PartialOrd,Ord,Hash
impl VirtualTargetPath {
//@extract src/models/helpers.rs impl:VirtualTargetPath/fn:new props=C14
//@end
}
impl ByProducts {
    pub closed spec fn rv(self) -> Option<i32> { self.return_value }
    pub closed spec fn out(self) -> Option<String> { self.stdout }
    pub closed spec fn err(self) -> Option<String> { self.stderr }
    pub closed spec fn others(self) -> Map<String, String> { self.other_fields@ }
//@extract src/models/link/byproducts.rs impl:ByProducts/fn:new props=C18
//@contract ret=r
    ensures r.rv() is None && r.out() is None && r.err() is None && r.others() == Map::<String, String>::empty(),
//@end
//@extract src/models/link/byproducts.rs impl:ByProducts/fn:set_return_value props=C18
//@mutself
//@contract ret=r
    ensures r.rv() == Some(return_value) && r.out() == self.out() && r.err() == self.err() && r.others() == self.others(),
//@end
//@extract src/models/link/byproducts.rs impl:ByProducts/fn:set_stdout props=C18
//@mutself
//@contract ret=r
    ensures r.out() == Some(stdout) && r.rv() == self.rv() && r.err() == self.err() && r.others() == self.others(),
//@end
//@extract src/models/link/byproducts.rs impl:ByProducts/fn:set_stderr props=C18
//@mutself
//@contract ret=r
    ensures r.err() == Some(stderr) && r.rv() == self.rv() && r.out() == self.out() && r.others() == self.others(),
//@end
}

// ---- trusted stubs: std::process, std::io, std::fs::canonicalize (assumed contracts on the operating-system interface) ----
#[verifier::external_type_specification]
#[verifier::external_body]
pub struct ExIoError(std::io::Error);
#[verifier::external_type_specification]
pub struct ExIoErrorKind(std::io::ErrorKind);
impl From<std::io::Error> for Error { #[verifier::external_body] fn from(e: std::io::Error) -> Error { unimplemented!() } }
pub mod io {
    use vstd::prelude::*;
    pub struct Error { _e: u8 }
    impl Error { #[verifier::external_body] pub fn new(k: std::io::ErrorKind, msg: String) -> Error { unimplemented!() } }
    pub struct Stdout { _s: u8 }
    pub struct Stderr { _s: u8 }
    #[verifier::external_body] pub fn stdout() -> Stdout { unimplemented!() }
    #[verifier::external_body] pub fn stderr() -> Stderr { unimplemented!() }
    impl Stdout { #[verifier::external_body] pub fn write_all(&mut self, b: &[u8]) -> std::io::Result<()> { unimplemented!() } }
    impl Stderr { #[verifier::external_body] pub fn write_all(&mut self, b: &[u8]) -> std::io::Result<()> { unimplemented!() } }
}
impl From<io::Error> for Error { #[verifier::external_body] fn from(e: io::Error) -> Error { unimplemented!() } }
// what one finished child process reported: its two output streams and, unless a signal ended it, an exit code
#[verifier::external_body]
pub struct ExitStatus { _o: u8 }
pub uninterp spec fn code_v(s: ExitStatus) -> Option<i32>;
impl ExitStatus {
    #[verifier::external_body]
    pub fn code(&self) -> (r: Option<i32>) ensures r == code_v(*self) { unimplemented!() }
}
pub struct Output { pub stdout: Vec<u8>, pub stderr: Vec<u8>, pub status: ExitStatus }
#[verifier::external_body]
pub struct Command { _o: u8 }
pub uninterp spec fn c_exe(c: Command) -> Seq<char>;
pub uninterp spec fn c_argv(c: Command) -> Seq<Seq<char>>;
pub uninterp spec fn c_dir(c: Command) -> Option<Seq<char>>;
pub open spec fn strs(v: Seq<&str>) -> Seq<Seq<char>> { Seq::new(v.len(), |i: int| v[i]@) }
// `spawned(exe, args, dir, out)`: running `exe args` in `dir` produced `out`
pub uninterp spec fn spawned(exe: Seq<char>, argv: Seq<Seq<char>>, dir: Option<Seq<char>>, out: Output) -> bool;
impl Command {
    #[verifier::external_body]
    pub fn new(program: &str) -> (r: Command) ensures c_exe(r) == program@, c_argv(r) == Seq::<Seq<char>>::empty(), c_dir(r) is None { unimplemented!() }
    #[verifier::external_body]
    pub fn args(&mut self, a: Vec<&str>) -> (r: &mut Command)
        ensures c_exe(*r) == c_exe(*old(self)), c_argv(*r) == c_argv(*old(self)) + strs(a@), c_dir(*r) == c_dir(*old(self)),
    { unimplemented!() }
    #[verifier::external_body]
    pub fn current_dir(&mut self, d: &str) -> (r: &mut Command)
        ensures c_exe(*r) == c_exe(*old(self)), c_argv(*r) == c_argv(*old(self)), c_dir(*r) == Some(d@),
    { unimplemented!() }
    #[verifier::external_body]
    pub fn output(&mut self) -> (r: std::result::Result<Output, std::io::Error>)
        ensures r is Ok ==> spawned(c_exe(*old(self)), c_argv(*old(self)), c_dir(*old(self)), r->Ok_0),
    { unimplemented!() }
}

#[verifier::external_type_specification]
#[verifier::external_body]
pub struct ExPathBuf(PathBuf);
#[verifier::external_type_specification]
#[verifier::external_body]
pub struct ExPath(Path);
// std::fs::canonicalize (imported as canonicalize_path in runlib.rs): any result, no panic
#[verifier::external_body]
fn canonicalize_path(p: &str) -> std::io::Result<PathBuf> { unimplemented!() }
pub assume_specification [<PathBuf as std::ops::Deref>::deref] (p: &PathBuf) -> (r: &Path);
pub assume_specification [Path::to_str] (p: &Path) -> (r: Option<&str>);

pub open spec fn opt_text(d: Option<&str>) -> Option<Seq<char>> { match d { Some(s) => Some(s@), None => None } }
// the meaning of `cmd_ran` (callers in units inspect / runlib_run use it abstractly):
pub open spec fn cmd_ran(args: Seq<Seq<char>>, dir: Option<Seq<char>>, b: ByProducts) -> bool {
    if args.len() == 0 {
        // no command: empty byproducts
        b.rv() is None && b.out() is None && b.err() is None
    } else {
        exists|o: Output|
            #[trigger] spawned(args[0], args.subrange(1, args.len() as int), dir, o)     // the command that is run is the one that was given
            && code_v(o.status) is Some && b.rv() == code_v(o.status)                   // [C08] a process ended by a signal has no exit code: that is an error, never Ok
            && vstd::utf8::valid_utf8(o.stdout@) && b.out() is Some && b.out()->0@ == vstd::utf8::decode_utf8(o.stdout@)
            && vstd::utf8::valid_utf8(o.stderr@) && b.err() is Some && b.err()->0@ == vstd::utf8::decode_utf8(o.stderr@)   // [C18]
    }
}
//@extract src/runlib.rs fn:run_command props=C08,C18,C14
//@subst G1 /\.map\(\|arg\| \{/ => .map(|arg: &&str| -> (w: &str) ensures w@ == (*arg)@ {
//@contract ret=r
//@include contracts/run_command.rs
//@after /\.collect::<Vec<&str>>\(\);/
    let ghost want = strs(cmd_args@).subrange(1, cmd_args@.len() as int);
    assert(strs(args@) =~= want);
//@before /Emit stdout, stderror/
    let ghost o0 = output;
    assert(strs(cmd_args@)[0] == cmd_args@[0]@);
    assert(spawned(strs(cmd_args@)[0], want, opt_text(run_dir), o0));
//@end
} // verus!
fn main() {}
