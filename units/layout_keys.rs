//@props C12
//@include prelude/head.rs
verus! {
//@include prelude/axioms.rs
//@include prelude/std_string.rs
//@include prelude/utf8_facts.rs
//@include prelude/error.rs
//@include prelude/std_collect.rs
//@include prelude/ring_stub.rs
//@include prelude/chrono_stub.rs
//@include prelude/crypto_types.rs
//@include prelude/models_types.rs

impl PublicKey {
//@extract src/crypto.rs impl:PublicKey/fn:key_id
//@contract ret=r
    ensures *r == self.kid(),
//@end
}
//@take src/models/layout/mod.rs struct:Layout drop_derives=Debug,Clone,PartialEq,Eq
// chrono parsing as an uninterpreted partial function of the text
pub uninterp spec fn rfc3339_instant(ts: Seq<char>) -> Option<int>;
//@extract src/models/layout/mod.rs fn:parse_datetime stub
//@contract ret=r
    ensures match rfc3339_instant(ts@) { Some(t) => r is Ok && chrono::instant(r->Ok_0) == t, None => r is Err },
//@end
impl LayoutMetadata {
//@extract src/models/layout/metadata.rs impl:LayoutMetadata/fn:new
//@contract ret=r
    ensures r.expires == expires, r.readme == readme, r.keys == keys, r.steps == steps, r.inspect == inspect,
//@end
}
// by-value iteration of a BTreeMap: every entry exactly once
#[verifier::reject_recursive_types(K)]
#[verifier::reject_recursive_types(V)]
#[verifier::reject_recursive_types(A)]
#[verifier::external_type_specification]
#[verifier::external_body]
pub struct ExBtIntoIter<K, V, A: std::alloc::Allocator + Clone>(std::collections::btree_map::IntoIter<K, V, A>);
#[verifier::prophetic]
pub open spec fn bt_into_iter_post<K, V, A: std::alloc::Allocator + Clone>(m: BTreeMap<K, V, A>, iter: std::collections::btree_map::IntoIter<K, V, A>) -> bool {
    let rem = vstd::std_specs::iter::IteratorSpec::remaining(&iter);
    &&& vstd::std_specs::iter::IteratorSpec::obeys_prophetic_iter_laws(&iter)
    &&& vstd::std_specs::iter::IteratorSpec::decrease(&iter) is Some
    &&& forall|i: int| 0 <= i < rem.len() ==> m@.contains_key((#[trigger] rem[i]).0) && m@[rem[i].0] == rem[i].1
    &&& forall|i: int, j: int| 0 <= i < j < rem.len() ==> (#[trigger] rem[i]).0 != (#[trigger] rem[j]).0
    &&& forall|k: K| m@.contains_key(k) ==> exists|i: int| 0 <= i < rem.len() && (#[trigger] rem[i]).0 == k
}
pub assume_specification<K, V, A: std::alloc::Allocator + Clone>[<BTreeMap<K, V, A> as IntoIterator>::into_iter](m: BTreeMap<K, V, A>) -> (iter: std::collections::btree_map::IntoIter<K, V, A>)
    ensures exists|t: std::collections::btree_map::IntoIter<K, V, A>| t == iter && #[trigger] bt_into_iter_post(m, t);

impl Layout {
    pub closed spec fn keys_v(self) -> Map<KeyId, PublicKey> { self.keys@ }
    pub closed spec fn expires_v(self) -> Seq<char> { self.expires@ }
    pub closed spec fn rest_v(self) -> (Vec<Step>, Vec<Inspection>, String) { (self.steps, self.inspect, self.readme) }
//@extract src/models/layout/mod.rs impl:Layout/fn:try_into props=C12,C14
//@subst G1 /\.filter\(\|\(key_id, pkey\)\| \{/ => .filter(|_p1: &(KeyId, PublicKey)| -> (r: bool) ensures r == (_p1.0 == _p1.1.kid()) { let key_id = &_p1.0; let pkey = &_p1.1;
//@subst D24 /let keys_with_correct_key_id = self/ => let keys_it = self
//@subst D24 /\.collect\(\);/ => ; let ghost s_f = vstd::std_specs::iter::IteratorSpec::remaining(&keys_it); let keys_with_correct_key_id: HashMap<KeyId, PublicKey> = keys_it.collect();
//@contract ret=r
    ensures
        r is Ok ==> forall|id: KeyId| #[trigger] r->Ok_0.keys@.contains_key(id) ==>
            self.keys_v().contains_key(id) && r->Ok_0.keys@[id] == self.keys_v()[id] && r->Ok_0.keys@[id].kid() == id,     // [C12]
        r is Ok ==> (r->Ok_0.steps, r->Ok_0.inspect, r->Ok_0.readme) == self.rest_v(),
        r is Ok ==> rfc3339_instant(self.expires_v()) == Some(chrono::instant(r->Ok_0.expires)),    // [C06]
//@before /let keys_it = self/
        let ghost km = self.keys@;
        proof { fact_keyid_key_model(); }
//@before /Ok\(LayoutMetadata::new\(/
        assert(forall|i: int| 0 <= i < s_f.len() ==> km.contains_key((#[trigger] s_f[i]).0) && km[s_f[i].0] == s_f[i].1 && s_f[i].0 == s_f[i].1.kid());
//@end
}
} // verus!
fn main() {}
