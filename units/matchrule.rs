//@props C03
//@include prelude/head.rs
use std::path::PathBuf;
use vstd::std_specs::iter::IteratorSpec;
verus! {
//@include prelude/axioms.rs
//@include prelude/std_string.rs
//@include prelude/utf8_facts.rs
//@include prelude/error.rs
//@include prelude/std_collect.rs
//@include prelude/ring_stub.rs
//@include prelude/chrono_stub.rs
//@include prelude/crypto_types.rs
//@include contracts/rulelib_types.rs
//@include contracts/match_spec.rs

impl VirtualTargetPath {
//@extract src/models/helpers.rs impl:VirtualTargetPath/fn:new props=C14
//@contract ret=r
    ensures r is Ok && r->Ok_0.text() == path@,
//@end
}
// a target description (HashMap<HashAlgorithm, HashValue>) is determined by its view
#[verifier::external_body]
pub proof fn fact_target_description_ext()
    ensures forall|a: TargetDescription, b: TargetDescription| #![trigger a@, b@] a@ == b@ ==> a == b,
            vstd::std_specs::hash::obeys_key_model::<HashAlgorithm>(),
{}
#[verifier::external_body]
pub proof fn fact_target_description_eq()
    ensures <TargetDescription as vstd::std_specs::cmp::PartialEqSpec>::obeys_eq_spec(),
            forall|a: TargetDescription, b: TargetDescription| #[trigger] vstd::std_specs::cmp::PartialEqSpec::eq_spec(&a, &b) == (a == b),
{}
impl Clone for HashAlgorithm { #[verifier::external_body] fn clone(&self) -> (r: Self) ensures r == *self { unimplemented!() } }
impl Clone for HashValue { #[verifier::external_body] fn clone(&self) -> (r: Self) ensures r == *self { unimplemented!() } }

// ---- trusted stubs: std::path::PathBuf as a text, str::strip_prefix, String::push ----
#[verifier::external_type_specification]
#[verifier::external_body]
pub struct ExPathBuf(PathBuf);
pub uninterp spec fn pb_text(p: PathBuf) -> Seq<char>;
pub uninterp spec fn as_path_text<P: ?Sized>(p: &P) -> Seq<char>;
pub assume_specification [PathBuf::new] () -> (r: PathBuf)
    ensures pb_text(r) == Seq::<char>::empty();
pub assume_specification<P: AsRef<std::path::Path>> [PathBuf::push::<P>] (pb: &mut PathBuf, p: P)
    ensures pb_text(*final(pb)) == path_push(pb_text(*old(pb)), as_path_text(&p));
#[verifier::external_body]
pub proof fn fact_as_path_text()
    ensures forall|s: &String| #[trigger] as_path_text::<&String>(&s) == s@,
            forall|s: &&String| #[trigger] as_path_text::<&&String>(&s) == s@,
            forall|s: &str| #[trigger] as_path_text::<&str>(&s) == s@,
{}
// D40: `P.to_string_lossy().to_string()` (identity on paths that are valid Unicode; pb_text models exactly those)
#[verifier::external_body]
fn pathbuf_lossy_string(p: &PathBuf) -> (r: String)
    ensures r@ == pb_text(*p)
{ p.to_string_lossy().to_string() }
pub uninterp spec fn pattern_text<P>(p: P) -> Seq<char>;
pub assume_specification<'a, P: std::str::pattern::Pattern> [str::strip_prefix::<P>] (s: &'a str, p: P) -> (r: Option<&'a str>)
    ensures text_is_prefix(pattern_text(p), s@) ==> r is Some && r->0@ == s@.subrange(pattern_text(p).len() as int, s@.len() as int),
            !text_is_prefix(pattern_text(p), s@) ==> r is None;
#[verifier::external_body]
pub proof fn fact_pattern_ref_string()
    ensures forall|p: &String| #[trigger] pattern_text::<&String>(p) == p@
{}
// D41: `M.iter().map(|(path, value)| (canonicalize_path(path).unwrap_or_else(|| path.clone()), value.clone())).collect()`
// into a BTreeMap: the closure is kept and verified against its ensures; the stub carries std's contract of collect
#[verifier::external_body]
fn btreemap_rekey<F: Fn((&VirtualTargetPath, &TargetDescription)) -> (VirtualTargetPath, TargetDescription)>(m: &ArtifactMap, f: F) -> (r: ArtifactMap)
    requires forall|x: (&VirtualTargetPath, &TargetDescription)| #[trigger] f.requires((x,)),
             forall|x: (&VirtualTargetPath, &TargetDescription), y: (VirtualTargetPath, TargetDescription)| f.ensures((x,), y) ==> y.0 == canon_or_self(*x.0) && y.1@ == (*x.1)@,   // a target description is determined by its view
    ensures r@ == rekeyed(m@)
{ unimplemented!() }

//@extract src/rulelib.rs fn:verify_match_rule props=C03,C08,C13,C14
//@desugar_for 1 it=qit call=.iter()
//@mapindex src_artifacts
//@subst D41 /src_artifacts\s*\.iter\(\)\s*\.map\(\|\(path, value\)\| \{\s*(\(\s*canonicalize_path\(path\)\s*\.unwrap_or_else\(\|\| path\.clone\(\)\),\s*value\.clone\(\),\s*\))\s*\}\)\s*\.collect\(\)/ => btreemap_rekey(src_artifacts, |_p: (&VirtualTargetPath, &TargetDescription)| -> (y: (VirtualTargetPath, TargetDescription)) ensures y.0 == canon_or_self(*_p.0) && y.1@ =~= (*_p.1)@ { let (path, value) = _p; proof { fact_target_description_ext(); } \1 }) optional
//@subst D41 /dst_artifact\s*\.iter\(\)\s*\.map\(\|\(path, value\)\| \{\s*(\(\s*canonicalize_path\(path\)\s*\.unwrap_or_else\(\|\| path\.clone\(\)\),\s*value\.clone\(\),\s*\))\s*\}\)\s*\.collect\(\)/ => btreemap_rekey(dst_artifact, |_p: (&VirtualTargetPath, &TargetDescription)| -> (y: (VirtualTargetPath, TargetDescription)) ensures y.0 == canon_or_self(*_p.0) && y.1@ =~= (*_p.1)@ { let (path, value) = _p; proof { fact_target_description_ext(); } \1 })
//@subst D40 /res\.to_string_lossy\(\)\.to_string\(\)/ => pathbuf_lossy_string(&res) count=3
//@subst G1 /\.unwrap_or_else\(\|\| path\.clone\(\)\)/ => .unwrap_or_else(|| -> (c: VirtualTargetPath) ensures c == *path { path.clone() }) count=*
//@contract ret=r
//@include contracts/verify_match_rule.rs
//@before /let mut consumed = BTreeSet::new\(\);/
    proof { reveal(match_consumed); fact_string_ext(); fact_vtp_ext(); fact_target_description_eq(); fact_target_description_ext(); fact_as_path_text(); fact_pattern_ref_string(); }
    let ghost links = items_metadata@;
    let ghost raw_src = src_artifacts@;
    let ghost queue = src_artifact_queue@;
//@before /let mut qit = /
            let ghost pat = *pattern;
            let ghost sp = src_prefix@;
            let ghost dp = dst_prefix@;
            let ghost srcm = src_artifacts@;
            let ghost dstm = dst_artifacts@;
            let ghost mut ndone: int = 0;
//@loop 1
                invariant_except_break
                    vstd::std_specs::iter::IteratorSpec::remaining(&qit) == qit_all.subrange(ndone, qit_all.len() as int),
                invariant
                    vstd::std_specs::iter::IteratorSpec::obeys_prophetic_iter_laws(&qit),
                    vstd::std_specs::iter::IteratorSpec::decrease(&qit) is Some,
                    0 <= ndone <= qit_all.len(),
                    qit_all.unref().to_set() == queue && qit_all.unref().no_duplicates(),
                    pat == *pattern && sp == src_prefix@ && dp == dst_prefix@ && srcm == src_artifacts@ && dstm == dst_artifacts@,
                    forall|p: VirtualTargetPath| queue.contains(p) ==> #[trigger] srcm.contains_key(p),   // [C14]
                    forall|a: VirtualTargetPath, b: VirtualTargetPath| #![trigger a.text(), b.text()] a.text() == b.text() ==> a == b,
                    vstd::std_specs::btree::key_obeys_cmp_spec::<VirtualTargetPath>(),
                    <TargetDescription as vstd::std_specs::cmp::PartialEqSpec>::obeys_eq_spec(),
                    forall|a: TargetDescription, b: TargetDescription| #[trigger] vstd::std_specs::cmp::PartialEqSpec::eq_spec(&a, &b) == (a == b),
                    forall|s: &String| #[trigger] as_path_text::<&String>(&s) == s@,
                    forall|s: &str| #[trigger] as_path_text::<&str>(&s) == s@,
                    forall|p: &String| #[trigger] pattern_text::<&String>(p) == p@,
                    forall|p: VirtualTargetPath| #[trigger] consumed@.contains(p) <==>
                        ((exists|j: int| 0 <= j < ndone && *#[trigger] qit_all[j] == p) && match_one(pat, sp, dp, srcm, dstm, p)),
                ensures ndone == qit_all.len(),
                decreases vstd::std_specs::iter::IteratorSpec::decrease(&qit)->0,
//@after /let mut qit = /
                proof {
                    assert(*src_path == *qit_all[ndone]);
                    ndone = ndone + 1;
                    assert(queue.contains(*src_path));
                }
//@after_loop 1
            proof {
                assert(ndone == qit_all.len());
                assert(consumed@ =~= queue.filter(|p: VirtualTargetPath| match_one(pat, sp, dp, srcm, dstm, p)));
            }
//@end
} // verus!
fn main() {}
