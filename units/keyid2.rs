//@props C12
//@include prelude/head.rs
verus! {
//@include prelude/axioms.rs
//@include prelude/std_string.rs
//@include prelude/utf8_facts.rs
//@include prelude/error.rs
//@include prelude/std_collect.rs
//@include prelude/ring_stub.rs

// ---- real types; KeyId carries its type invariant here (cf. units/keyid.rs) ----
//@take src/crypto.rs struct:KeyId drop_derives=Clone,Debug,PartialOrd,Ord,Hash,PartialEq,Eq
impl KeyId {
    #[verifier::type_invariant]
    pub closed spec fn wf(self) -> bool { self.0@.len() == 64 && vstd::utf8::is_ascii_chars(self.0@) }
    pub closed spec fn id(self) -> Seq<char> { self.0@ }
}
//@take src/crypto.rs enum:SignatureScheme drop_derives=Debug,Hash,Clone,PartialEq,Eq
//@take src/crypto.rs enum:KeyType drop_derives=Debug,Hash,Clone,PartialEq,Eq
//@take src/crypto.rs struct:PublicKeyValue drop_derives=Clone,PartialEq,Eq,Hash
//@take src/crypto.rs struct:PublicKey drop_derives=Debug,Clone

// ---- dependencies as uninterpreted functions (the *composition* below is what the code is checked against) ----
pub mod shims { use vstd::prelude::*; #[verifier::external_body] pub struct PublicKey { _o: u8 } }
pub uninterp spec fn shim_spec(t: KeyType, s: SignatureScheme, algs: Option<Vec<String>>, pk: Seq<u8>) -> Option<shims::PublicKey>;
//@extract src/crypto.rs fn:shim_public_key stub
//@contract ret=r
    ensures !private_key && keyid is None ==> match shim_spec(*key_type, *signature_scheme, *keyid_hash_algorithms, public_key@) { Some(s) => r is Ok && r->Ok_0 == s, None => r is Err },
//@end
pub mod serde_json { use vstd::prelude::*; #[verifier::external_body] pub struct Value { _o: u8 } }
pub uninterp spec fn serialize_spec(k: shims::PublicKey) -> Option<serde_json::Value>;
pub uninterp spec fn canon_spec(v: serde_json::Value) -> Option<Seq<u8>>;
pub struct Json;
impl Json {
    #[verifier::external_body]
    pub fn serialize(data: &shims::PublicKey) -> (r: Result<serde_json::Value>)
        ensures match serialize_spec(*data) { Some(v) => r is Ok && r->Ok_0 == v, None => r is Err } { unimplemented!() }
    // contract of cjson::canonicalize (units/cjson.rs): a deterministic partial function of the JSON value
    #[verifier::external_body]
    pub fn canonicalize(raw_data: &serde_json::Value) -> (r: Result<Vec<u8>>)
        ensures match canon_spec(*raw_data) { Some(b) => r is Ok && r->Ok_0@ == b, None => r is Err } { unimplemented!() }
}
pub uninterp spec fn sha256(m: Seq<u8>) -> Seq<u8>;
pub uninterp spec fn hexlower(b: Seq<u8>) -> Seq<char>;
#[verifier::external_body]
pub proof fn fact_digest_hex(m: Seq<u8>)
    ensures sha256(m).len() == 32, hexlower(sha256(m)).len() == 64, vstd::utf8::is_ascii_chars(hexlower(sha256(m)))
{}
pub mod digest {
    use vstd::prelude::*;
    pub struct Algorithm { pub id: u8 }
    #[verifier::external_body] pub struct Context { _o: u8 }
    pub uninterp spec fn ctx_alg(c: Context) -> u8;
    pub uninterp spec fn ctx_data(c: Context) -> Seq<u8>;
    #[verifier::external_body] pub struct Digest { _o: u8 }
    pub uninterp spec fn digest_bytes(d: Digest) -> Seq<u8>;
    impl Context {
        #[verifier::external_body] pub fn new(a: &'static Algorithm) -> (r: Context) ensures ctx_alg(r) == a.id, ctx_data(r) == Seq::<u8>::empty() { unimplemented!() }
        #[verifier::external_body] pub fn update(&mut self, data: &[u8]) ensures ctx_alg(*final(self)) == ctx_alg(*old(self)), ctx_data(*final(self)) == ctx_data(*old(self)) + data@ { unimplemented!() }
        #[verifier::external_body] pub fn finish(self) -> (r: Digest) ensures ctx_alg(self) == 1 ==> digest_bytes(r) == crate::sha256(ctx_data(self)) { unimplemented!() }
    }
    impl Digest { #[verifier::external_body] pub fn as_ref(&self) -> (r: &[u8]) ensures r@ == digest_bytes(*self) { unimplemented!() } }
}
pub exec static SHA256: digest::Algorithm ensures SHA256.id == 1 { digest::Algorithm { id: 1 } }
pub struct HexLower;
impl HexLower { #[verifier::external_body] pub fn encode(&self, b: &[u8]) -> (r: String) ensures r@ == hexlower(b@) { unimplemented!() } }
pub exec static HEXLOWER: HexLower ensures true { HexLower }

// C12 / C11: the key id is the hex SHA-256 of the same byte derivation that is used for signing, applied to the key's own shim
pub open spec fn kid_spec(t: KeyType, s: SignatureScheme, algs: Option<Vec<String>>, pk: Seq<u8>) -> Option<Seq<char>> {
    match shim_spec(t, s, algs, pk) {
        None => None,
        Some(shim) => match serialize_spec(shim) {
            None => None,
            Some(v) => match canon_spec(v) {
                None => None,
                Some(b) => if vstd::utf8::valid_utf8(b) {
                    Some(hexlower(sha256(vstd::utf8::encode_utf8(str_replace(vstd::utf8::decode_utf8(b), "\\n"@, "\n"@)))))
                } else { None },
            },
        },
    }
}
//@extract src/crypto.rs fn:calculate_key_id props=C12,C11,C14
//@subst D26 /use crate::interchange::\{DataInterchange, Json\};/ => 
//@contract ret=r
    ensures match kid_spec(*key_type, *signature_scheme, *keyid_hash_algorithms, public_key@) {
        Some(t) => r is Ok && r->Ok_0.id() == t,     // [C12,C11]
        None => r is Err,
    },
//@after /let public_key = Json::canonicalize\(&Json::serialize\(&public_key\)\?\)\?;/
    let ghost raw0 = public_key@;
//@after /\.replace\("\\\\n", "\\n"\);/ optional
    proof { fact_replace_str_pattern(vstd::utf8::decode_utf8(raw0), "\\n", "\n"@); fact_digest_hex(vstd::utf8::encode_utf8(public_key@)); }
//@end

// frame: a PublicKey value is only ever built by PublicKey::new, and its fields are never assigned elsewhere
//@frame src/crypto.rs type=PublicKey fields=key_id,typ,scheme,keyid_hash_algorithms,value allow=impl:PublicKey/fn:new props=C12
impl PublicKey {
    // C12: the stored identifier is the intrinsic identifier of the key's own type, scheme, hash-algorithm list and material
    pub closed spec fn scheme_v(self) -> SignatureScheme { self.scheme }
    pub closed spec fn typ_v(self) -> KeyType { self.typ }
    pub closed spec fn bytes_v(self) -> Seq<u8> { self.value.0@ }
    pub closed spec fn wf_key(self) -> bool {
        kid_spec(self.typ, self.scheme, self.keyid_hash_algorithms, self.value.0@) == Some(self.key_id.id())
    }
//@extract src/crypto.rs impl:PublicKey/fn:new props=C12,C14
//@contract ret=r
//@include contracts/publickey_new.rs
            r is Ok ==> r->Ok_0.wf_key(),   // [C12]
            r is Ok <==> kid_spec(typ, scheme, keyid_hash_algorithms, value@) is Some,   // [C12]
//@end
}
} // verus!
fn main() {}
