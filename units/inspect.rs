//@props C08
//@include prelude/head.rs
verus! {
//@include prelude/axioms.rs
//@include prelude/std_string.rs
//@include prelude/utf8_facts.rs
//@include prelude/error.rs
//@include prelude/std_collect.rs
//@include prelude/ring_stub.rs
//@include prelude/chrono_stub.rs
//@include prelude/crypto_types.rs
//@include prelude/models_types.rs
//@include prelude/vdisp.rs
//@include contracts/inspections.rs

// ---- trusted stubs: file output, JSON rendering, the command runner ----
#[verifier::external_type_specification]
#[verifier::external_body]
pub struct ExIoError(std::io::Error);
impl From<std::io::Error> for Error { #[verifier::external_body] fn from(e: std::io::Error) -> Error { unimplemented!() } }
pub mod serde_json {
    use vstd::prelude::*;
    pub struct Error { _e: u8 }
    #[verifier::external_body]
    pub fn to_string_pretty<T>(v: &T) -> Result<String, Error> { unimplemented!() }
}
impl From<serde_json::Error> for Error { #[verifier::external_body] fn from(e: serde_json::Error) -> Error { unimplemented!() } }
pub mod std_fs {
    use vstd::prelude::*;
    #[verifier::external_body]
    pub fn write(path: String, contents: String) -> std::io::Result<()> { unimplemented!() }
}
#[verifier::external_body]
pub struct PrivateKey { _opaque: u8 }
pub open spec fn strs(v: Seq<&str>) -> Seq<Seq<char>> { Seq::new(v.len(), |i: int| v[i]@) }
//@extract src/runlib.rs fn:in_toto_run stub
//@contract ret=r
//@include contracts/in_toto_run.rs
//@end
impl ByProducts {
//@extract src/models/link/byproducts.rs impl:ByProducts/fn:return_value stub
//@contract ret=r
    ensures r == bp_return_value(*self),
//@end
}
impl Inspection {
//@extract src/models/layout/inspection.rs "impl:SupplyChainItem for Inspection/fn:name" props=C08
//@contract ret=r
    ensures r@ == self.name@,
//@end
}
// D42: `C.as_ref().iter().map(|arg| &arg[..]).collect()`: the command's words as string slices
#[verifier::external_body]
fn command_words(c: &Command) -> (r: Vec<&str>)
    ensures strs(r@) == cmd_tokens(*c)
{ unimplemented!() }

//@extract src/verifylib.rs fn:run_all_inspections props=C08,C14
//@fmt 1
//@subst D42 /inspect\.run\.as_ref\(\)\.iter\(\)\.map\(\|arg\| &arg\[\.\.\]\)\.collect\(\)/ => command_words(&inspect.run)
//@subst D2 /std::fs::write\(/ => std_fs::write(
//@subst G2 /let mut inspection_links = HashMap::new\(\);/ => let mut inspection_links: HashMap<String, LinkMetadata> = HashMap::new();
//@contract ret=r
//@include contracts/run_all_inspections.rs
//@before /let material_paths = /
    proof { fact_string_ext(); }
//@loop 1 iter=it
        invariant
            forall|a: String, b: String| #![trigger a@, b@] a@ == b@ ==> a == b,
            vstd::std_specs::hash::obeys_key_model::<String>(),
            it.seq().len() == layout.inspect@.len(),
            forall|i: int| 0 <= i < it.seq().len() ==> *(#[trigger] it.seq()[i]) == layout.inspect@[i],
            forall|i: int| 0 <= i < it.index() ==> inspection_links@.contains_key(#[trigger] layout.inspect@[i].name),
            forall|name: String| #[trigger] inspection_links@.contains_key(name) ==> exists|i: int| 0 <= i < layout.inspect@.len()
                && (#[trigger] layout.inspect@[i]).name == name
                && ran_as(name@, cmd_tokens(layout.inspect@[i].run), inspection_links@[name]) && exit_ok(inspection_links@[name]),
//@end
} // verus!
fn main() {}
