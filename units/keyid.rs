//@props C14
//@include prelude/head.rs
verus! {
//@include prelude/std_string.rs
//@include prelude/utf8_facts.rs

//@include prelude/error.rs

//@take src/crypto.rs struct:KeyId drop_derives=Clone
// assumed: the derived Clone is structural
impl Clone for KeyId {
    #[verifier::external_body]
    fn clone(&self) -> (r: Self) ensures r.id() == self.id() { unimplemented!() }
}

impl KeyId {
    // type invariant (ghost): a key id is 64 ASCII characters; established by every constructor
    #[verifier::type_invariant]
    pub closed spec fn wf(self) -> bool {
        self.0@.len() == 64 && vstd::utf8::is_ascii_chars(self.0@)
    }
    pub closed spec fn id(self) -> Seq<char> { self.0@ }
//@extract src/crypto.rs impl:KeyId/fn:prefix props=C14
//@contract ret=r
    ensures vstd::utf8::encode_utf8(r@) == vstd::utf8::encode_utf8(self.id()).subrange(0, 8),
//@subst D9 /self\.0\[0\.\.8\]/ => std::slice::SliceIndex::index(0..8, self.0.as_str())
//@after /pub fn prefix/
    proof { use_type_invariant(self); fact_ascii_subrange(self.0@, 0, 8); }
//@end
}

impl KeyId {
//@extract src/crypto.rs "impl:FromStr for KeyId/fn:from_str" props=C04,C02,C12,C14
//@contract ret=r
    ensures r is Ok ==> r->Ok_0.id() == string@,   // [C04,C02,C12] a key id is kept exactly as written: ids are compared as texts
//@before /Ok\(KeyId\(/
    proof {
        vstd::string::is_ascii_spec_bytes(string);
        fact_str_len_fits(string@);
    }
//@end
}

} // verus!
fn main() {}
