//@props C14
//@include prelude/head.rs
verus! {
//@include prelude/std_string.rs

pub enum Error { IllegalArgument(String) }
pub type Result<T> = std::result::Result<T, Error>;

//@take src/crypto.rs struct:KeyId

impl KeyId {
//@extract src/crypto.rs impl:KeyId/fn:prefix props=C14
//@end
}

} // verus!
fn main() {}
