//@props C07
//@include prelude/head.rs
use std::path::{Path, PathBuf};
verus! {
//@include prelude/axioms.rs
//@include prelude/std_string.rs
//@include prelude/utf8_facts.rs
//@include prelude/error.rs
//@include prelude/std_collect.rs
//@include prelude/ring_stub.rs
//@include prelude/chrono_stub.rs
//@include prelude/crypto_types.rs
//@include prelude/models_types.rs

//@include contracts/metablock_specs.rs
//@include contracts/stage_specs.rs
// ---- C06 ----
//@extract src/verifylib.rs fn:verify_layout_expiration props=C06,C08
//@contract ret=r
//@include contracts/verify_layout_expiration.rs
//@end


// ---- C07 ----
//@extract src/verifylib.rs fn:verify_threshold_constraints props=C07,C08,C14
//@uncontinue
//@mapindex key_link_per_step
//@contract ret=r
//@include contracts/threshold_constraints.rs
//@before /for step in &layout\.steps/
    proof { fact_string_ext(); fact_keyid_key_model(); fact_artifact_map_eq(); }
//@loop 1 iter=it1
        invariant
            forall|a: String, b: String| #![trigger a@, b@] a@ == b@ ==> a == b,
            vstd::std_specs::hash::obeys_key_model::<String>(),
            vstd::std_specs::hash::obeys_key_model::<KeyId>(),
            <ArtifactMap as vstd::std_specs::cmp::PartialEqSpec>::obeys_eq_spec(),
            forall|a: ArtifactMap, b: ArtifactMap| #[trigger] vstd::std_specs::cmp::PartialEqSpec::eq_spec(&a, &b) == (a == b),
            it1.seq().len() == layout.steps@.len(),
            forall|i: int| 0 <= i < it1.seq().len() ==> *(#[trigger] it1.seq()[i]) == layout.steps@[i],
            forall|i: int| 0 <= i < it1.index() && (#[trigger] layout.steps@[i]).threshold >= 2 ==> step_agrees(layout.steps@[i], link_files@),
//@before /let reference_link = /
        // guards the map index that follows (no panic)
        assert(key_link_per_step@.dom().contains(*reference_keyid)); // [C07,C14]
//@loop 2 iter=it2
            invariant
                <ArtifactMap as vstd::std_specs::cmp::PartialEqSpec>::obeys_eq_spec(),
                forall|a: ArtifactMap, b: ArtifactMap| #[trigger] vstd::std_specs::cmp::PartialEqSpec::eq_spec(&a, &b) == (a == b),
                forall|j: int| 0 <= j < it2.index() ==> (#[trigger] it2.seq()[j]).materials == reference_link.materials && it2.seq()[j].products == reference_link.products,
                step.threshold >= 2,
                exists|i: int| 0 <= i < layout.steps@.len() && #[trigger] layout.steps@[i] == *step,
                link_files@.contains_key(step.name) && link_files@[step.name]@ == key_link_per_step@,
                key_link_per_step@.contains_key(*reference_keyid) && key_link_per_step@[*reference_keyid] == *reference_link,
                forall|j: int| 0 <= j < it2.seq().len() ==> key_link_per_step@.values().contains(*#[trigger] it2.seq()[j]),
//@before /return Err\(Error::VerificationFailure\(format!\(/ nth=2
                proof {
                    let m = key_link_per_step@;
                    assert(m.values().contains(*link));
                    let a = choose|a: KeyId| m.contains_key(a) && m[a] == *link;
                    let b = *reference_keyid;
                    assert(m.contains_key(a) && m.contains_key(b));
                    assert(m[a].materials != m[b].materials || m[a].products != m[b].products);
                    assert(!step_agrees(*step, link_files@));
                }
//@after_loop 2
            proof {
                let m = key_link_per_step@;
                assert forall|a: KeyId, b: KeyId| m.contains_key(a) && m.contains_key(b) implies
                    m[a].materials == m[b].materials && m[a].products == m[b].products by {
                    assert(m.values().contains(m[a]));
                    assert(m.values().contains(m[b]));
                }
            }
//@end

// ---- C14: the command comparison (warnings only) has no say in the verdict and cannot panic ----
//@extract src/verifylib.rs fn:verify_all_steps_command_alignment props=C14,C08
//@contract ret=r
//@include contracts/command_alignment.rs
//@before /for step in &layout\.steps/
    proof { fact_string_ext(); fact_keyid_key_model(); }
//@loop 1 iter=it1
        invariant
            forall|a: String, b: String| #![trigger a@, b@] a@ == b@ ==> a == b,
            vstd::std_specs::hash::obeys_key_model::<String>(),
            vstd::std_specs::hash::obeys_key_model::<KeyId>(),
            it1.seq().len() == layout.steps@.len(),
            forall|i: int| 0 <= i < it1.seq().len() ==> *(#[trigger] it1.seq()[i]) == layout.steps@[i],
            forall|i: int| 0 <= i < it1.index() ==> link_files@.contains_key((#[trigger] layout.steps@[i]).name),
//@loop 2 iter=it2
            invariant true,
//@end

// ---- C13 ----
//@include contracts/stage_specs2.rs
// D18: `v.iter().min_by(|a, b| a.0.cmp(b.0))` (std contract: the minimum w.r.t. the comparator; None iff empty)
#[verifier::external_body]
fn min_by_key_id<'a>(v: &'a HashMap<KeyId, LinkMetadata>) -> (r: Option<(&'a KeyId, &'a LinkMetadata)>)
    ensures r is None <==> v@.len() == 0,
            r is Some ==> is_min_kid(v@.dom(), *(r->0).0) && v@[*(r->0).0] == *(r->0).1,
            r is Some ==> *(r->0).0 == min_kid(v@.dom()),   // consequence of the clause above by lemma_min_unique (verified below)
{ unimplemented!() }
proof fn lemma_min_unique(s: Set<KeyId>, k: KeyId)   // [C13]
    requires is_min_kid(s, k)
    ensures min_kid(s) == k
{
    fact_kid_order();
    let m = min_kid(s);
    assert(is_min_kid(s, m));
    assert(kid_le(m, k) && kid_le(k, m));
}

//@extract src/verifylib.rs fn:reduce_chain_links props=C13,C08,C14
//@subst D15 /link_files\.iter\(\)\.try_for_each\(\|\(k, v\)\| -> Result<\(\)> \{/ => for (k, v) in link_files.iter() {
//@subst D15 /Ok\(\(\)\)\s*\}\)\?;/ => }
//@subst D18 /v\.iter\(\)\s*\.min_by\(\|a, b\| a\.0\.cmp\(b\.0\)\)/ => min_by_key_id(v)
//@subst G1 /\.map\(\|\(_, link\)\| link\)/ => .map(|p: (&KeyId, &LinkMetadata)| -> (r: &LinkMetadata) ensures r == p.1 { let (_, link) = p; link })
//@subst G2 /let mut res = HashMap::new\(\);/ => let mut res: HashMap<String, LinkMetadata> = HashMap::new();
//@contract ret=r
//@include contracts/reduce_chain_links.rs
//@before /let mut res/
    proof { fact_string_ext(); fact_keyid_key_model(); fact_kid_order(); }
//@loop 1 iter=it
        invariant
            forall|a: String, b: String| #![trigger a@, b@] a@ == b@ ==> a == b,
            vstd::std_specs::hash::obeys_key_model::<String>(),
            vstd::std_specs::hash::obeys_key_model::<KeyId>(),
            forall|a: KeyId, b: KeyId| #![trigger kid_le(a, b), kid_le(b, a)] kid_le(a, b) && kid_le(b, a) ==> a == b,
            forall|i: int| 0 <= i < it.seq().len() ==> link_files@.contains_key(*(#[trigger] it.seq()[i]).0) && link_files@[*it.seq()[i].0] == *it.seq()[i].1,
            forall|name: String| link_files@.contains_key(name) ==> exists|i: int| 0 <= i < it.seq().len() && *(#[trigger] it.seq()[i]).0 == name,
            forall|i: int| 0 <= i < it.index() ==> res@.contains_key(*(#[trigger] it.seq()[i]).0),
            forall|name: String| #[trigger] res@.contains_key(name) ==> link_files@.contains_key(name) && link_files@[name]@.len() >= 1
                && is_min_kid(link_files@[name]@.dom(), min_kid(link_files@[name]@.dom()))
                && res@[name] == link_files@[name]@[min_kid(link_files@[name]@.dom())],
//@after_loop 1
    proof {
        assert(res@.dom() =~= link_files@.dom());
        assert forall|name: String| #[trigger] link_files@.contains_key(name) implies link_files@[name]@.values().contains(res@[name]) by {
            let k = min_kid(link_files@[name]@.dom());
            assert(link_files@[name]@.dom().contains(k));
        }
    }
//@end
} // verus!
fn main() {}
