//@props C07
//@include prelude/head.rs
use std::path::{Path, PathBuf};
verus! {
//@include prelude/axioms.rs
//@include prelude/std_string.rs
//@include prelude/utf8_facts.rs
//@include prelude/error.rs
//@include prelude/std_collect.rs
//@include prelude/ring_stub.rs
//@include prelude/chrono_stub.rs
//@include prelude/crypto_types.rs
//@include prelude/models_types.rs

//@include contracts/metablock_specs.rs
//@include contracts/stage_specs.rs
// ---- C06 ----
//@extract src/verifylib.rs fn:verify_layout_expiration props=C06
//@contract ret=r
//@include contracts/verify_layout_expiration.rs
//@end


// ---- C07 ----
//@extract src/verifylib.rs fn:verify_threshold_constraints props=C07,C14
//@uncontinue
//@subst D16 /&key_link_per_step\[reference_keyid\]/ => key_link_per_step.get(reference_keyid).expect("no entry found for key")
//@contract ret=r
//@include contracts/threshold_constraints.rs
//@before /for step in &layout\.steps/
    proof { fact_string_ext(); fact_keyid_key_model(); fact_artifact_map_eq(); }
//@loop 1 iter=it1
        invariant
            forall|a: String, b: String| #![trigger a@, b@] a@ == b@ ==> a == b,
            vstd::std_specs::hash::obeys_key_model::<String>(),
            vstd::std_specs::hash::obeys_key_model::<KeyId>(),
            <ArtifactMap as vstd::std_specs::cmp::PartialEqSpec>::obeys_eq_spec(),
            forall|a: ArtifactMap, b: ArtifactMap| #[trigger] vstd::std_specs::cmp::PartialEqSpec::eq_spec(&a, &b) == (a == b),
            it1.seq().len() == layout.steps@.len(),
            forall|i: int| 0 <= i < it1.seq().len() ==> *(#[trigger] it1.seq()[i]) == layout.steps@[i],
            forall|i: int| 0 <= i < it1.index() && (#[trigger] layout.steps@[i]).threshold >= 2 ==> step_agrees(layout.steps@[i], link_files@),
//@before /let reference_link = /
        assert(key_link_per_step@.dom().contains(*reference_keyid));
//@loop 2 iter=it2
            invariant
                <ArtifactMap as vstd::std_specs::cmp::PartialEqSpec>::obeys_eq_spec(),
                forall|a: ArtifactMap, b: ArtifactMap| #[trigger] vstd::std_specs::cmp::PartialEqSpec::eq_spec(&a, &b) == (a == b),
                forall|j: int| 0 <= j < it2.index() ==> (#[trigger] it2.seq()[j]).materials == reference_link.materials && it2.seq()[j].products == reference_link.products,
//@after_loop 2
            proof {
                let m = key_link_per_step@;
                assert forall|a: KeyId, b: KeyId| m.contains_key(a) && m.contains_key(b) implies
                    m[a].materials == m[b].materials && m[a].products == m[b].products by {
                    assert(m.values().contains(m[a]));
                    assert(m.values().contains(m[b]));
                }
            }
//@end
} // verus!
fn main() {}
