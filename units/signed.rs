//@props C09
//@include prelude/head.rs
verus! {
//@include prelude/axioms.rs
//@include prelude/std_string.rs
//@include prelude/utf8_facts.rs
//@include prelude/error.rs
//@include prelude/std_collect.rs
//@include prelude/ring_stub.rs
//@include prelude/crypto_types.rs

#[verifier::external_body]
pub struct MetadataWrapper { _opaque: u8 }
impl Clone for MetadataWrapper {
    #[verifier::external_body]
    fn clone(&self) -> (r: Self) ensures r == *self { unimplemented!() }
}
//@take src/models/metadata.rs struct:Metablock drop_derives=Debug,Clone,PartialEq,Eq
//@include contracts/metablock_specs.rs

// PrivateKey: the key pair is opaque; `public` is the real field
#[verifier::external_body]
pub struct PrivateKeyType { _opaque: u8 }
//@take src/crypto.rs struct:PrivateKey
impl PrivateKey {
    pub closed spec fn pubkey(self) -> PublicKey { self.public }
    // assumed (ring correctness, key-pair consistency): what sign() returns verifies under the key's own public part
    #[verifier::external_body]
    pub fn sign(&self, msg: &[u8]) -> (r: Result<Signature>)
        ensures r is Ok ==> r->Ok_0.kid() == self.pubkey().kid() && self.pubkey().sig_ok(msg@, r->Ok_0)
    { unimplemented!() }
}
// `sig` is a signature by `key` over the signed bytes of `md`, attributed to the key's own id
pub open spec fn signed_with(sig: Signature, key: PrivateKey, md: MetadataWrapper) -> bool {
    signed_msg(md) is Some && sig.kid() == key.pubkey().kid() && key.pubkey().sig_ok(signed_msg(md)->0, sig)
}

impl Metablock {
//@extract src/models/metadata.rs impl:Metablock/fn:new props=C09,C05,C11,C14
//@subst D15 /private_keys\.iter\(\)\.try_for_each\(\|key\| -> Result<\(\)> \{/ => for key in private_keys.iter() {
//@subst D15 /Ok\(\(\)\)\s*\}\)\?;/ => }
//@contract ret=r
    ensures
        r is Ok ==> r->Ok_0.metadata == metadata,                                    // [C09]
        r is Ok ==> r->Ok_0.signatures@.len() == private_keys@.len(),                 // [C09]
        r is Ok ==> forall|i: int| 0 <= i < private_keys@.len() ==> signed_with(#[trigger] r->Ok_0.signatures@[i], *private_keys@[i], metadata),   // [C09,C05]
//@after /let raw = metadata\.to_bytes\(\)\?;/
        let ghost raw0 = raw@;
//@after /\.replace\("\\\\n", "\\n"\);/ optional
        proof { fact_replace_str_pattern(vstd::utf8::decode_utf8(raw0), "\\n", "\n"@); }
        assert(signed_msg(metadata) == Some(vstd::utf8::encode_utf8(metadata_string@)));
//@loop 1 iter=it
            invariant
                signed_msg(metadata) == Some(vstd::utf8::encode_utf8(metadata_string@)),
                it.seq().len() == private_keys@.len(),
                forall|i: int| 0 <= i < it.seq().len() ==> *(#[trigger] it.seq()[i]) == private_keys@[i],
                signatures@.len() == it.index(),
                forall|i: int| 0 <= i < it.index() ==> signed_with(#[trigger] signatures@[i], *private_keys@[i], metadata),
//@end
}

// C09: what `new` returns satisfies the completeness hypothesis of Metablock::verify (proved in units/metablock.rs)
// for threshold = number of signers, provided the signers' key ids are pairwise distinct.
proof fn lemma_new_then_verify(mb: Metablock, keys: Seq<PrivateKey>, pubs: Seq<&PublicKey>)   // [C09]
    requires
        keys.len() >= 1, pubs.len() == keys.len(),
        forall|i: int| 0 <= i < keys.len() ==> *(#[trigger] pubs[i]) == keys[i].pubkey(),
        mb.signatures@.len() == keys.len(),
        forall|i: int| 0 <= i < keys.len() ==> signed_with(#[trigger] mb.signatures@[i], keys[i], mb.metadata),
        key_ids_distinct(pubs),
    ensures
        signed_msg(mb.metadata) is Some,
        sig_ids_distinct(mb.signatures@),
        exists|good: Set<KeyId>| good.len() >= keys.len() && forall|id: KeyId| good.contains(id) ==> counted_ok(mb, pubs, id),
{
    assert(signed_with(mb.signatures@[0], keys[0], mb.metadata));
    let ids = Seq::new(keys.len(), |i: int| pubs[i].kid());
    assert(ids.no_duplicates()) by {
        assert forall|i: int, j: int| 0 <= i < ids.len() && 0 <= j < ids.len() && i != j implies ids[i] != ids[j] by {
            if i < j { assert(pubs[i].kid() != pubs[j].kid()); } else { assert(pubs[j].kid() != pubs[i].kid()); }
        }
    }
    ids.unique_seq_to_set();
    let good = ids.to_set();
    assert(good.len() == keys.len());
    assert forall|id: KeyId| good.contains(id) implies counted_ok(mb, pubs, id) by {
        let i = choose|i: int| 0 <= i < ids.len() && ids[i] == id;
        assert(signed_with(mb.signatures@[i], keys[i], mb.metadata));
        assert(pubs[i].kid() == id && mb.signatures@[i].kid() == id);
        assert(pubs[i].sig_ok(signed_msg(mb.metadata)->0, mb.signatures@[i]));
    }
    assert forall|i: int, j: int| 0 <= i < j < mb.signatures@.len() implies (#[trigger] mb.signatures@[i]).kid() != (#[trigger] mb.signatures@[j]).kid() by {
        assert(signed_with(mb.signatures@[i], keys[i], mb.metadata));
        assert(signed_with(mb.signatures@[j], keys[j], mb.metadata));
        assert(pubs[i].kid() != pubs[j].kid());
    }
}

// ---- MetablockBuilder (second construction path) ----
//@take src/models/metadata.rs struct:MetablockBuilder
// trusted std specs used by build(): HashMap::into_values + collect, slice::sort_unstable_by (a permutation)
pub open spec fn key_of_value(m: Map<KeyId, Signature>, s: Signature) -> KeyId { choose|k: KeyId| m.contains_key(k) && m[k] == s }
#[verifier::external_body]
fn map_into_values(m: HashMap<KeyId, Signature>) -> (r: Vec<Signature>)
    ensures r@.len() == m@.dom().len(),
            forall|k: KeyId| #[trigger] m@.contains_key(k) ==> r@.contains(m@[k]),
            forall|i: int| #![trigger r@[i]] 0 <= i < r@.len() ==> m@.contains_key(key_of_value(m@, r@[i])) && m@[key_of_value(m@, r@[i])] == r@[i],
{ m.into_values().collect::<Vec<_>>() }
impl PartialOrd for KeyId { #[verifier::external_body] fn partial_cmp(&self, other: &Self) -> Option<std::cmp::Ordering> { unimplemented!() } }
impl Ord for KeyId { #[verifier::external_body] fn cmp(&self, other: &Self) -> std::cmp::Ordering { unimplemented!() } }
pub assume_specification<T, F: FnMut(&T, &T) -> std::cmp::Ordering> [<[T]>::sort_unstable_by::<F>] (s: &mut [T], f: F)
    requires forall|a: &T, b: &T| #[trigger] f.requires((a, b)),
    ensures final(s)@.to_multiset() == old(s)@.to_multiset();

impl MetablockBuilder {
    pub closed spec fn sigs(self) -> Map<KeyId, Signature> { self.signatures@ }
    pub closed spec fn meta(self) -> MetadataWrapper { self.metadata }
//@extract src/models/metadata.rs impl:MetablockBuilder/fn:sign props=C09,C05,C11,C14
//@mutself
//@subst D15 /private_keys\.iter\(\)\.try_for_each\(\|key\| -> Result<\(\)> \{/ => for key in private_keys.iter() {
//@subst D15 /Ok\(\(\)\)\s*\}\)\?;/ => }
//@subst G2 /let mut signatures = HashMap::new\(\);/ => let mut signatures: HashMap<KeyId, Signature> = HashMap::new();
//@contract ret=r
    ensures
        r is Ok ==> r->Ok_0.meta() == self.meta(),                                                    // [C09]
        r is Ok ==> forall|i: int| 0 <= i < private_keys@.len() ==> r->Ok_0.sigs().contains_key(#[trigger] private_keys@[i].pubkey().kid()),   // [C09]
        r is Ok ==> forall|k: KeyId| #[trigger] r->Ok_0.sigs().contains_key(k) ==> exists|i: int| 0 <= i < private_keys@.len()
            && private_keys@[i].pubkey().kid() == k && signed_with(r->Ok_0.sigs()[k], *private_keys@[i], self.meta()),   // [C09,C05]
//@after /let raw = _self\.metadata\.to_bytes\(\)\?;/
        let ghost raw0 = raw@;
        proof { fact_keyid_key_model(); }
//@after /\.replace\("\\\\n", "\\n"\);/ optional
        proof { fact_replace_str_pattern(vstd::utf8::decode_utf8(raw0), "\\n", "\n"@); }
        assert(signed_msg(_self.metadata) == Some(vstd::utf8::encode_utf8(metadata@)));
//@loop 1 iter=it
            invariant
                vstd::std_specs::hash::obeys_key_model::<KeyId>(),
                signed_msg(_self.metadata) == Some(vstd::utf8::encode_utf8(metadata@)),
                it.seq().len() == private_keys@.len(),
                forall|i: int| 0 <= i < it.seq().len() ==> *(#[trigger] it.seq()[i]) == private_keys@[i],
                forall|i: int| 0 <= i < it.index() ==> signatures@.contains_key(#[trigger] private_keys@[i].pubkey().kid()),
                forall|k: KeyId| #[trigger] signatures@.contains_key(k) ==> exists|i: int| 0 <= i < it.index()
                    && private_keys@[i].pubkey().kid() == k && signed_with(signatures@[k], *private_keys@[i], _self.metadata),
//@end
//@extract src/models/metadata.rs impl:MetablockBuilder/fn:build props=C09,C14
//@subst D25 /self\.signatures\.into_values\(\)\.collect::<Vec<_>>\(\)/ => map_into_values(self.signatures)
//@contract ret=r
    ensures
        r.metadata == self.meta(),     // [C09]
        r.signatures@.len() == self.sigs().dom().len(),      // [C09]
        forall|k: KeyId| #[trigger] self.sigs().contains_key(k) ==> r.signatures@.contains(self.sigs()[k]),   // [C09]
        forall|i: int| #![trigger r.signatures@[i]] 0 <= i < r.signatures@.len() ==> self.sigs().contains_key(key_of_value(self.sigs(), r.signatures@[i])) && self.sigs()[key_of_value(self.sigs(), r.signatures@[i])] == r.signatures@[i],   // [C09]
//@before /let mut signatures = /
        let ghost m0 = self.signatures@;
        let ghost self0 = self;
        assert(m0 == self.sigs());
//@after /let mut signatures = /
        let ghost v0 = signatures@;
        assert(self0.sigs() == m0);
        assert(v0.len() == m0.dom().len());
        assert(forall|k: KeyId| #[trigger] m0.contains_key(k) ==> v0.contains(m0[k]));
        assert(forall|i: int| #![trigger v0[i]] 0 <= i < v0.len() ==> m0.contains_key(key_of_value(m0, v0[i])) && m0[key_of_value(m0, v0[i])] == v0[i]);
        assert(self.sigs() == m0);
//@after /signatures\.sort_unstable_by/
        proof {
            v0.to_multiset_ensures();
            signatures@.to_multiset_ensures();
            assert forall|x: Signature| v0.contains(x) <==> signatures@.contains(x) by {
                assert(v0.to_multiset().count(x) == signatures@.to_multiset().count(x));
            }
            assert forall|i: int| #![trigger signatures@[i]] 0 <= i < signatures@.len() implies m0.contains_key(key_of_value(m0, signatures@[i])) && m0[key_of_value(m0, signatures@[i])] == signatures@[i] by {
                assert(signatures@.contains(signatures@[i]));
                assert(v0.contains(signatures@[i]));
                let j = choose|j: int| 0 <= j < v0.len() && v0[j] == signatures@[i];
                assert(m0.contains_key(key_of_value(m0, v0[j])) && m0[key_of_value(m0, v0[j])] == v0[j]);
            }
        }
//@end
}
} // verus!
fn main() {}
