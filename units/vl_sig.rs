//@props C02
//@include prelude/head.rs
use std::path::{Path, PathBuf};
verus! {
//@include prelude/axioms.rs
//@include prelude/std_string.rs
//@include prelude/utf8_facts.rs
//@include prelude/error.rs
//@include prelude/std_collect.rs
//@include prelude/ring_stub.rs
//@include prelude/chrono_stub.rs
//@include prelude/crypto_types.rs
//@include prelude/models_types.rs

//@include contracts/metablock_specs.rs
//@include contracts/metablock_stub.rs
//@include contracts/stage_specs.rs
//@include lemmas/owner_gate.rs

proof fn lemma_counted_in_table(mb: Metablock, m: Map<KeyId, PublicKey>, ks: Seq<&PublicKey>, id: KeyId)   // [C01]
    requires ks.unref().to_set() == m.values(), counted_ok(mb, ks, id)
    ensures table_key_signed(mb, m, id)
{
    let (i, j) = choose|i: int, j: int| 0 <= i < ks.len() && 0 <= j < mb.signatures@.len()
        && (#[trigger] ks[i]).kid() == id && (#[trigger] mb.signatures@[j]).kid() == id
        && ks[i].sig_ok(signed_msg(mb.metadata)->0, mb.signatures@[j]);
    assert(ks.unref()[i] == *ks[i]);
    assert(ks.unref().to_set().contains(*ks[i]));
    assert(m.values().contains(*ks[i]));
    let k = choose|k: KeyId| m.dom().contains(k) && #[trigger] m[k] == *ks[i];
    assert(m.contains_key(k) && m[k].kid() == id && m[k].sig_ok(signed_msg(mb.metadata)->0, mb.signatures@[j]));
}

//@extract src/verifylib.rs fn:verify_layout_signatures props=C01,C08
//@contract ret=r
//@include contracts/verify_layout_signatures.rs
//@before /layout\.verify\(/
    proof { fact_keys_of_values(); fact_keyid_key_model(); }
//@bind_tail res
    proof {
        if res is Ok {
            assert forall|ks: Seq<&PublicKey>, id: KeyId| ks.unref().to_set() == layout_keys@.values() && #[trigger] counted_ok(*layout, ks, id)
                implies table_key_signed(*layout, layout_keys@, id) by { lemma_counted_in_table(*layout, layout_keys@, ks, id); }
        }
    }
//@end


//@include contracts/keyid_stub.rs

//@include contracts/match_signatures_spec.rs
//@extract src/verifylib.rs fn:match_signatures props=C02,C07,C14
//@subst D13 /sig\.key_id\(\)\.prefix\(\) == signer_short_key_id/ => sig.key_id().prefix().as_str() == signer_short_key_id
//@contract
//@include contracts/match_signatures.rs
//@before /for sig in &link_metablock\.signatures/
    let ghost map0 = links_per_step@;
    let ghost mb = link_metablock;
    let ghost short = signer_short_key_id@;
    proof { fact_keyid_key_model(); }
//@loop 1 iter=it
        invariant_except_break
            mb == link_metablock,
            links_per_step@ == map0,
            forall|i: int| 0 <= i < it.index() ==> !prefix_matches(mb, i, short),
        invariant
            vstd::std_specs::hash::obeys_key_model::<KeyId>(),
            it.seq().len() == mb.signatures@.len(),
            forall|i: int| 0 <= i < it.seq().len() ==> *(#[trigger] it.seq()[i]) == mb.signatures@[i],
            short == signer_short_key_id@,
        ensures
            (links_per_step@ == map0 && forall|i: int| 0 <= i < mb.signatures@.len() ==> !prefix_matches(mb, i, short))
            || (exists|j: int| #[trigger] prefix_matches(mb, j, short)
                && (forall|i: int| 0 <= i < j ==> !prefix_matches(mb, i, short))
                && links_per_step@ == map0.insert(mb.signatures@[j].kid(), mb)),
//@before /if sig\.key_id\(\)\.prefix\(\)/
        assert(*sig == mb.signatures@[it.index() as int]);
//@before /break;/
            proof {
                let j = it.index() as int;
                assert(prefix_matches(mb, j, short));
                assert(mb.signatures@[j].kid() == sig.kid());
                assert(links_per_step@.contains_key(sig.kid()));
                assert(links_per_step@[sig.kid()] == mb);
                assert(links_per_step@ =~= map0.insert(mb.signatures@[j].kid(), mb));
            }
//@end

//@extract src/verifylib.rs fn:verify_link_signature_thresholds_step props=C02,C07,C12,C13,C15,C14
//@contract ret=r
//@include contracts/thresholds_step.rs
//@before /let mut metablocks = HashMap::new\(\);/
    proof { fact_keyid_key_model(); fact_keys_of_vec(); }
//@loop 1 iter=it
        invariant
            vstd::std_specs::hash::obeys_key_model::<KeyId>(),
            forall|v: Vec<&PublicKey>| #[trigger] keys_of::<Vec<&PublicKey>>(v) == v@,
            forall|i: int| 0 <= i < it.seq().len() ==> links@.contains_key(*(#[trigger] it.seq()[i]).0) && links@[*it.seq()[i].0] == *it.seq()[i].1,
            forall|k: KeyId| #[trigger] metablocks@.contains_key(k) ==>
                links@.contains_key(k) && metablocks@[k] == links@[k]
                && step.pub_keys@.contains(k)
                && pubkeys@.contains_key(k)
                && signed_by(links@[k], pubkeys@[k]),
            forall|k: KeyId| #[trigger] metablocks@.contains_key(k) ==> link_counts(*step, links@, pubkeys@, k),
            forall|i: int| 0 <= i < it.index() ==> (link_counts(*step, links@, pubkeys@, *(#[trigger] it.seq()[i]).0) ==> metablocks@.contains_key(*it.seq()[i].0)),
            forall|k: KeyId| links@.contains_key(k) ==> exists|i: int| 0 <= i < it.seq().len() && *(#[trigger] it.seq()[i]).0 == k,
//@after_loop 1
    proof {
        assert(metablocks@.dom() =~= counting_links(*step, links@, pubkeys@));
    }
//@before /let authorized_key = vec!\[authorized_key\];/
            let ghost ak = *authorized_key;
//@after /let authorized_key = vec!\[authorized_key\];/
            assert(authorized_key@ =~= seq![&ak]);
//@before /metablocks$/
                proof {
                    let kk = *signer_key_id;
                    assert(links@.contains_key(kk) && links@[kk] == *link_metablock);
                    assert(pubkeys@.contains_key(kk) && pubkeys@[kk] == ak);
                    let good = choose|good: Set<KeyId>| good.len() >= 1 && forall|id: KeyId| good.contains(id) ==> counted_ok(*link_metablock, seq![&ak], id);
                    if forall|id: KeyId| !good.contains(id) { assert(good =~= Set::<KeyId>::empty()); assert(false); }
                    let id = choose|id: KeyId| good.contains(id);
                    assert(good.contains(id));
                    assert(counted_ok(*link_metablock, seq![&ak], id));
                    assert(id == ak.kid());
                    assert(signed_by(links@[kk], pubkeys@[kk]));
                }
//@end

//@extract src/verifylib.rs fn:verify_link_signature_thresholds props=C02,C08,C14
//@subst G2 /let mut metadata_verified = HashMap::new\(\);/ => let mut metadata_verified: HashMap<String, HashMap<KeyId, Metablock>> = HashMap::new();
//@contract ret=r
//@include contracts/thresholds.rs
//@before /let mut metadata_verified/
    proof { fact_string_ext(); fact_keyid_key_model(); }
//@loop 1 iter=it
        invariant
            forall|a: String, b: String| #![trigger a@, b@] a@ == b@ ==> a == b,
            vstd::std_specs::hash::obeys_key_model::<String>(),
            vstd::std_specs::hash::obeys_key_model::<KeyId>(),
            it.seq().len() == layout.steps@.len(),
            forall|i: int| 0 <= i < it.seq().len() ==> *(#[trigger] it.seq()[i]) == layout.steps@[i],
            forall|i: int| 0 <= i < it.index() ==> metadata_verified@.contains_key(#[trigger] layout.steps@[i].name),
            forall|name: String| #[trigger] metadata_verified@.contains_key(name) ==> exists|j: int| 0 <= j < layout.steps@.len()
                && layout.steps@[j].name == name
                && step_links_ok(layout.steps@[j], links_of(steps_links_metadata@, name), layout.keys@, metadata_verified@[name]@)
                && step_links_exact(layout.steps@[j], links_of(steps_links_metadata@, name), layout.keys@, metadata_verified@[name]@),
//@end
} // verus!
fn main() {}
