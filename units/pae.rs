//@props C20,C14
//@include prelude/head.rs
use std::str;
verus! {
//@include prelude/axioms.rs
//@include prelude/std_string.rs
//@include prelude/utf8_facts.rs
//@include prelude/std_slice.rs
//@include prelude/vdisp.rs
//@include lemmas/pae.rs

//@include prelude/error.rs

//@take src/models/envelope/pae_v1.rs const:PREFIX
//@take src/models/envelope/pae_v1.rs const:SPLIT
//@take src/models/envelope/pae_v1.rs const:SPLIT_U8
//@take src/models/envelope/pae_v1.rs struct:PaeV1

//@extract src/models/envelope/pae_v1.rs fn:consume_load_len props=C20,C14 panics=C20
//@subst G1 /\|num\| \*num == SPLIT_U8/ => |num: &u8| -> (b: bool) ensures b == (*num == 0x20u8) { *num == SPLIT_U8 }
//@contract ret=r
    ensures r is Ok <==> spec_consume(raw@) is Some,  // [C20]
            r is Ok ==> (r->Ok_0).0 == (spec_consume(raw@)->0).0 && (r->Ok_0).1@ == (spec_consume(raw@)->0).1,  // [C20]
//@after /let mut iter = raw\.splitn/
    proof { assert(splitn_pieces(iter) == split2(raw@, is_sp())); }
//@before /let length =/
    proof {
        assert forall|s: Seq<char>| #[trigger] vstd::utf8::encode_utf8(s) == length_raw@ implies vstd::utf8::decode_utf8(length_raw@) == s by {
            vstd::utf8::encode_utf8_decode_utf8(s);
        }
    }
//@end

impl PaeV1 {
//@extract src/models/envelope/pae_v1.rs "impl:DSSEParser for PaeV1/fn:pae_pack" props=C20,C14 panics=C20
//@fmt 1
//@subst D11 /\[sig_header\.as_bytes\(\), payload\]\.concat\(\)/ => concat2_u8(sig_header.as_bytes(), payload)
//@contract ret=r
    ensures r@ == spec_pae(payload_ver@, payload@),  // [C20]
//@end
//@extract src/models/envelope/pae_v1.rs "impl:DSSEParser for PaeV1/fn:pae_unpack" props=C20,C14 panics=C20
//@contract ret=r
    ensures r is Ok <==> spec_unpack(bytes@) is Some,  // [C20]
            r is Ok ==> (r->Ok_0).0@ == (spec_unpack(bytes@)->0).0 && (r->Ok_0).1@ == (spec_unpack(bytes@)->0).1,  // [C20]
//@fmt 1
//@before /let raw = bytes/
        proof {
            assert forall|p: &[u8]| #[trigger] slice_pattern_view::<u8, [u8]>(p) == p@ by { fact_slice_pattern_u8(p); }
        }
//@before /let payload_ver = str::from_utf8/
        proof {
            assert forall|s: Seq<char>| #[trigger] vstd::utf8::encode_utf8(s) == raw@.subrange(0, payload_ver_len as int)
                implies vstd::utf8::decode_utf8(raw@.subrange(0, payload_ver_len as int)) == s by {
                vstd::utf8::encode_utf8_decode_utf8(s);
            }
            assert forall|s: Seq<char>| (#[trigger] parse_spec::<String>(s)) is Some && parse_spec::<String>(s)->0@ == s by { fact_parse_string(s); }
        }
//@end
}

} // verus!
fn main() {}
