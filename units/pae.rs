//@props C20,C14
//@include prelude/head.rs
use std::str;
verus! {
//@include prelude/axioms.rs
//@include prelude/std_string.rs
//@include prelude/utf8_facts.rs
//@include prelude/std_slice.rs
//@include prelude/vdisp.rs
//@include lemmas/pae.rs

//@include prelude/error.rs

//@take src/models/envelope/pae_v1.rs const:PREFIX
//@take src/models/envelope/pae_v1.rs const:SPLIT
//@take src/models/envelope/pae_v1.rs const:SPLIT_U8
//@take src/models/envelope/pae_v1.rs struct:PaeV1

//@extract src/models/envelope/pae_v1.rs fn:consume_load_len props=C20,C14
//@end

impl PaeV1 {
//@extract src/models/envelope/pae_v1.rs "impl:DSSEParser for PaeV1/fn:pae_pack" props=C20,C14
//@fmt 1
//@subst D11 /\[sig_header\.as_bytes\(\), payload\]\.concat\(\)/ => concat2_u8(sig_header.as_bytes(), payload)
//@contract ret=r
    ensures r@ == spec_pae(payload_ver@, payload@),  // [C20]
//@end
//@extract src/models/envelope/pae_v1.rs "impl:DSSEParser for PaeV1/fn:pae_unpack" props=C20,C14
//@end
}

} // verus!
fn main() {}
