//@props C18
//@include prelude/head.rs
use std::io::Read;
use std::io::BufReader;
use std::fs::File;
verus! {
//@include prelude/axioms.rs
//@include prelude/std_string.rs
//@include prelude/utf8_facts.rs
//@include prelude/error.rs
//@include contracts/hash_specs.rs
//@include contracts/lstrip_specs.rs

pub type TargetDescription = HashMap<HashAlgorithm, HashValue>;
//@take src/models/helpers.rs struct:VirtualTargetPath drop_derives=Debug,Clone,PartialEq,Eq,PartialOrd,Ord,Hash
impl VirtualTargetPath {
    pub closed spec fn text(self) -> Seq<char> { self.0@ }
//@extract src/models/helpers.rs impl:VirtualTargetPath/fn:new props=C18,C14
//@contract ret=r
    ensures r is Ok && r->Ok_0.text() == path@,
//@end
}

//@include contracts/record_specs.rs
pub mod crypto {
    use super::*;
//@extract src/crypto.rs fn:calculate_hashes stub
//@contract ret=r
//@include contracts/calculate_hashes.rs
//@end
}
//@extract src/runlib.rs fn:apply_left_strip stub
//@contract ret=r
//@include contracts/apply_left_strip.rs
//@end

// C18: one recorded artifact = (path with the longest strip-prefix removed, digests of ALL bytes of the file opened at `path`)
//@extract src/runlib.rs fn:record_artifact props=C18,C14
//@contract ret=r
//@include contracts/record_artifact.rs
//@before /let file = File::open\(path\)\?;/
    proof { fact_path_text_str(); }
//@after /let file = File::open\(path\)\?;/
    let ghost f0 = file;
    proof { fact_file_len(f0); fact_rest_file(f0); fact_rest_mut_ref(); }
//@end
} // verus!
fn main() {}
