//@props C18
//@include prelude/head.rs
use std::io::Read;
use std::io::BufReader;
use std::fs::File;
verus! {
//@include prelude/axioms.rs
//@include prelude/std_string.rs
//@include prelude/utf8_facts.rs
//@include prelude/error.rs
//@include contracts/hash_specs.rs
//@include contracts/lstrip_specs.rs

pub type TargetDescription = HashMap<HashAlgorithm, HashValue>;
//@take src/models/helpers.rs struct:VirtualTargetPath drop_derives=Debug,Clone,PartialEq,Eq,PartialOrd,Ord,Hash
impl VirtualTargetPath {
    pub closed spec fn text(self) -> Seq<char> { self.0@ }
//@extract src/models/helpers.rs impl:VirtualTargetPath/fn:new props=C18,C14
//@contract ret=r
    ensures r is Ok && r->Ok_0.text() == path@,
//@end
}

// ---- trusted stubs: the file system as seen through File::open / BufReader ----
#[verifier::external_type_specification]
#[verifier::external_body]
pub struct ExFile(std::fs::File);
#[verifier::external_type_specification]
#[verifier::external_body]
#[verifier::reject_recursive_types(R)]
pub struct ExBufReader<R: ?Sized>(std::io::BufReader<R>);
// the content of the file an open handle refers to, and which path it was opened from
pub uninterp spec fn file_bytes(f: File) -> Seq<u8>;
pub uninterp spec fn opened_from(f: File) -> Seq<char>;
pub uninterp spec fn path_text<P>(p: P) -> Seq<char>;
pub assume_specification<P: AsRef<std::path::Path>> [File::open::<P>] (path: P) -> (r: std::io::Result<File>)
    ensures r is Ok ==> opened_from(r->Ok_0) == path_text(path);
#[verifier::external_body]
pub proof fn fact_path_text_str()
    ensures forall|s: &str| #[trigger] path_text::<&str>(s) == s@
{}
// BufReader only buffers: it delivers exactly the bytes of the underlying file
pub assume_specification<R: Read> [BufReader::<R>::new] (inner: R) -> (r: BufReader<R>)
    ensures rest(r) == rest(inner);
#[verifier::external_body]
pub proof fn fact_rest_file(f: File)
    ensures rest(f) == file_bytes(f)
{}
// a `&mut R` reads from the reader it points to
#[verifier::external_body]
pub proof fn fact_rest_mut_ref()
    ensures forall|r: &mut BufReader<File>| #[trigger] rest::<&mut BufReader<File>>(r) == rest::<BufReader<File>>(*r)
{}
// a file holds fewer than 2^64 bytes
#[verifier::external_body]
pub proof fn fact_file_len(f: File)
    ensures file_bytes(f).len() <= u64::MAX
{}

pub mod crypto {
    use super::*;
//@extract src/crypto.rs fn:calculate_hashes stub
//@contract ret=r
//@include contracts/calculate_hashes.rs
//@end
}
//@extract src/runlib.rs fn:apply_left_strip stub
//@contract ret=r
//@include contracts/apply_left_strip.rs
//@end

// C18: one recorded artifact = (path with the longest strip-prefix removed, digests of ALL bytes of the file opened at `path`)
//@extract src/runlib.rs fn:record_artifact props=C18,C14
//@contract ret=r
    ensures
        r is Ok ==> exists|f: File| opened_from(f) == path@
            && forall|i: int| 0 <= i < hash_algorithms@.len() ==> (#[trigger] r->Ok_0.1@.contains_key(hash_algorithms@[i]))
                && r->Ok_0.1@[hash_algorithms@[i]].bytes() == digest::digest_of(alg_id(hash_algorithms@[i]), file_bytes(f)),   // [C18]
        r is Ok && lstrip_paths is None ==> r->Ok_0.0.text() == path@,   // [C18]
        r is Ok && lstrip_paths is Some && (exists|j: int| 0 <= j < lstrip_paths->0@.len() && is_prefix(#[trigger] lstrip_paths->0@[j]@, path@)) ==>
            exists|i: int| best_prefix(path@, lstrip_paths->0@, i) && r->Ok_0.0.text() == path@.subrange(#[trigger] lstrip_paths->0@[i]@.len() as int, path@.len() as int),   // [C18]
        r is Ok && lstrip_paths is Some && (forall|j: int| 0 <= j < lstrip_paths->0@.len() ==> !is_prefix(#[trigger] lstrip_paths->0@[j]@, path@)) ==> r->Ok_0.0.text() == path@,   // [C18]
//@before /let file = File::open\(path\)\?;/
    proof { fact_path_text_str(); }
//@after /let file = File::open\(path\)\?;/
    let ghost f0 = file;
    proof { fact_file_len(f0); fact_rest_file(f0); fact_rest_mut_ref(); }
//@end
} // verus!
fn main() {}
