//@props C18
//@include prelude/head.rs
verus! {
//@include prelude/axioms.rs
//@include prelude/std_string.rs
//@include prelude/utf8_facts.rs
//@include prelude/error.rs
//@include prelude/std_collect.rs
//@include prelude/ring_stub.rs
//@include prelude/chrono_stub.rs
//@include prelude/crypto_types.rs
//@include prelude/models_types.rs
//@include contracts/inspections.rs
//@include contracts/link_builder.rs MODE=stub

pub open spec fn strs(v: Seq<&str>) -> Seq<Seq<char>> { Seq::new(v.len(), |i: int| v[i]@) }
pub open spec fn opt_text(d: Option<&str>) -> Option<Seq<char>> { match d { Some(s) => Some(s@), None => None } }
#[verifier::external_body]
pub struct PrivateKey { _opaque: u8 }
// `recorded(paths, m)`: m is what runlib::record_artifacts returned for these paths at the moment it was called
pub uninterp spec fn recorded(paths: Seq<Seq<char>>, m: ArtifactMap) -> bool;
//@extract src/runlib.rs fn:record_artifacts stub
//@contract ret=r
    ensures r is Ok ==> recorded(strs(paths@), r->Ok_0),
//@end
//@extract src/runlib.rs fn:run_command stub
//@contract ret=r
//@include contracts/run_command.rs
//@end
impl Metablock {
//@extract src/models/metadata.rs impl:Metablock/fn:new stub
//@contract ret=r
    ensures r is Ok ==> r->Ok_0.metadata == metadata,     // proved in unit signed (C09)
//@end
}
// Metadata::into_enum for a boxed link (real code)
//@extract src/models/link/metadata.rs "impl:Metadata for LinkMetadata/fn:into_enum" props=C18 as=link_into_enum
//@subst D28 /fn into_enum\(self: Box<Self>\) -> MetadataWrapper/ => fn link_into_enum(_self: Box<LinkMetadata>) -> MetadataWrapper
//@subst D28 /\*self/ => *_self
//@contract ret=r
    ensures r == MetadataWrapper::Link(*_self),
//@end
pub struct Json;
impl LinkMetadataBuilder {
//@extract src/models/link/metadata.rs impl:LinkMetadataBuilder/fn:signed props=C18,C14
//@subst D7 /pub fn signed<D>\(self, private_key: &PrivateKey\) -> Result<Metablock>\s*where\s*D: DataInterchange,/ => pub fn signed(self, private_key: &PrivateKey) -> Result<Metablock>
//@subst D28 /Box::new\(self\.build\(\)\?\)\.into_enum\(\)/ => link_into_enum(Box::new(self.build()?))
//@contract ret=r
    ensures r is Ok ==> r->Ok_0.metadata == MetadataWrapper::Link(self.st()),
//@end
//@extract src/models/link/metadata.rs impl:LinkMetadataBuilder/fn:unsigned props=C18,C14
//@subst D7 /pub fn unsigned<D>\(self\) -> Result<Metablock>\s*where\s*D: DataInterchange,/ => pub fn unsigned(self) -> Result<Metablock>
//@subst D28 /Box::new\(self\.build\(\)\?\)\.into_enum\(\)/ => link_into_enum(Box::new(self.build()?))
//@contract ret=r
    ensures r is Ok ==> r->Ok_0.metadata == MetadataWrapper::Link(self.st()),
//@end
}

// C18 (last sentence) / C08: the link of a run carries the recorded materials, the byproducts run_command reported, the recorded products
//@extract src/runlib.rs fn:in_toto_run props=C18,C08,C14
//@subst D7 /\.signed::<Json>\(k\)/ => .signed(k)
//@subst D7 /\.unsigned::<Json>\(\)/ => .unsigned()
//@contract ret=r
//@include contracts/in_toto_run.rs
            r is Ok ==> recorded(strs(material_paths@), r->Ok_0.metadata->Link_0.materials) && recorded(strs(product_paths@), r->Ok_0.metadata->Link_0.products),   // [C18]
//@after /let byproducts = run_command\(cmd_args, run_dir\)\?;/
    let ghost bp0 = byproducts;
//@before /Sign the link with key param supplied/
    let ghost l0 = link_metadata_builder.st();
    assert(l0.byproducts == bp0);
    assert(l0.name@ == name@);
    assert(ran_as(name@, strs(cmd_args@), l0));
//@end
} // verus!
fn main() {}
