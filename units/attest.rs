//@props C19
//@include prelude/head.rs
verus! {
//@include prelude/axioms.rs
//@include prelude/std_string.rs
//@include prelude/utf8_facts.rs
//@include prelude/error.rs
//@include prelude/std_collect.rs
//@include prelude/ring_stub.rs
//@include prelude/chrono_stub.rs
//@include prelude/crypto_types.rs
//@include prelude/models_types.rs

// a str / String is determined by its text
#[verifier::external_body]
pub proof fn fact_str_ext() ensures forall|a: &str, b: &str| #![trigger a@, b@] a@ == b@ ==> a == b {}

// ---- version tags (real enums) and their string codecs ----
//@take src/models/statement/mod.rs enum:StatementVer drop_derives=Debug,Hash,Clone
//@take src/models/predicate/mod.rs enum:PredicateVer drop_derives=Debug,Hash,Clone
impl Clone for StatementVer { #[verifier::external_body] fn clone(&self) -> (r: Self) ensures r == *self { unimplemented!() } }

impl Clone for PredicateVer { #[verifier::external_body] fn clone(&self) -> (r: Self) ensures r == *self { unimplemented!() } }


pub open spec fn statement_ver_text(v: StatementVer) -> Seq<char> {
    match v { StatementVer::Naive => "link"@, StatementVer::V0_1 => "https://in-toto.io/Statement/v0.1"@ }
}
pub open spec fn predicate_ver_text(v: PredicateVer) -> Seq<char> {
    match v {
        PredicateVer::LinkV0_2 => "https://in-toto.io/Link/v0.2"@,
        PredicateVer::SLSAProvenanceV0_1 => "https://slsa.dev/provenance/v0.1"@,
        PredicateVer::SLSAProvenanceV0_2 => "https://slsa.dev/provenance/v0.2"@,
    }
}
impl StatementVer {
//@extract src/models/statement/mod.rs "impl:TryFrom<String> for StatementVer/fn:try_from" props=C19,C14 as=StatementVer::try_from
//@contract ret=r
    ensures forall|v: StatementVer| #[trigger] statement_ver_text(v) == target@ ==> r == Ok::<StatementVer, Error>(v),   // [C19]
            r is Ok ==> statement_ver_text(r->Ok_0) == target@,                                                          // [C19]
//@before /match target\.as_str\(\) \{/
        proof { fact_str_ext(); }
//@end
//@extract src/models/statement/mod.rs "impl:From<StatementVer> for String/fn:from" props=C19 as=StatementVer::into_string
//@subst D28 /fn from\(value: StatementVer\) -> Self/ => fn into_string(value: StatementVer) -> String
//@contract ret=r
    ensures r@ == statement_ver_text(value),   // [C19]
//@end
}
impl PredicateVer {
//@extract src/models/predicate/mod.rs "impl:TryFrom<String> for PredicateVer/fn:try_from" props=C19,C14 as=PredicateVer::try_from
//@contract ret=r
    ensures forall|v: PredicateVer| #[trigger] predicate_ver_text(v) == target@ ==> r == Ok::<PredicateVer, Error>(v),   // [C19]
            r is Ok ==> predicate_ver_text(r->Ok_0) == target@,                                                          // [C19]
//@before /match target\.as_str\(\) \{/
        proof { fact_str_ext(); lemma_predicate_ver_text_injective(); }
//@end
//@extract src/models/predicate/mod.rs "impl:From<PredicateVer> for String/fn:from" props=C19 as=PredicateVer::into_string
//@subst D28 /fn from\(value: PredicateVer\) -> Self/ => fn into_string(value: PredicateVer) -> String
//@contract ret=r
    ensures r@ == predicate_ver_text(value),   // [C19]
//@end
}
// the two tables are injective, hence try_from(String::from(v)) == Ok(v)
proof fn lemma_statement_ver_text_injective()   // [C19]
    ensures forall|a: StatementVer, b: StatementVer| #![trigger statement_ver_text(a), statement_ver_text(b)] statement_ver_text(a) == statement_ver_text(b) ==> a == b
{
    reveal_strlit("link"); reveal_strlit("https://in-toto.io/Statement/v0.1");
    assert("link"@.len() == 4);
    assert("https://in-toto.io/Statement/v0.1"@.len() == 33);
}
proof fn lemma_predicate_ver_text_injective()   // [C19]
    ensures forall|a: PredicateVer, b: PredicateVer| #![trigger predicate_ver_text(a), predicate_ver_text(b)] predicate_ver_text(a) == predicate_ver_text(b) ==> a == b
{
    reveal_strlit("https://in-toto.io/Link/v0.2"); reveal_strlit("https://slsa.dev/provenance/v0.1"); reveal_strlit("https://slsa.dev/provenance/v0.2");
    assert("https://in-toto.io/Link/v0.2"@.len() == 28);
    assert("https://slsa.dev/provenance/v0.1"@.len() == 32);
    assert("https://slsa.dev/provenance/v0.2"@.len() == 32);
    assert("https://slsa.dev/provenance/v0.1"@[31] == '1');
    assert("https://slsa.dev/provenance/v0.2"@[31] == '2');
}

// ---- predicates: the version a predicate reports is the variant it wraps into (C19) ----
#[verifier::external_body] pub struct LinkV02 { _o: u8 }
#[verifier::external_body] pub struct SLSAProvenanceV01 { _o: u8 }
#[verifier::external_body] pub struct SLSAProvenanceV02 { _o: u8 }
//@take src/models/predicate/mod.rs enum:PredicateWrapper drop_derives=Debug,Clone,PartialEq,Eq
pub open spec fn wrapper_ver(w: PredicateWrapper) -> PredicateVer {
    match w {
        PredicateWrapper::LinkV0_2(_) => PredicateVer::LinkV0_2,
        PredicateWrapper::SLSAProvenanceV0_1(_) => PredicateVer::SLSAProvenanceV0_1,
        PredicateWrapper::SLSAProvenanceV0_2(_) => PredicateVer::SLSAProvenanceV0_2,
    }
}
// the trait declaration of src/models/predicate/mod.rs with its contract (ghost `ver_spec` added)
pub trait PredicateLayout {
    spec fn ver_spec(&self) -> PredicateVer;
    fn to_bytes(&self) -> Result<Vec<u8>>;
    fn into_enum(self: Box<Self>) -> (r: PredicateWrapper)
        ensures wrapper_ver(r) == self.ver_spec();     // [C19]
    fn version(&self) -> (r: PredicateVer)
        ensures r == self.ver_spec();                  // [C19]
}
impl PredicateLayout for LinkV02 {
    open spec fn ver_spec(&self) -> PredicateVer { PredicateVer::LinkV0_2 }
    #[verifier::external_body] fn to_bytes(&self) -> Result<Vec<u8>> { unimplemented!() }
//@extract src/models/predicate/link_v02.rs "impl:PredicateLayout for LinkV02/fn:into_enum" props=C19
//@end
//@extract src/models/predicate/link_v02.rs "impl:PredicateLayout for LinkV02/fn:version" props=C19
//@end
}
impl PredicateLayout for SLSAProvenanceV01 {
    open spec fn ver_spec(&self) -> PredicateVer { PredicateVer::SLSAProvenanceV0_1 }
    #[verifier::external_body] fn to_bytes(&self) -> Result<Vec<u8>> { unimplemented!() }
//@extract src/models/predicate/slsa_provenance_v01.rs "impl:PredicateLayout for SLSAProvenanceV01/fn:into_enum" props=C19
//@end
//@extract src/models/predicate/slsa_provenance_v01.rs "impl:PredicateLayout for SLSAProvenanceV01/fn:version" props=C19
//@end
}
impl PredicateLayout for SLSAProvenanceV02 {
    open spec fn ver_spec(&self) -> PredicateVer { PredicateVer::SLSAProvenanceV0_2 }
    #[verifier::external_body] fn to_bytes(&self) -> Result<Vec<u8>> { unimplemented!() }
//@extract src/models/predicate/slsa_provenance_v02.rs "impl:PredicateLayout for SLSAProvenanceV02/fn:into_enum" props=C19
//@end
//@extract src/models/predicate/slsa_provenance_v02.rs "impl:PredicateLayout for SLSAProvenanceV02/fn:version" props=C19
//@end
}

// ---- building statements from link metadata (C19) ----
//@take src/models/statement/state_naive.rs struct:StateNaive drop_derives=Debug,Clone,PartialEq,Eq
//@take src/models/statement/state_v01.rs struct:StateV01 drop_derives=Debug,Clone,PartialEq,Eq
impl std::fmt::Display for StatementVer { #[verifier::external_body] fn fmt(&self, f: &mut std::fmt::Formatter) -> std::fmt::Result { unimplemented!() } }
// `impl From<..Ver> for String` (bodies verified above as ..Ver::into_string); `.into()` goes through vstd's FromSpec
pub uninterp spec fn statement_ver_string(v: StatementVer) -> String;
pub uninterp spec fn predicate_ver_string(v: PredicateVer) -> String;
#[verifier::external_body]
pub proof fn fact_ver_strings()
    ensures forall|v: StatementVer| #[trigger] statement_ver_string(v)@ == statement_ver_text(v),
            forall|v: PredicateVer| #[trigger] predicate_ver_string(v)@ == predicate_ver_text(v),
{}
impl vstd::std_specs::convert::FromSpecImpl<StatementVer> for String {
    open spec fn obeys_from_spec() -> bool { true }
    open spec fn from_spec(v: StatementVer) -> String { statement_ver_string(v) }
}
impl From<StatementVer> for String { fn from(value: StatementVer) -> (r: String) { let r = StatementVer::into_string(value); proof { fact_string_ext(); fact_ver_strings(); assert(r@ == statement_ver_string(value)@); } r } }
impl vstd::std_specs::convert::FromSpecImpl<PredicateVer> for String {
    open spec fn obeys_from_spec() -> bool { true }
    open spec fn from_spec(v: PredicateVer) -> String { predicate_ver_string(v) }
}
impl From<PredicateVer> for String { fn from(value: PredicateVer) -> (r: String) { let r = PredicateVer::into_string(value); proof { fact_string_ext(); fact_ver_strings(); assert(r@ == predicate_ver_string(value)@); } r } }
impl StateNaive {
    pub closed spec fn link_view(self) -> LinkMetadata {
        LinkMetadata { name: self.name, materials: self.materials, products: self.products, env: self.env, byproducts: self.byproducts, command: self.command }
    }
    pub closed spec fn typ_text(self) -> Seq<char> { self.typ@ }
//@extract src/models/statement/state_naive.rs "impl:FromMerge for StateNaive/fn:merge" props=C19,C14 as=StateNaive::merge
//@contract ret=r
    ensures
        predicate is Some ==> r is Err,                                                     // [C19]
        predicate is None ==> r is Ok && r->Ok_0.link_view() == meta && r->Ok_0.typ_text() == statement_ver_text(StatementVer::Naive),   // [C19]
//@before /let version = StatementVer::Naive\.into\(\);/
        proof { fact_ver_strings(); }
//@end
}
impl StateV01 {
    pub closed spec fn subject_v(self) -> ArtifactMap { self.subject }
    pub closed spec fn predicate_type_v(self) -> PredicateVer { self.predicate_type }
    pub closed spec fn predicate_v(self) -> PredicateWrapper { self.predicate }
    pub closed spec fn typ_text(self) -> Seq<char> { self.typ@ }
//@extract src/models/statement/state_v01.rs "impl:FromMerge for StateV01/fn:merge" props=C19,C14 as=StateV01::merge
//@contract ret=r
    ensures
        predicate is None ==> r is Err,                                                     // [C19]
        predicate is Some ==> r is Ok && r->Ok_0.subject_v() == meta.products
            && r->Ok_0.predicate_type_v() == wrapper_ver(r->Ok_0.predicate_v())           // declared type names the contained predicate's format
            && r->Ok_0.predicate_type_v() == predicate->0.ver_spec()
            && r->Ok_0.typ_text() == statement_ver_text(StatementVer::V0_1),               // [C19]
//@before /let version = StatementVer::V0_1\.into\(\);/
        proof { fact_ver_strings(); }
//@end
}
} // verus!
fn main() {}
