//! C10 / C05 / C11 witnesses: canonical JSON on the real code.
use crate::util::no_panic;
use crate::Report;
use in_toto::interchange::{DataInterchange, Json};
use serde_json::{json, Value};

/// the canonical encoding, asked of BOTH interchange types the crate offers (they must agree on every value)
fn canon(v: &Value) -> Result<Vec<u8>, String> {
    let one = |r: Result<in_toto::Result<Vec<u8>>, String>| -> Result<Vec<u8>, String> { match r { Ok(Ok(b)) => Ok(b), Ok(Err(e)) => Err(format!("Err({})", e)), Err(p) => Err(format!("panic: {}", p)) } };
    let a = one(no_panic(|| Json::canonicalize(v)));
    let b = one(no_panic(|| in_toto::interchange::JsonPretty::canonicalize(v)));
    match (&a, &b) {
        (Ok(x), Ok(y)) if x == y => a,
        (Err(x), Err(y)) if x.starts_with("Err") == y.starts_with("Err") => a,
        _ => Err(format!("interchanges disagree: Json -> {:?}, JsonPretty -> {:?}", a.as_ref().map(|x| String::from_utf8_lossy(x).to_string()), b.as_ref().map(|x| String::from_utf8_lossy(x).to_string()))),
    }
}

/// independent reference writer (sorted keys, no whitespace, serde_json string tokens, exact integers)
fn reference(v: &Value, out: &mut Vec<u8>) -> Result<(), ()> {
    match v {
        Value::Null => out.extend_from_slice(b"null"),
        Value::Bool(b) => out.extend_from_slice(if *b { b"true" } else { b"false" }),
        Value::Number(n) => {
            if let Some(i) = n.as_i64() { out.extend_from_slice(i.to_string().as_bytes()) }
            else if let Some(u) = n.as_u64() { out.extend_from_slice(u.to_string().as_bytes()) }
            else { return Err(()) }
        }
        Value::String(s) => out.extend_from_slice(serde_json::to_string(s).unwrap().as_bytes()),
        Value::Array(a) => {
            out.push(b'[');
            for (i, x) in a.iter().enumerate() { if i > 0 { out.push(b',') } reference(x, out)?; }
            out.push(b']');
        }
        Value::Object(o) => {
            let mut keys: Vec<&String> = o.keys().collect();
            keys.sort_by(|a, b| a.chars().map(|c| c as u32).collect::<Vec<_>>().cmp(&b.chars().map(|c| c as u32).collect::<Vec<_>>()));
            out.push(b'{');
            for (i, k) in keys.iter().enumerate() {
                if i > 0 { out.push(b',') }
                out.extend_from_slice(serde_json::to_string(*k).unwrap().as_bytes());
                out.push(b':');
                reference(&o[*k], out)?;
            }
            out.push(b'}');
        }
    }
    Ok(())
}

/// every character that any JSON writer treats specially, alone and embedded, as a value and as an object key
pub fn char_class_samples() -> Vec<Value> {
    let mut out = vec![];
    let mut cs: Vec<char> = (0u32..=0x20).map(|c| char::from_u32(c).unwrap()).collect();
    cs.extend(['"', '\\', '/', '\u{7f}', '\u{80}', '\u{9f}', '\u{2028}', '\u{2029}', '\u{feff}', '\u{fffd}']);
    for c in cs {
        out.push(json!(c.to_string()));
        out.push(json!(format!("a{}b", c)));
        let mut m = serde_json::Map::new();
        m.insert(c.to_string(), json!(1));
        out.push(Value::Object(m));
    }
    out
}

pub fn samples() -> Vec<Value> {
    vec![
        json!(null), json!(true), json!(false), json!(0), json!(-1), json!(i64::MIN), json!(i64::MAX), json!(u64::MAX),
        json!(""), json!("a\"b\\c"), json!("line\nbreak"), json!("line\\nbreak"), json!("x\\"), json!({"k\\": 1}), json!("a\\u0041"), json!("aA"), json!("tab\there"), json!("back\\nslash-n"), json!("\u{0}\u{1f}\u{7f}"),
        json!("\u{e9}\u{20ac}\u{1F600}"), json!([]), json!({}), json!([[], {}, [null]]), json!({"b": 1, "a": 2, "aa": 3, "B": 4, "": 5}),
        json!({"\u{e9}": 1, "z": 2, "\u{1F600}": 3, "\u{ffff}": 4}), json!({"k": {"y": [1, 2, {"x": "v"}], "x": -5}}),
        json!({"a": "1", "a1": 1}), json!([1, 23]), json!([12, 3]), json!(["1,2"]), json!(["1", "2"]), json!({"a": {"b": 1}}), json!({"a": "{\"b\":1}"}),
    ]
}

pub fn run_c10(r: &mut Report) {
    random_documents(r);
    for v in samples().into_iter().chain(char_class_samples()) {
        let got = canon(&v);
        let mut exp = vec![];
        let ok_ref = reference(&v, &mut exp).is_ok();
        let ok = ok_ref && got.as_ref().ok() == Some(&exp);
        r.case("canonical-equals-reference", json!({"value": v}), &String::from_utf8_lossy(&exp), format!("{:?}", got.as_ref().map(|b| String::from_utf8_lossy(b).to_string())), ok);
        if let Ok(b) = &got {
            // parses back to the identical value; no insignificant whitespace outside strings is implied by equality with the reference
            let back: Result<Value, _> = serde_json::from_slice(b);
            r.case("parses-back", json!({"value": v}), "identical value", format!("{:?}", back), matches!(&back, Ok(x) if *x == v));
        }
    }
    // strings whose TEXT looks like JSON (documents with blanks, numbers, literals, escapes) stay strings, character for character
    for t in ["[1, 2]", "{ \"a\" : 1 }", "[1,2]", "{\"b\":1,\"a\":2}", " [1]", "[1] ", "1.0", "1e3", "-0", "null", "true", "\"quoted\"", "\\u0041", "[\n1\n]", "{}", "[]", "{ }", "[ ]"] {
        for v in [json!(t), json!([t]), json!({"k": t}), json!({t: 1})] {
            let got = canon(&v);
            let back: Option<Value> = got.as_ref().ok().and_then(|b| serde_json::from_slice(b).ok());
            let mut want = vec![];
            let ref_ok = reference(&v, &mut want).is_ok();
            r.case("strings-that-look-like-json", json!({"value": v}), "reference bytes; parses back to the identical value", format!("{:?}", got.as_ref().map(|b| String::from_utf8_lossy(b).to_string())),
                   ref_ok && got.as_ref().ok() == Some(&want) && back.as_ref() == Some(&v));
        }
    }
    // values nested deeper than any parser limit (built in memory): the encoding is either the reference bytes or an error, never a
    // truncated success
    for depth in [100usize, 127, 128, 129, 130, 200, 1000] {
        for kind in ["arrays", "objects", "mixed"] {
            let mut v = json!(7);
            for i in 0..depth { v = match (kind, i % 2) { ("arrays", _) | ("mixed", 0) => json!([v]), _ => json!({"k": v}) }; }
            let got = canon(&v);
            let mut want = vec![];
            let ref_ok = reference(&v, &mut want).is_ok();
            let ok = match &got { Ok(b) => ref_ok && *b == want, Err(e) => e.starts_with("Err") };
            r.case("deep-nesting", json!({"depth": depth, "containers": kind}), "reference bytes, or an error", format!("{:?}", got.as_ref().map(|b| format!("{} bytes, last {:?}", b.len(), String::from_utf8_lossy(&b[b.len().saturating_sub(12)..]).to_string()))), ok);
            std::mem::forget(v);   // dropping a 1000-deep serde_json value recurses; leak it instead
        }
    }
    // member order and whitespace of the source text do not matter
    let a: Value = serde_json::from_str(r#"{"b":[1, 2 ,3],"a":{"y":1,"x":"A"}}"#).unwrap();
    let b: Value = serde_json::from_str("{ \"a\" : {\"x\":\"A\", \"y\" :1}, \n\"b\":[1,2,3] }").unwrap();
    r.case("order-insensitive", json!({"a": a, "b": b}), "equal bytes", format!("{:?} vs {:?}", canon(&a), canon(&b)), canon(&a).is_ok() && canon(&a) == canon(&b));
    // non-integers are rejected
    for t in ["1.5", "1e3", "-0.0", "1.0", "18446744073709551616", "-9223372036854775809", "[1, 2.5]", "{\"a\": {\"b\": 1e-2}}"] {
        let v: Value = serde_json::from_str(t).unwrap();
        let got = canon(&v);
        r.case("non-integer-rejected", json!({"text": t}), "Err", format!("{:?}", got.as_ref().map(|b| String::from_utf8_lossy(b).to_string())), matches!(&got, Err(e) if e.starts_with("Err")));
    }
}

/// pseudo-random documents (seeded from VERIF_SEED): canonical form equals the independent reference writer, parses back to the
/// same value, and no two different values share a canonical form; documents containing a non-integer number are rejected
pub fn random_documents(r: &mut Report) {
    struct Rng(u64);
    impl Rng { fn next(&mut self) -> u64 { let mut x = self.0; x ^= x << 13; x ^= x >> 7; x ^= x << 17; self.0 = x; x } fn below(&mut self, n: u64) -> u64 { self.next() % n } }
    let seed: u64 = std::env::var("VERIF_SEED").ok().and_then(|s| s.parse().ok()).unwrap_or(0);
    let mut rng = Rng(0xD1B54A32D192ED03 ^ seed.wrapping_mul(0x9E3779B97F4A7C15) | 1);
    let pool: Vec<char> = "ab\\\"/\n\t\r\u{0}\u{1f} \u{7f}\u{80}\u{e9}\u{2028}\u{ffff}\u{1F600}n,:[]{}".chars().collect();
    fn string(rng: &mut Rng, pool: &[char]) -> String { let n = rng.below(6); (0..n).map(|_| pool[rng.below(pool.len() as u64) as usize]).collect() }
    fn value(rng: &mut Rng, pool: &[char], depth: u32, floats: bool) -> Value {
        match rng.below(if depth == 0 { 5 } else { 7 }) {
            0 => Value::Null, 1 => json!(rng.below(2) == 0),
            2 => match rng.below(6) { 0 => json!(i64::MIN), 1 => json!(u64::MAX), 2 => json!(-(rng.below(1000) as i64)), 3 if floats => json!(1.5), _ => json!(rng.below(100000)) },
            3 | 4 => json!(string(rng, pool)),
            5 => { let n = rng.below(4); Value::Array((0..n).map(|_| value(rng, pool, depth - 1, floats)).collect()) }
            _ => { let n = rng.below(4); let mut m = serde_json::Map::new(); for _ in 0..n { m.insert(string(rng, pool), value(rng, pool, depth - 1, floats)); } Value::Object(m) }
        }
    }
    fn has_float(v: &Value) -> bool { match v { Value::Number(n) => n.as_i64().is_none() && n.as_u64().is_none(), Value::Array(a) => a.iter().any(has_float), Value::Object(o) => o.values().any(has_float), _ => false } }
    let n = crate::util::scale(1500, 20000);
    let mut seen: std::collections::HashMap<Vec<u8>, Value> = std::collections::HashMap::new();
    let mut bad = 0;
    for i in 0..n {
        let v = value(&mut rng, &pool, 3, i % 5 == 0);
        let got = canon(&v);
        let mut exp = vec![];
        let ok = if has_float(&v) { matches!(&got, Err(e) if e.starts_with("Err")) }
                 else { reference(&v, &mut exp).is_ok() && got.as_ref().ok() == Some(&exp) && serde_json::from_slice::<Value>(&exp).ok().as_ref() == Some(&v) };
        let mut collision = false;
        if let Ok(b) = &got { if let Some(prev) = seen.get(b) { if *prev != v { collision = true; } } else { seen.insert(b.clone(), v.clone()); } }
        if !ok || collision {
            bad += 1;
            if bad <= 5 { r.case("random-document", json!({"index": i, "seed": seed, "value": v, "collision": collision}), "reference bytes / rejected if a non-integer occurs; no collision",
                                 format!("{:?}", got.as_ref().map(|b| String::from_utf8_lossy(b).to_string())), false); }
        }
    }
    r.case("random-documents", json!({"documents": n, "seed": seed}), "all as the reference", format!("{} failures", bad), bad == 0);
}

pub fn run_c05(r: &mut Report) {
    random_documents(r);
    crate::c01::tamper_every_leaf(r);
    // pairwise distinct values have pairwise distinct canonical encodings
    let s = samples();
    let enc: Vec<Option<Vec<u8>>> = s.iter().map(|v| canon(v).ok()).collect();
    let mut collisions = 0;
    for i in 0..s.len() { for j in (i + 1)..s.len() {
        if s[i] != s[j] && enc[i].is_some() && enc[i] == enc[j] {
            collisions += 1;
            r.case("encoding-collision", json!({"a": s[i], "b": s[j]}), "different bytes", "same bytes".into(), false);
        }
    }}
    r.case("no-collisions", json!({"values": s.len()}), "0 collisions", format!("{} collisions", collisions), collisions == 0);

    // size classes: documents far larger than any fixture (64 KiB, 1 MiB + 1, 3 MiB strings; 100 000 array elements; depth 100)
    // must still be encoded completely: values that differ only AFTER a huge shared member get different bytes and parse back
    {
        let mut bad = 0; let mut n = 0;
        for big in [1usize << 16, (1 << 20) + 1, 3 << 20] {
            let filler = "x".repeat(big);
            let a = json!({"a_big": filler, "z_after": 1, "zz": {"k": [1, 2]}});
            let b = json!({"a_big": filler, "z_after": 2, "zz": {"k": [1, 2]}});
            let c = json!({"a_big": filler, "z_after": 1, "zz": {"k": [1, 3]}});
            let (ea, eb, ec) = (canon(&a), canon(&b), canon(&c));
            n += 3;
            let back_ok = |e: &Result<Vec<u8>, String>, v: &Value| matches!(e, Ok(bytes) if serde_json::from_slice::<Value>(bytes).ok().as_ref() == Some(v));
            if !(ea.is_ok() && eb.is_ok() && ec.is_ok() && ea != eb && ea != ec && eb != ec && back_ok(&ea, &a) && back_ok(&eb, &b) && back_ok(&ec, &c)) {
                bad += 1;
                r.case("large-document", json!({"shared_string_bytes": big}), "three values differing after the large member: pairwise different bytes, each parses back",
                       format!("lens={:?} a==b:{} a==c:{}", [ea.as_ref().map(|x| x.len()).ok(), eb.as_ref().map(|x| x.len()).ok(), ec.as_ref().map(|x| x.len()).ok()], ea == eb, ea == ec), false);
            }
        }
        let arr1: Vec<u32> = (0..100_000).collect();
        let mut arr2 = arr1.clone(); arr2[99_999] = 7;
        let (e1, e2) = (canon(&json!(arr1)), canon(&json!(arr2)));
        n += 2;
        if !(e1.is_ok() && e2.is_ok() && e1 != e2) { bad += 1; r.case("large-array", json!({"elements": 100000}), "different bytes", "equal or error".into(), false); }
        let mut deep = json!(1); let mut deep2 = json!(2);
        for _ in 0..100 { deep = json!({"k": [deep]}); deep2 = json!({"k": [deep2]}); }
        let (d1, d2) = (canon(&deep), canon(&deep2));
        n += 2;
        if !(d1.is_ok() && d2.is_ok() && d1 != d2) { bad += 1; r.case("deep-document", json!({"depth": 100}), "different bytes", format!("{:?} {:?}", d1.as_ref().map(|x| x.len()), d2.as_ref().map(|x| x.len())), false); }
        r.case("size-classes", json!({"documents": n}), "complete, distinct encodings", format!("{} failures", bad), bad == 0);
    }
    expiry_grid(r);
}

pub fn expiry_grid(r: &mut Report) {
    // "expiry to the second": layouts that differ only in their expiry are signed over different bytes, and the expiry that is
    // signed is the expiry that is read back (grid: year boundaries 2024-2031 +-4 days, leap day, second granularity, far dates)
    use chrono::{TimeZone, Utc, Duration};
    use in_toto::models::{LayoutMetadataBuilder, MetadataWrapper, Metablock, MetablockBuilder};
    let mut grid = vec![];
    for y in 2024..=2031 {
        let ny = Utc.with_ymd_and_hms(y, 1, 1, 0, 0, 0).unwrap();
        for d in -4i64..=4 { grid.push(ny + Duration::days(d)); }
        grid.push(ny - Duration::seconds(1));
        grid.push(ny + Duration::seconds(1));
    }
    grid.push(Utc.with_ymd_and_hms(2028, 2, 29, 12, 0, 0).unwrap());
    grid.push(Utc.with_ymd_and_hms(2028, 3, 1, 12, 0, 0).unwrap());
    grid.push(Utc.with_ymd_and_hms(1970, 1, 1, 0, 0, 0).unwrap());
    grid.push(Utc.with_ymd_and_hms(9999, 12, 31, 23, 59, 59).unwrap());
    grid.sort(); grid.dedup();
    let k = crate::fixture::key(1);
    let mut seen: std::collections::HashMap<Vec<u8>, chrono::DateTime<Utc>> = std::collections::HashMap::new();
    let mut bad = 0;
    for t in &grid {
        let l = LayoutMetadataBuilder::new().expires(*t).build().unwrap();
        let bytes = MetadataWrapper::Layout(l.clone()).to_bytes();
        match bytes {
            Ok(b) => {
                if let Some(prev) = seen.get(&b) {
                    bad += 1;
                    r.case("expiry-collision", json!({"a": prev.to_rfc3339(), "b": t.to_rfc3339()}), "different signed bytes", "same signed bytes".into(), false);
                }
                seen.insert(b, *t);
            }
            Err(e) => { bad += 1; r.case("expiry-bytes", json!({"expires": t.to_rfc3339()}), "Ok", format!("Err({})", e), false); }
        }
        // what is signed is what a verifier reads back
        let mb = MetablockBuilder::from_metadata(Box::new(l.clone())).sign(&[&k]).unwrap().build();
        let back: Result<Metablock, _> = serde_json::from_str(&serde_json::to_string(&mb).unwrap());
        let same = matches!(&back, Ok(m) if matches!(&m.metadata, MetadataWrapper::Layout(l2) if l2.expires == *t));
        if !same {
            bad += 1;
            r.case("expiry-readback", json!({"expires": t.to_rfc3339()}), "the same instant",
                   format!("{:?}", back.as_ref().map(|m| match &m.metadata { MetadataWrapper::Layout(l2) => l2.expires.to_rfc3339(), _ => "link".into() }).map_err(|e| e.to_string())), false);
        }
    }
    r.case("expiry-grid", json!({"instants": grid.len()}), "pairwise different signed bytes, read back unchanged", format!("{} failures", bad), bad == 0);
}
