//! Differential witness: an independent, deliberately plain re-implementation of what final-product verification must decide
//! (written from the property statements C01-C07 / the in-toto specification, not from the crate's code), compared with the real
//! `in_toto_verify` on pseudo-random scenarios.  Deterministic: the generator is seeded from VERIF_SEED.
//! Bounded evidence (N scenarios), never counted as proof.
use crate::fixture::*;
use crate::util::{no_panic, scale};
use crate::Report;
use in_toto::crypto::PrivateKey;
use in_toto::models::rule::{Artifact, ArtifactRule};
use in_toto::models::{LinkMetadataBuilder, Metablock, VirtualTargetPath};
use in_toto::verifylib::in_toto_verify;
use serde_json::json;
use std::collections::{BTreeMap, BTreeSet};

struct Rng(u64);
impl Rng {
    fn next(&mut self) -> u64 { let mut x = self.0; x ^= x << 13; x ^= x >> 7; x ^= x << 17; self.0 = x; x }
    fn below(&mut self, n: u64) -> u64 { self.next() % n }
    fn chance(&mut self, percent: u64) -> bool { self.below(100) < percent }
    fn pick<'a, T>(&mut self, v: &'a [T]) -> &'a T { &v[self.below(v.len() as u64) as usize] }
}

type Arts = BTreeMap<String, (u8, u8)>;   // path -> (sha256 byte, sha512 byte or 0 when the artifact has no sha512 digest)

#[derive(Clone, Debug)]
enum Rule { Create(String), Delete(String), Modify(String), Allow(String), Require(String), Disallow(String),
            Match { pat: String, src: Option<String>, products: bool, dst: Option<String>, from: String } }

#[derive(Clone, Debug)]
struct MStep { name: String, threshold: u32, keys: Vec<usize>, mat_rules: Vec<Rule>, prod_rules: Vec<Rule> }
#[derive(Clone, Debug)]
/// `recorded`: the `name` written INSIDE the link when it differs from the step the file is filed for (the verifier goes by the file)
struct MLink { step: String, signer: usize, filed_under: usize, tampered: bool, mats: Arts, prods: Arts, sub: Option<Sub>, recorded: Option<String> }
/// evidence in the form of a sub-layout: inner steps (name, link present, materials, products) performed by functionary 5
#[derive(Clone, Debug)]
struct Sub { inner: Vec<(String, bool, Arts, Arts)>, expired: bool }
#[derive(Clone, Debug)]
struct Scenario { steps: Vec<MStep>, table: Vec<usize>, owners: Vec<usize>, signed_by: Vec<usize>, alias_owner: bool, dup_owner_sig: bool, expired: bool, links: Vec<MLink> }

/// tiny glob used by the generator's patterns only: a literal path, `*` (anything, separators included), or `<dir>/*`
fn glob(pat: &str, path: &str) -> bool {
    if pat == "*" { return true; }
    if let Some(dir) = pat.strip_suffix("/*") { return path.starts_with(&format!("{}/", dir)); }
    pat == path
}

fn to_rule(r: &Rule) -> ArtifactRule {
    let p = |s: &str| VirtualTargetPath::new(s.to_string()).unwrap();
    match r {
        Rule::Create(x) => ArtifactRule::Create(p(x)), Rule::Delete(x) => ArtifactRule::Delete(p(x)), Rule::Modify(x) => ArtifactRule::Modify(p(x)),
        Rule::Allow(x) => ArtifactRule::Allow(p(x)), Rule::Require(x) => ArtifactRule::Require(p(x)), Rule::Disallow(x) => ArtifactRule::Disallow(p(x)),
        Rule::Match { pat, src, products, dst, from } => ArtifactRule::Match { pattern: p(pat), in_src: src.clone(), with: if *products { Artifact::Products } else { Artifact::Materials }, in_dst: dst.clone(), from: from.clone() },
    }
}

/// the specification's rule algorithm on plain sets (None = the item is rejected)
fn apply_rules(rules: &[Rule], own: &Arts, link_mats: &Arts, link_prods: &Arts, reps: &BTreeMap<String, (Arts, Arts)>) -> Option<()> {
    let mut queue: BTreeSet<String> = own.keys().cloned().collect();
    let created: BTreeSet<String> = link_prods.keys().filter(|k| !link_mats.contains_key(*k)).cloned().collect();
    let deleted: BTreeSet<String> = link_mats.keys().filter(|k| !link_prods.contains_key(*k)).cloned().collect();
    let modified: BTreeSet<String> = link_mats.iter().filter(|(k, v)| link_prods.get(*k).map(|w| w != *v).unwrap_or(false)).map(|(k, _)| k.clone()).collect();
    for r in rules {
        let pat = match r { Rule::Create(x) | Rule::Delete(x) | Rule::Modify(x) | Rule::Allow(x) | Rule::Require(x) | Rule::Disallow(x) => x.clone(), Rule::Match { pat, .. } => pat.clone() };
        let filtered: BTreeSet<String> = queue.iter().filter(|q| glob(&pat, q)).cloned().collect();
        let consumed: BTreeSet<String> = match r {
            Rule::Create(_) => filtered.intersection(&created).cloned().collect(),
            Rule::Delete(_) => filtered.intersection(&deleted).cloned().collect(),
            Rule::Modify(_) => filtered.intersection(&modified).cloned().collect(),
            Rule::Allow(_) => filtered.clone(),
            Rule::Require(x) => { if !queue.contains(x) { return None; } BTreeSet::new() }
            Rule::Disallow(_) => { if !filtered.is_empty() { return None; } BTreeSet::new() }
            Rule::Match { pat, src, products, dst, from } => {
                let mut c = BTreeSet::new();
                if let Some((dm, dp)) = reps.get(from) {
                    let dest = if *products { dp } else { dm };
                    let sp = src.as_ref().map(|s| format!("{}/", s)).unwrap_or_default();
                    let dpre = dst.as_ref().map(|s| format!("{}/", s)).unwrap_or_default();
                    for q in queue.iter() {
                        if let Some(base) = q.strip_prefix(&sp) {
                            if glob(pat, base) {
                                if let Some(dv) = dest.get(&format!("{}{}", dpre, base)) { if own.get(q) == Some(dv) { c.insert(q.clone()); } }
                            }
                        }
                    }
                }
                c
            }
        };
        for c in consumed { queue.remove(&c); }
    }
    Some(())
}

/// what verification must answer for the scenario
fn expected(s: &Scenario, ids: &[String]) -> bool {
    // C01: at least one trusted key and every one of them signed
    if s.owners.is_empty() || !s.owners.iter().all(|o| s.signed_by.contains(o)) { return false; }
    // the same key supplied under a second identifier is an aliased key set: never accepted (a repeated signature changes nothing)
    if s.alias_owner { return false; }
    // C06
    if s.expired { return false; }
    let mut reps: BTreeMap<String, (Arts, Arts)> = BTreeMap::new();
    let mut rep_links: Vec<(usize, MLink)> = vec![];
    for (si, st) in s.steps.iter().enumerate() {
        // a file is usable only if it is filed under the prefix of a key that really signed it (C02)
        // one file per (step, prefix): a later link written under the same name replaces an earlier one
        let mut files: BTreeMap<usize, &MLink> = BTreeMap::new();
        for l in s.links.iter().filter(|l| l.step == st.name) { files.insert(l.filed_under, l); }
        let filed: Vec<&MLink> = files.values().cloned().filter(|l| l.filed_under == l.signer).collect();
        if (filed.len() as u32) < st.threshold { return false; }
        // counted: signer authorised for this step, listed in the layout's key table, signature valid over the content as found
        let mut good: Vec<&MLink> = filed.into_iter().filter(|l| st.keys.contains(&l.signer) && s.table.contains(&l.signer) && !l.tampered).collect();
        if (good.len() as u32) < st.threshold || good.is_empty() { return false; }
        // C15: counted evidence that is a sub-layout is verified like a layout (unexpired, every inner step evidenced); any failure is
        // fatal; the sub-layout then stands for a link with the first inner step's materials and the last inner step's products
        let mut resolved: Vec<MLink> = vec![];
        for l in good.iter() {
            match &l.sub {
                None => resolved.push((*l).clone()),
                Some(sub) => {
                    if sub.expired || sub.inner.iter().any(|(_, present, _, _)| !present) { return false; }
                    let mut m = (*l).clone();
                    m.mats = sub.inner.first().map(|x| x.2.clone()).unwrap_or_default();
                    m.prods = sub.inner.last().map(|x| x.3.clone()).unwrap_or_default();
                    resolved.push(m);
                }
            }
        }
        let mut good: Vec<&MLink> = resolved.iter().collect();
        // C07: with threshold >= 2 all counted links agree
        if st.threshold >= 2 && !good.iter().all(|l| l.mats == good[0].mats && l.prods == good[0].prods) { return false; }
        // C13: the representative is the link under the least key id
        good.sort_by(|a, b| ids[a.signer].cmp(&ids[b.signer]));
        reps.insert(st.name.clone(), (good[0].mats.clone(), good[0].prods.clone()));
        rep_links.push((si, good[0].clone()));
    }
    // C03
    for (si, l) in rep_links {
        let st = &s.steps[si];
        if apply_rules(&st.mat_rules, &l.mats, &l.mats, &l.prods, &reps).is_none() { return false; }
        if apply_rules(&st.prod_rules, &l.prods, &l.mats, &l.prods, &reps).is_none() { return false; }
    }
    true
}

fn gen(rng: &mut Rng) -> Scenario {
    let names = ["a", "b", "c"];
    let paths = ["x", "y", "d/x", "d/y", "o/x", "d2/x"];
    let n_steps = 1 + rng.below(3) as usize;
    let arts = |rng: &mut Rng| -> Arts { let mut m = Arts::new(); for p in paths.iter() { if rng.chance(40) { m.insert(p.to_string(), (1 + rng.below(2) as u8, if rng.chance(35) { 1 + rng.below(2) as u8 } else { 0 })); } } m };
    let mut steps = vec![];
    for i in 0..n_steps {
        let name = names[i].to_string();
        let rule = |rng: &mut Rng, i: usize| -> Rule {
            let pats = ["*", "x", "y", "d/*", "d/x", "o/x", "d2/*"];
            let p = rng.pick(&pats).to_string();
            match rng.below(9) {
                0 => Rule::Create(p), 1 => Rule::Delete(p), 2 => Rule::Modify(p), 3 | 4 => Rule::Allow(p), 5 => Rule::Require(rng.pick(&paths).to_string()), 6 => Rule::Disallow(p),
                _ => Rule::Match { pat: rng.pick(&["*", "x", "y"]).to_string(), src: if rng.chance(30) { Some("d".into()) } else { None }, products: rng.chance(70),
                                   dst: if rng.chance(30) { Some(rng.pick(&["d", "o"]).to_string()) } else { None }, from: names[rng.below((i.max(1)) as u64) as usize].to_string() },
            }
        };
        let nr = rng.below(4) as usize;
        let mat_rules = (0..nr).map(|_| rule(rng, i)).collect();
        let np = rng.below(4) as usize;
        let prod_rules = (0..np).map(|_| rule(rng, i)).collect();
        let mut keys: Vec<usize> = vec![];
        let all_keys = rng.chance(45);
        for k in 2..5usize { if all_keys || rng.chance(55) { keys.push(k); } }
        if keys.is_empty() { keys.push(2 + rng.below(3) as usize); }
        steps.push(MStep { name, threshold: *rng.pick(&[0u32, 1, 1, 2, 2, 2, 3]), keys, mat_rules, prod_rules });
    }
    let mut table: Vec<usize> = vec![];
    for k in 2..5usize { if rng.chance(92) { table.push(k); } }
    let owners: Vec<usize> = if rng.chance(2) { vec![] } else if rng.chance(25) { vec![0, 1] } else { vec![0] };
    let signed_by: Vec<usize> = if rng.chance(5) { vec![0] } else { vec![0, 1] };
    let mut links = vec![];
    for st in steps.iter() {
        let shared_m = arts(rng); let shared_p = arts(rng);
        for k in 2..5usize {
            if !rng.chance(75) { continue; }
            let dissent = rng.chance(12);
            links.push(MLink { step: st.name.clone(), signer: k, filed_under: if rng.chance(6) { 2 + ((k - 2 + 1) % 3) } else { k }, tampered: rng.chance(6),
                               mats: if dissent { arts(rng) } else { shared_m.clone() }, prods: if dissent && rng.chance(50) { arts(rng) } else { shared_p.clone() },
                               sub: if rng.chance(12) { let n = 1 + rng.below(2) as usize;
                                   Some(Sub { inner: (0..n).map(|i| (format!("in{}", i), !rng.chance(10), if rng.chance(50) { shared_m.clone() } else { arts(rng) }, if rng.chance(50) { shared_p.clone() } else { arts(rng) })).collect(), expired: rng.chance(10) }) } else { None },
                               recorded: if rng.chance(8) { Some(if rng.chance(70) { steps[rng.below(steps.len() as u64) as usize].name.clone() } else { "ghost".to_string() }) } else { None } });
        }
    }
    Scenario { steps, table, owners, signed_by, alias_owner: rng.chance(4), dup_owner_sig: rng.chance(10), expired: rng.chance(3), links }
}

fn to_artifacts(a: &Arts) -> BTreeMap<VirtualTargetPath, in_toto::models::TargetDescription> {
    use in_toto::crypto::{HashAlgorithm, HashValue};
    a.iter().map(|(k, (s256, s512))| {
        let mut td = in_toto::models::TargetDescription::new();
        td.insert(HashAlgorithm::Sha256, HashValue::new(vec![*s256; 32]));
        if *s512 != 0 { td.insert(HashAlgorithm::Sha512, HashValue::new(vec![*s512; 64])); }
        (VirtualTargetPath::new(k.clone()).unwrap(), td)
    }).collect()
}

fn run_one(s: &Scenario, pool: &[PrivateKey]) -> Result<bool, String> {
    let d = tmpdir();
    for l in &s.links {
        if let Some(sub) = &l.sub {
            let inner_k = &pool[5];
            let inner_steps = sub.inner.iter().map(|(n, _, _, _)| step(n, 1, &[inner_k], allow_all(), allow_all())).collect();
            let il = layout(inner_steps, vec![], &[inner_k], if sub.expired { -1 } else { 30 });
            let mut mb = signed_layout(&il, &[&pool[l.signer]]);
            if l.tampered {
                let other = layout(vec![step("other", 1, &[inner_k], allow_all(), allow_all())], vec![], &[inner_k], 30);
                let sigs = mb.signatures.clone();
                mb = signed_layout(&other, &[]);
                mb.signatures = sigs;
            }
            write_link(d.path(), &l.step, pool[l.filed_under].key_id(), &mb);
            // the inner links live in <dir>/<step>.<prefix of the key the evidence is counted under>/
            let subdir = d.path().join(format!("{}.{}", l.step, pool[l.signer].key_id().prefix()));
            std::fs::create_dir_all(&subdir).unwrap();
            for (n, present, m, p) in &sub.inner {
                if *present {
                    let lm = LinkMetadataBuilder::new().name(n.clone()).materials(to_artifacts(m)).products(to_artifacts(p)).build().unwrap();
                    write_link(&subdir, n, inner_k.key_id(), &signed_link(&lm, &[inner_k]));
                }
            }
            continue;
        }
        let inside = l.recorded.clone().unwrap_or_else(|| l.step.clone());
        let lm = LinkMetadataBuilder::new().name(inside.clone()).materials(to_artifacts(&l.mats)).products(to_artifacts(&l.prods)).build().unwrap();
        let mut mb = signed_link(&lm, &[&pool[l.signer]]);
        if l.tampered {
            // keep the signature, change the content
            let other = LinkMetadataBuilder::new().name(inside.clone()).materials(to_artifacts(&l.mats)).products(artifacts(&[("tampered", 9)])).build().unwrap();
            let sigs = mb.signatures.clone();
            mb = signed_link(&other, &[]);
            mb.signatures = sigs;
        }
        write_link(d.path(), &l.step, pool[l.filed_under].key_id(), &mb);
    }
    let steps = s.steps.iter().map(|st| step(&st.name, st.threshold, &st.keys.iter().map(|k| &pool[*k]).collect::<Vec<_>>(),
                                             st.mat_rules.iter().map(to_rule).collect(), st.prod_rules.iter().map(to_rule).collect())).collect();
    let l = layout(steps, vec![], &s.table.iter().map(|k| &pool[*k]).collect::<Vec<_>>(), if s.expired { -1 } else { 30 });
    let mut lay: Metablock = signed_layout(&l, &s.signed_by.iter().map(|k| &pool[*k]).collect::<Vec<_>>());
    if s.dup_owner_sig && !lay.signatures.is_empty() { let first = lay.signatures[0].clone(); lay.signatures.push(first); }
    let mut keys = owner_keys(&s.owners.iter().map(|k| &pool[*k]).collect::<Vec<_>>());
    if s.alias_owner && !s.owners.is_empty() {
        use std::str::FromStr;
        keys.insert(in_toto::crypto::KeyId::from_str(&"ab".repeat(32)).unwrap(), pool[s.owners[0]].public().clone());
    }
    no_panic(|| in_toto_verify(&lay, keys, d.path().to_str().unwrap(), None)).map(|r| r.is_ok())
}

pub fn run(r: &mut Report, tag: &str) {
    let seed: u64 = std::env::var("VERIF_SEED").ok().and_then(|s| s.parse().ok()).unwrap_or(0);
    let mut rng = Rng(0x9E3779B97F4A7C15 ^ seed.wrapping_mul(0x2545F4914F6CDD1D) | 1);
    let pool: Vec<PrivateKey> = (1..=6).map(key).collect();      // 0,1: owners; 2..4: functionaries
    let ids: Vec<String> = pool.iter().map(|k| format!("{:?}", k.key_id())).collect();
    let n = scale(1500, 12000);
    let mut bad = 0; let mut accepted = 0;
    for i in 0..n {
        let s = gen(&mut rng);
        let want = expected(&s, &ids);
        let got = run_one(&s, &pool);
        let again = run_one(&s, &pool);     // C13: the same inputs give the same verdict
        if want { accepted += 1; }
        if got != Ok(want) || again != got {
            bad += 1;
            if bad <= 5 {
                r.case(tag, json!({"scenario_index": i, "seed": seed, "scenario": format!("{:?}", s)}), &format!("{} on every run (independent model)", if want { "Ok" } else { "Err" }),
                       format!("first run {:?}, second run {:?}", got, again), false);
            }
        }
    }
    r.case(&format!("{}-summary", tag), json!({"scenarios": n, "model_accepts": accepted, "seed": seed}), "the crate agrees with the independent model on every scenario", format!("{} disagreements", bad), bad == 0 && accepted * 20 >= n);
}

pub fn run_differential(r: &mut Report) { run(r, "differential") }
