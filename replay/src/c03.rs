//! C03 witnesses: artifact rules behave as the specification's queue algorithm prescribes (through in_toto_verify).
use crate::fixture::*;
use crate::util::no_panic;
use crate::Report;
use in_toto::models::rule::{Artifact, ArtifactRule};
use in_toto::models::VirtualTargetPath;
use in_toto::verifylib::in_toto_verify;
use serde_json::json;

fn vp(s: &str) -> VirtualTargetPath { VirtualTargetPath::new(s.to_string()).unwrap() }
fn dis() -> ArtifactRule { ArtifactRule::Disallow(vp("*")) }
fn mtch(pat: &str, in_src: Option<&str>, with: Artifact, in_dst: Option<&str>, from: &str) -> ArtifactRule {
    ArtifactRule::Match { pattern: vp(pat), in_src: in_src.map(|s| s.to_string()), with, in_dst: in_dst.map(|s| s.to_string()), from: from.to_string() }
}

/// two steps: `a` produces `a_products`; `b` has materials `b_materials` and the material rules `rules` (products allow-all)
fn run_two(a_products: &[(&str, u8)], b_materials: &[(&str, u8)], b_products: &[(&str, u8)], rules: Vec<ArtifactRule>, prod_rules: Vec<ArtifactRule>) -> Result<bool, String> {
    let owner = key(1);
    let ka = key(2);
    let kb = key(3);
    let d = tmpdir();
    write_link(d.path(), "a", ka.key_id(), &signed_link(&link("a", &[], a_products), &[&ka]));
    write_link(d.path(), "b", kb.key_id(), &signed_link(&link("b", b_materials, b_products), &[&kb]));
    let l = layout(vec![step("a", 1, &[&ka], allow_all(), allow_all()), step("b", 1, &[&kb], rules, prod_rules)], vec![], &[&ka, &kb], 30);
    let lay = signed_layout(&l, &[&owner]);
    no_panic(|| in_toto_verify(&lay, owner_keys(&[&owner]), d.path().to_str().unwrap(), None)).map(|r| r.is_ok())
}

pub fn run(r: &mut Report) {
    struct C { id: &'static str, ap: Vec<(&'static str, u8)>, bm: Vec<(&'static str, u8)>, bp: Vec<(&'static str, u8)>, rules: Vec<ArtifactRule>, prules: Vec<ArtifactRule>, expect: bool }
    let cases = vec![
        C { id: "match-consumes-equal-artifact", ap: vec![("foo", 1)], bm: vec![("foo", 1)], bp: vec![], rules: vec![mtch("foo", None, Artifact::Products, None, "a"), dis()], prules: allow_all(), expect: true },
        C { id: "match-digest-differs", ap: vec![("foo", 2)], bm: vec![("foo", 1)], bp: vec![], rules: vec![mtch("foo", None, Artifact::Products, None, "a"), dis()], prules: allow_all(), expect: false },
        C { id: "match-pattern-does-not-match-artifact", ap: vec![("foo", 1), ("bar", 1)], bm: vec![("bar", 1)], bp: vec![], rules: vec![mtch("foo", None, Artifact::Products, None, "a"), dis()], prules: allow_all(), expect: false },
        C { id: "match-in-src-prefix-absent", ap: vec![("foo", 1)], bm: vec![("foo", 1)], bp: vec![], rules: vec![mtch("foo", Some("sub"), Artifact::Products, None, "a"), dis()], prules: allow_all(), expect: false },
        C { id: "match-in-src-prefix-present", ap: vec![("foo", 1)], bm: vec![("sub/foo", 1)], bp: vec![], rules: vec![mtch("foo", Some("sub"), Artifact::Products, None, "a"), dis()], prules: allow_all(), expect: true },
        C { id: "match-in-dst-prefix", ap: vec![("out/foo", 1)], bm: vec![("foo", 1)], bp: vec![], rules: vec![mtch("foo", None, Artifact::Products, Some("out"), "a"), dis()], prules: allow_all(), expect: true },
        C { id: "match-absent-step", ap: vec![("foo", 1)], bm: vec![("foo", 1)], bp: vec![], rules: vec![mtch("foo", None, Artifact::Products, None, "nosuch"), dis()], prules: allow_all(), expect: false },
        C { id: "disallow-uninterpretable-pattern", ap: vec![], bm: vec![("foo", 1)], bp: vec![], rules: vec![ArtifactRule::Disallow(vp("a**b["))], prules: allow_all(), expect: false },
        C { id: "disallow-star-with-leftover", ap: vec![], bm: vec![("foo", 1)], bp: vec![], rules: vec![dis()], prules: allow_all(), expect: false },
        C { id: "allow-then-disallow", ap: vec![], bm: vec![("foo", 1)], bp: vec![], rules: vec![ArtifactRule::Allow(vp("foo")), dis()], prules: allow_all(), expect: true },
        C { id: "order-matters-disallow-first", ap: vec![], bm: vec![("foo", 1)], bp: vec![], rules: vec![dis(), ArtifactRule::Allow(vp("foo"))], prules: allow_all(), expect: false },
        C { id: "create-consumes-only-created", ap: vec![], bm: vec![("old", 1)], bp: vec![("old", 1), ("new", 2)], rules: allow_all(), prules: vec![ArtifactRule::Create(vp("*")), dis()], expect: false },
        C { id: "create-ok", ap: vec![], bm: vec![], bp: vec![("new", 2)], rules: allow_all(), prules: vec![ArtifactRule::Create(vp("new")), dis()], expect: true },
        C { id: "delete-ok", ap: vec![], bm: vec![("gone", 1)], bp: vec![], rules: vec![ArtifactRule::Delete(vp("gone")), dis()], prules: allow_all(), expect: true },
        C { id: "modify-ok", ap: vec![], bm: vec![("f", 1)], bp: vec![("f", 2)], rules: allow_all(), prules: vec![ArtifactRule::Modify(vp("f")), dis()], expect: true },
        C { id: "modify-unchanged-not-consumed", ap: vec![], bm: vec![("f", 1)], bp: vec![("f", 1)], rules: allow_all(), prules: vec![ArtifactRule::Modify(vp("f")), dis()], expect: false },
        C { id: "require-missing", ap: vec![], bm: vec![("f", 1)], bp: vec![], rules: vec![ArtifactRule::Require(vp("g")), ArtifactRule::Allow(vp("*"))], prules: allow_all(), expect: false },
        C { id: "require-present", ap: vec![], bm: vec![("f", 1)], bp: vec![], rules: vec![ArtifactRule::Require(vp("f")), ArtifactRule::Allow(vp("*"))], prules: allow_all(), expect: true },
        C { id: "require-on-empty-queue", ap: vec![], bm: vec![], bp: vec![], rules: vec![ArtifactRule::Require(vp("f"))], prules: allow_all(), expect: false },
        C { id: "require-after-everything-consumed", ap: vec![], bm: vec![("g", 1)], bp: vec![], rules: vec![ArtifactRule::Allow(vp("*")), ArtifactRule::Require(vp("f"))], prules: allow_all(), expect: false },
        C { id: "non-normalized-path-with-match-no-panic", ap: vec![("f", 1)], bm: vec![("./f", 1)], bp: vec![], rules: vec![mtch("f", None, Artifact::Products, None, "a"), ArtifactRule::Allow(vp("*"))], prules: allow_all(), expect: true },
        C { id: "non-normalized-dst-path-with-match-no-panic", ap: vec![("a/../f", 1)], bm: vec![("f", 1)], bp: vec![], rules: vec![mtch("*", None, Artifact::Products, None, "a"), ArtifactRule::Allow(vp("*"))], prules: allow_all(), expect: true },
        C { id: "non-normalized-path-no-panic", ap: vec![], bm: vec![("./f", 1)], bp: vec![("./f", 2)], rules: allow_all(), prules: allow_all(), expect: true },
    ];
    // prefix boundaries of MATCH .. IN: a sibling whose name merely starts with the prefix text is not under the prefix
    let mut cases = cases;
    for (id, src_prefix, material, a_product, dst_prefix, expect) in [
        ("match-in-src-sibling-with-suffix", Some("dist"), "dist-old/app", "app", None, false),
        ("match-in-src-sibling-digit", Some("dist"), "dist2/app", "app", None, false),
        ("match-in-src-file-sharing-prefix-text", Some("dist"), "distfile", "file", None, false),
        ("match-in-src-proper-child", Some("dist"), "dist/app", "app", None, true),
        ("match-in-src-nested-child", Some("dist"), "dist/sub/app", "sub/app", None, true),
        ("match-in-dst-sibling-with-suffix", None, "app", "out-old/app", Some("out"), false),
        ("match-in-dst-proper-child", None, "app", "out/app", Some("out"), true),
        ("match-in-both", Some("dist"), "dist/app", "out/app", Some("out"), true),
        ("match-in-both-wrong-dst", Some("dist"), "dist/app", "out2/app", Some("out"), false),
    ] {
        cases.push(C { id, ap: vec![(a_product, 1)], bm: vec![(material, 1)], bp: vec![], rules: vec![mtch("*", src_prefix, Artifact::Products, dst_prefix, "a"), dis()], prules: allow_all(), expect });
    }
    // wildcards cover dot-files and dot-directories (fnmatch semantics of the specification: no special treatment of a leading dot)
    for (id, path) in [("dotfile", ".env"), ("dotfile-in-dir", "out/.backdoor"), ("dot-directory", ".git/config")] {
        cases.push(C { id: match id { "dotfile" => "disallow-star-sees-dotfile", "dotfile-in-dir" => "disallow-star-sees-dotfile-in-dir", _ => "disallow-star-sees-dot-directory" },
                       ap: vec![], bm: vec![(path, 1)], bp: vec![], rules: vec![dis()], prules: allow_all(), expect: false });
        cases.push(C { id: match id { "dotfile" => "allow-star-consumes-dotfile", "dotfile-in-dir" => "allow-star-consumes-dotfile-in-dir", _ => "allow-star-consumes-dot-directory" },
                       ap: vec![], bm: vec![(path, 1)], bp: vec![], rules: vec![ArtifactRule::Allow(vp("*")), dis()], prules: allow_all(), expect: true });
        cases.push(C { id: match id { "dotfile" => "match-star-consumes-dotfile", "dotfile-in-dir" => "match-star-consumes-dotfile-in-dir", _ => "match-star-consumes-dot-directory" },
                       ap: vec![(path, 1)], bm: vec![(path, 1)], bp: vec![], rules: vec![mtch("*", None, Artifact::Products, None, "a"), dis()], prules: allow_all(), expect: true });
    }
    cases.push(C { id: "create-star-consumes-created-dotfile", ap: vec![], bm: vec![], bp: vec![(".buildinfo", 1)], rules: allow_all(), prules: vec![ArtifactRule::Create(vp("*")), ArtifactRule::Disallow(vp(".*"))], expect: true });
    cases.push(C { id: "question-mark-and-class-cover-a-dot", ap: vec![], bm: vec![(".a", 1)], bp: vec![], rules: vec![ArtifactRule::Allow(vp("?a")), dis()], prules: allow_all(), expect: true });
    // a rule that repeats the kind and pattern of an earlier rule of the list is a rule of its own (it may differ in its source, and
    // even an identical rule reads the queue as it is by then)
    cases.push(C { id: "two-matches-same-pattern-different-destination", ap: vec![("x", 1), ("out/y", 2)], bm: vec![("x", 1), ("y", 2)], bp: vec![],
        rules: vec![mtch("*", None, Artifact::Products, None, "a"), mtch("*", None, Artifact::Products, Some("out"), "a"), dis()], prules: allow_all(), expect: true });
    cases.push(C { id: "two-matches-same-pattern-second-does-not-cover", ap: vec![("x", 1), ("out/y", 2)], bm: vec![("x", 1), ("y", 3)], bp: vec![],
        rules: vec![mtch("*", None, Artifact::Products, None, "a"), mtch("*", None, Artifact::Products, Some("out"), "a"), dis()], prules: allow_all(), expect: false });
    cases.push(C { id: "require-repeated-after-the-artifact-was-consumed", ap: vec![], bm: vec![("f", 1)], bp: vec![],
        rules: vec![ArtifactRule::Require(vp("f")), ArtifactRule::Allow(vp("f")), ArtifactRule::Require(vp("f"))], prules: allow_all(), expect: false });
    cases.push(C { id: "allow-repeated", ap: vec![], bm: vec![("f", 1), ("g", 1)], bp: vec![],
        rules: vec![ArtifactRule::Allow(vp("f")), ArtifactRule::Allow(vp("f")), ArtifactRule::Allow(vp("g")), dis(), dis()], prules: allow_all(), expect: true });
    cases.push(C { id: "create-repeated-with-delete-between", ap: vec![], bm: vec![("old", 1)], bp: vec![("new", 2)],
        rules: vec![ArtifactRule::Delete(vp("*")), ArtifactRule::Delete(vp("*")), dis()], prules: vec![ArtifactRule::Create(vp("*")), ArtifactRule::Create(vp("*")), dis()], expect: true });
    for c in cases {
        let res = run_two(&c.ap, &c.bm, &c.bp, c.rules.clone(), c.prules.clone());
        r.case(c.id, json!({"a_products": c.ap, "b_materials": c.bm, "b_products": c.bp, "material_rules": format!("{:?}", c.rules), "product_rules": format!("{:?}", c.prules)}),
               if c.expect { "Ok" } else { "Err" }, format!("{:?}", res), res == Ok(c.expect));
    }
    // the pattern grammar, construct by construct (wildcards, character classes, negation, ranges, on their own and combined), in a
    // consuming rule (ALLOW p; DISALLOW *  -> Ok exactly when the name matches) and a forbidding one (DISALLOW p -> the opposite);
    // a DISALLOW pattern that cannot be interpreted fails verification while artifacts are left
    {
        let table: Vec<(&str, Vec<&str>, Vec<&str>)> = vec![
            ("id.[kp]ey", vec!["id.key", "id.pey"], vec!["id.xey", "id.[kp]ey", "id.ey"]),
            ("main.[ch]", vec!["main.c", "main.h"], vec!["main.o", "main.[ch]", "main.ch"]),
            ("[!a]b", vec!["xb", "bb"], vec!["ab", "[!a]b", "b"]),
            ("f[0-9]", vec!["f0", "f9"], vec!["fa", "f[0-9]", "f10"]),
            ("x[]]y", vec!["x]y"], vec!["xy", "x[]]y"]),
            ("[[]z", vec!["[z"], vec!["z", "[[]z"]),
            ("*.[ch]", vec!["a.c", ".h"], vec!["a.o", "*.[ch]x"]),
            ("?[ab]", vec!["xa", "bb"], vec!["a", "xab"]),
            ("a?c", vec!["abc", "a.c"], vec!["ac", "abbc"]),
            ("lit", vec!["lit"], vec!["lit2", "li", "LIT"]),
        ];
        let mut bad: Vec<String> = vec![]; let mut n = 0;
        for (pat, yes, no) in &table {
            for (name, m) in yes.iter().map(|x| (*x, true)).chain(no.iter().map(|x| (*x, false))) {
                n += 2;
                let consuming = run_two(&[], &[(name, 1)], &[], vec![ArtifactRule::Allow(vp(pat)), dis()], allow_all());
                let forbidding = run_two(&[], &[(name, 1)], &[], vec![ArtifactRule::Disallow(vp(pat)), ArtifactRule::Allow(vp("*"))], allow_all());
                if consuming != Ok(m) && bad.len() < 8 { bad.push(format!("ALLOW {:?}; DISALLOW * over {:?}: {:?}, expected {}", pat, name, consuming, m)); }
                if forbidding != Ok(!m) && bad.len() < 8 { bad.push(format!("DISALLOW {:?} over {:?}: {:?}, expected {}", pat, name, forbidding, !m)); }
            }
        }
        for pat in ["secrets/[a-", "[", "a[!", "a**b"] {
            for rules in [vec![ArtifactRule::Allow(vp(pat)), ArtifactRule::Allow(vp("*"))], vec![ArtifactRule::Disallow(vp(pat)), ArtifactRule::Allow(vp("*"))], vec![ArtifactRule::Allow(vp("*")), ArtifactRule::Disallow(vp(pat))]] {
                n += 1;
                let shown = format!("{:?}", rules);
                let res = run_two(&[], &[("secrets/a", 1), (pat, 1)], &[], rules, allow_all());
                // a consuming rule with such a pattern consumes nothing; a DISALLOW with such a pattern must not silently forbid
                // nothing while artifacts are left in the queue (the last list has consumed everything before it is reached)
                let expect = !shown.starts_with("[Disallow");
                if res != Ok(expect) && bad.len() < 8 { bad.push(format!("{} with an uninterpretable pattern: {:?}, expected {}", shown, res, expect)); }
            }
        }
        r.case("pattern-grammar", json!({"inputs": n}), "every construct of the pattern grammar is honoured; an uninterpretable DISALLOW pattern fails verification", format!("{:?}", bad), bad.is_empty());
    }
    // digests are equal only when they are the same bytes: a digest that is a prefix of the other (truncated, empty), longer by a
    // byte or different in its last byte is another digest - for MATCH (not consumed) and for MODIFY (consumed as modified)
    {
        use in_toto::crypto::{HashAlgorithm, HashValue};
        let full: Vec<u8> = (1u8..=32).collect();
        let shapes: Vec<(&str, Vec<u8>, bool)> = vec![("identical", full.clone(), true), ("truncated to 16 bytes", full[..16].to_vec(), false), ("truncated by one byte", full[..31].to_vec(), false),
            ("empty", vec![], false), ("one byte longer", { let mut v = full.clone(); v.push(33); v }, false), ("last byte differs", { let mut v = full.clone(); v[31] ^= 1; v }, false), ("first byte differs", { let mut v = full.clone(); v[0] ^= 1; v }, false)];
        let td = |bytes: &Vec<u8>| -> in_toto::models::TargetDescription { [(HashAlgorithm::Sha256, HashValue::new(bytes.clone()))].into_iter().collect() };
        let arts = |bytes: &Vec<u8>| -> std::collections::BTreeMap<VirtualTargetPath, in_toto::models::TargetDescription> { [(vp("x"), td(bytes))].into_iter().collect() };
        let mut bad: Vec<String> = vec![]; let mut n = 0;
        for (what, other, same) in &shapes { for swapped in [false, true] {
            let (d_a, d_b) = if swapped { (other, &full) } else { (&full, other) };
            let owner = key(1); let ka = key(2); let kb = key(3);
            // MATCH: b's material x against a's product x
            let d = tmpdir();
            let la = in_toto::models::LinkMetadataBuilder::new().name("a".into()).products(arts(d_a)).build().unwrap();
            let lb = in_toto::models::LinkMetadataBuilder::new().name("b".into()).materials(arts(d_b)).build().unwrap();
            write_link(d.path(), "a", ka.key_id(), &signed_link(&la, &[&ka])); write_link(d.path(), "b", kb.key_id(), &signed_link(&lb, &[&kb]));
            let lay = signed_layout(&layout(vec![step("a", 1, &[&ka], allow_all(), allow_all()), step("b", 1, &[&kb], vec![mtch("x", None, Artifact::Products, None, "a"), dis()], allow_all())], vec![], &[&ka, &kb], 30), &[&owner]);
            let res = no_panic(|| in_toto_verify(&lay, owner_keys(&[&owner]), d.path().to_str().unwrap(), None)).map(|r| r.is_ok());
            n += 1;
            if res != Ok(*same) && bad.len() < 8 { bad.push(format!("MATCH: digest {} (swapped {}): {:?}, expected {}", what, swapped, res, same)); }
            // MODIFY: b's material x (d_a) and product x (d_b)
            let d2 = tmpdir();
            let lb2 = in_toto::models::LinkMetadataBuilder::new().name("b".into()).materials(arts(d_a)).products(arts(d_b)).build().unwrap();
            write_link(d2.path(), "b", kb.key_id(), &signed_link(&lb2, &[&kb]));
            let lay2 = signed_layout(&layout(vec![step("b", 1, &[&kb], allow_all(), vec![ArtifactRule::Modify(vp("x")), dis()])], vec![], &[&kb], 30), &[&owner]);
            let res2 = no_panic(|| in_toto_verify(&lay2, owner_keys(&[&owner]), d2.path().to_str().unwrap(), None)).map(|r| r.is_ok());
            n += 1;
            if res2 != Ok(!*same) && bad.len() < 8 { bad.push(format!("MODIFY: digest {} (swapped {}): {:?}, expected {}", what, swapped, res2, !same)); }
        } }
        r.case("digest-shapes-in-rules", json!({"inputs": n}), "only identical bytes are an equal digest", format!("{:?}", bad), bad.is_empty());
    }
    // a MATCH rule compares the digest recorded on ITS side of the link: the same path recorded as material and as product with
    // every combination of digests against the source step's product / material of that name
    {
        let mut bad: Vec<String> = vec![]; let mut n = 0;
        for m in [1u8, 2] { for p in [1u8, 2] { for a in [1u8, 2] { for with in [Artifact::Products, Artifact::Materials] { for side in ["materials", "products"] {
            n += 1;
            let owner = key(1); let ka = key(2); let kb = key(3);
            let d = tmpdir();
            let la = if matches!(with, Artifact::Products) { link("a", &[("x", 9)], &[("x", a)]) } else { link("a", &[("x", a)], &[("x", 9)]) };
            write_link(d.path(), "a", ka.key_id(), &signed_link(&la, &[&ka]));
            write_link(d.path(), "b", kb.key_id(), &signed_link(&link("b", &[("x", m)], &[("x", p)]), &[&kb]));
            let rules = vec![mtch("x", None, with.clone(), None, "a"), dis()];
            let sb = if side == "materials" { step("b", 1, &[&kb], rules, allow_all()) } else { step("b", 1, &[&kb], allow_all(), rules) };
            let lay = signed_layout(&layout(vec![step("a", 1, &[&ka], allow_all(), allow_all()), sb], vec![], &[&ka, &kb], 30), &[&owner]);
            let res = no_panic(|| in_toto_verify(&lay, owner_keys(&[&owner]), d.path().to_str().unwrap(), None)).map(|r| r.is_ok());
            let expect = if side == "materials" { m == a } else { p == a };
            if res != Ok(expect) && bad.len() < 8 { bad.push(format!("b records x as material {} and product {}; a's {:?} x is {}; MATCH in expected_{}: {:?}, expected {}", m, p, with, a, side, res, expect)); }
        } } } } }
        r.case("match-compares-the-digest-of-its-own-side", json!({"inputs": n}), "Ok exactly when the digest on the rule's side equals the source step's", format!("{:?}", bad), bad.is_empty());
    }
    multi_alg(r, 1, "match-multi-algorithm");
    multi_alg_states(r, 4, "two-algorithm-artifact-states");
    state_matrix(r);
    hostile_paths(r);
}

/// C14 / C03: degenerate artifact paths (root, dots, blanks) against every MATCH prefix shape: a verdict, never a panic
fn hostile_paths(r: &mut Report) {
    let paths = ["/", "//", "/.", ".", "./", "..", "a/..", " ", "/a", "a/", "//a//"];
    let prefixes: [Option<&str>; 6] = [None, Some(""), Some("/"), Some("."), Some("a"), Some("a/")];
    let (mut n, mut panics): (usize, Vec<String>) = (0, vec![]);
    for p in paths {
        for src in prefixes {
            for dst in prefixes {
                for pat in ["*", p] {
                    n += 1;
                    let rules = vec![mtch(pat, src, Artifact::Products, dst, "a"), dis()];
                    if let Err(e) = run_two(&[(p, 1)], &[(p, 1)], &[], rules, allow_all()) {
                        if panics.len() < 5 { panics.push(format!("path {:?} pattern {:?} IN {:?} .. IN {:?}: {}", p, pat, src, dst, e)); }
                    }
                }
            }
        }
    }
    r.case("degenerate-paths-and-prefixes", json!({"verifications": n}), "a verdict from every call (no panic)", format!("{:?}", panics), panics.is_empty());
}

/// artifact state (created / deleted / modified / unchanged) x consuming rule kind x rule list (materials / products): `K *; DISALLOW *`
/// passes exactly when the artifact is not in that list's queue at all, or `K` is the rule for the artifact's state (or ALLOW)
fn state_matrix(r: &mut Report) {
    #[derive(Clone, Copy, Debug, PartialEq)] enum S { Created, Deleted, Modified, Unchanged }
    #[derive(Clone, Copy, Debug, PartialEq)] enum K { Create, Delete, Modify, Allow, MatchNothing, None }
    for pat in ["*", "f", "f*"] {
    for s in [S::Created, S::Deleted, S::Modified, S::Unchanged] {
        let (bm, bp): (Vec<(&str, u8)>, Vec<(&str, u8)>) = match s { S::Created => (vec![], vec![("f", 1)]), S::Deleted => (vec![("f", 1)], vec![]),
            S::Modified => (vec![("f", 1)], vec![("f", 2)]), S::Unchanged => (vec![("f", 1)], vec![("f", 1)]) };
        for k in [K::Create, K::Delete, K::Modify, K::Allow, K::MatchNothing, K::None] {
            for on_products in [false, true] {
                let mut rules = match k { K::Create => vec![ArtifactRule::Create(vp(pat))], K::Delete => vec![ArtifactRule::Delete(vp(pat))], K::Modify => vec![ArtifactRule::Modify(vp(pat))],
                    K::Allow => vec![ArtifactRule::Allow(vp(pat))], K::MatchNothing => vec![mtch(pat, None, Artifact::Products, None, "a")], K::None => vec![] };
                rules.push(dis());
                let in_queue = if on_products { !bp.is_empty() } else { !bm.is_empty() };
                let consumed = k == K::Allow || (k == K::Create && s == S::Created) || (k == K::Delete && s == S::Deleted) || (k == K::Modify && s == S::Modified);
                let expect = !in_queue || consumed;
                let res = if on_products { run_two(&[], &bm, &bp, allow_all(), rules.clone()) } else { run_two(&[], &bm, &bp, rules.clone(), allow_all()) };
                if res != Ok(expect) || pat == "*" {
                    r.case("rule-kind-by-artifact-state", json!({"state": format!("{:?}", s), "rule": format!("{:?} {}", k, pat), "list": if on_products { "expected_products" } else { "expected_materials" }}),
                           if expect { "Ok" } else { "Err" }, format!("{:?}", res), res == Ok(expect));
                }
            }
        }
    }
    }
}

/// artifacts recorded with two hash algorithms that agree in one and differ in the other are different artifacts: MATCH must not
/// consume them (C03), and the verdict must be the same on every run (C13: nothing may depend on which algorithm a map yields first)
/// artifacts recorded with two algorithms, in each state (unchanged / modified in one digest / modified in both / created / deleted),
/// under each consuming rule followed by DISALLOW: the state is decided by the digest MAPS, the same way on every run
pub fn multi_alg_states(r: &mut Report, repetitions: usize, tag: &str) {
    use in_toto::crypto::{HashAlgorithm, HashValue};
    use in_toto::models::{LinkMetadataBuilder, TargetDescription};
    let owner = key(1); let kb = key(3);
    let td = |a: u8, b: u8| -> TargetDescription { [(HashAlgorithm::Sha256, HashValue::new(vec![a; 32])), (HashAlgorithm::Sha512, HashValue::new(vec![b; 64]))].into_iter().collect() };
    let states: Vec<(&str, Option<TargetDescription>, Option<TargetDescription>, &str)> = vec![
        ("unchanged", Some(td(1, 1)), Some(td(1, 1)), "none"), ("sha512-changed", Some(td(1, 1)), Some(td(1, 2)), "modify"), ("sha256-changed", Some(td(1, 1)), Some(td(2, 1)), "modify"),
        ("both-changed", Some(td(1, 1)), Some(td(2, 2)), "modify"), ("created", None, Some(td(1, 1)), "create"), ("deleted", Some(td(1, 1)), None, "delete")];
    for (sid, m, p, consumed_by) in states {
        for kind in ["modify", "create", "delete"] {
            for on_products in [false, true] {
                let d = tmpdir();
                let lm = LinkMetadataBuilder::new().name("b".to_string()).materials(m.clone().into_iter().map(|t| (vp("f"), t)).collect()).products(p.clone().into_iter().map(|t| (vp("f"), t)).collect()).build().unwrap();
                write_link(d.path(), "b", kb.key_id(), &signed_link(&lm, &[&kb]));
                let rule = match kind { "modify" => ArtifactRule::Modify(vp("*")), "create" => ArtifactRule::Create(vp("*")), _ => ArtifactRule::Delete(vp("*")) };
                let rules = vec![rule, dis()];
                let in_queue = if on_products { p.is_some() } else { m.is_some() };
                let expect = !in_queue || kind == consumed_by;
                let st = if on_products { step("b", 1, &[&kb], allow_all(), rules) } else { step("b", 1, &[&kb], rules, allow_all()) };
                let lay = signed_layout(&layout(vec![st], vec![], &[&kb], 30), &[&owner]);
                let mut seen = std::collections::BTreeSet::new();
                for _ in 0..repetitions {
                    let res = no_panic(|| in_toto_verify(&lay, owner_keys(&[&owner]), d.path().to_str().unwrap(), None)).map(|r| r.is_ok());
                    seen.insert(format!("{:?}", res));
                }
                let want = format!("{:?}", Ok::<bool, String>(expect));
                if !(seen.len() == 1 && seen.contains(&want)) || (kind == "modify" && !on_products) {
                    r.case(tag, json!({"state": sid, "rule": format!("{} *; DISALLOW *", kind.to_uppercase()), "list": if on_products { "expected_products" } else { "expected_materials" }, "repetitions": repetitions}),
                           &format!("{} on every run", want), format!("{:?}", seen), seen.len() == 1 && seen.contains(&want));
                }
            }
        }
    }
}

pub fn multi_alg(r: &mut Report, repetitions: usize, tag: &str) {
    use in_toto::crypto::{HashAlgorithm, HashValue};
    use in_toto::models::{LinkMetadataBuilder, TargetDescription};
    let owner = key(1); let ka = key(2); let kb = key(3);
    let td = |a: u8, b: u8| -> TargetDescription { [(HashAlgorithm::Sha256, HashValue::new(vec![a; 32])), (HashAlgorithm::Sha512, HashValue::new(vec![b; 64]))].into_iter().collect() };
    let only = |alg: HashAlgorithm, v: u8, n: usize| -> TargetDescription { [(alg, HashValue::new(vec![v; n]))].into_iter().collect() };
    for (id, dst, src, expect) in [("both-equal", td(1, 1), td(1, 1), true), ("sha256-equal-sha512-differs", td(1, 1), td(1, 2), false),
                                   ("sha512-equal-sha256-differs", td(1, 1), td(2, 1), false), ("both-differ", td(1, 1), td(2, 2), false),
                                   // different sets of algorithms are different descriptions, whatever the shared ones say
                                   ("disjoint-algorithm-sets", only(HashAlgorithm::Sha512, 1, 64), only(HashAlgorithm::Sha256, 1, 32), false),
                                   ("source-has-an-extra-algorithm", only(HashAlgorithm::Sha256, 1, 32), td(1, 1), false),
                                   ("destination-has-an-extra-algorithm", td(1, 1), only(HashAlgorithm::Sha256, 1, 32), false),
                                   ("single-algorithm-equal", only(HashAlgorithm::Sha512, 3, 64), only(HashAlgorithm::Sha512, 3, 64), true)] {
        let d = tmpdir();
        let mk = |name: &str, mats: Vec<(&str, TargetDescription)>, prods: Vec<(&str, TargetDescription)>| LinkMetadataBuilder::new().name(name.to_string())
            .materials(mats.into_iter().map(|(p, t)| (vp(p), t)).collect()).products(prods.into_iter().map(|(p, t)| (vp(p), t)).collect()).build().unwrap();
        write_link(d.path(), "a", ka.key_id(), &signed_link(&mk("a", vec![], vec![("foo", dst.clone())]), &[&ka]));
        write_link(d.path(), "b", kb.key_id(), &signed_link(&mk("b", vec![("foo", src.clone())], vec![]), &[&kb]));
        let l = layout(vec![step("a", 1, &[&ka], allow_all(), allow_all()), step("b", 1, &[&kb], vec![mtch("foo", None, Artifact::Products, None, "a"), dis()], allow_all())], vec![], &[&ka, &kb], 30);
        let lay = signed_layout(&l, &[&owner]);
        let mut seen = std::collections::BTreeSet::new();
        for _ in 0..repetitions {
            let res = no_panic(|| in_toto_verify(&lay, owner_keys(&[&owner]), d.path().to_str().unwrap(), None)).map(|r| r.is_ok());
            seen.insert(format!("{:?}", res));
        }
        let want = format!("{:?}", Ok::<bool, String>(expect));
        r.case(tag, json!({"digests": id, "repetitions": repetitions}), &format!("{} on every run", want), format!("{:?}", seen), seen.len() == 1 && seen.contains(&want));
    }
}
