//! C20 witnesses: PAE pack/unpack round trip and totality on the real code.
use crate::util::no_panic;
use crate::Report;
use in_toto::models::DSSEVersion;
use serde_json::json;

pub fn run(r: &mut Report) {
    let types = ["", "link", "Link", "LINK", "a b", "12 3", " ", "https://in-toto.io/statement/v0.1", "https://in-toto.io/Statement/v0.1", "\u{e9}t\u{20ac}", "\u{c9}T\u{20ac}", " lead", "trail ", "a\tb", "a\nb"];
    let payloads: Vec<Vec<u8>> = vec![vec![], b" ".to_vec(), b"DSSEv1 4 link 0 ".to_vec(), b"7 x".to_vec(), vec![0, 255, 32, 48, 49]];
    let mut seen: Vec<(Vec<u8>, (String, Vec<u8>))> = vec![];
    for t in types {
        for p in &payloads {
            let packed = DSSEVersion::V1.pack(p, t.to_string());
            let res = no_panic(|| DSSEVersion::V1.unpack(&packed));
            let ok = matches!(&res, Ok(Ok((pp, tt))) if pp == p && tt == t);
            r.case("pae-roundtrip", json!({"type": t, "payload": p}), "unpack(pack(t,p)) == Ok((p,t))",
                   format!("{:?}", res.map(|x| x.map_err(|e| e.to_string()))), ok);
            // the version-guessing entry point decodes what the packer wrote just the same
            let res2 = no_panic(|| DSSEVersion::try_unpack(&packed));
            let ok2 = matches!(&res2, Ok(Ok((pp, tt))) if pp == p && tt == t);
            if !ok2 { r.case("pae-roundtrip-try-unpack", json!({"type": t, "payload": p}), "try_unpack(pack(t,p)) == Ok((p,t))", format!("{:?}", res2.map(|x| x.map_err(|e| e.to_string()))), false); }
            for (b, (t2, p2)) in &seen {
                if *b == packed && !(t2 == t && p2 == p) {
                    r.case("pae-injective", json!({"a": [t, p], "b": [t2, p2]}), "distinct pairs pack differently",
                           "collision".into(), false);
                }
            }
            seen.push((packed, (t.to_string(), p.clone())));
        }
    }
    r.cases += 1;
    // every length (the decimal length fields take every digit in every position): types of 0..=130 and payloads of 0..=1200 bytes
    {
        let mut bad: Vec<String> = vec![]; let mut n = 0;
        for tl in (0usize..=130).chain([199, 200, 909, 990, 999, 1000]) {
            for pl in [0usize, 1, 9, 10, 19, 90, 99, 100, 109, 190, 199, 900, 909, 990, 999, 1000, 1009, 1099, 1199] {
                n += 1;
                let t: String = std::iter::repeat('t').take(tl).collect(); let p: Vec<u8> = vec![b'p'; pl];
                let packed = DSSEVersion::V1.pack(&p, t.clone());
                for (how, res) in [("unpack", no_panic(|| DSSEVersion::V1.unpack(&packed))), ("try_unpack", no_panic(|| DSSEVersion::try_unpack(&packed)))] {
                    if !matches!(&res, Ok(Ok((pp, tt))) if *pp == p && *tt == t) && bad.len() < 5 { bad.push(format!("type length {} payload length {} via {}: {:?}", tl, pl, how, res.map(|x| x.map(|_| "other pair").map_err(|e| e.to_string())))); }
                }
            }
        }
        for pl in 0usize..=1200 {
            n += 1;
            let p: Vec<u8> = vec![b'p'; pl];
            let packed = DSSEVersion::V1.pack(&p, "link".to_string());
            if !matches!(no_panic(|| DSSEVersion::V1.unpack(&packed)), Ok(Ok((pp, tt))) if pp == p && tt == "link") && bad.len() < 5 { bad.push(format!("payload length {}", pl)); }
        }
        r.case("pae-roundtrip-every-length", json!({"pairs": n}), "every pair round-trips", format!("{:?}", bad), bad.is_empty());
    }
    // totality on adversarial framings
    let bad: Vec<&[u8]> = vec![b"", b"DSSEv1", b"DSSEv1 ", b"DSSEv1 9 ab 0 ", b"DSSEv1 2 ab", b"DSSEv1 2 ab ", b"DSSEv1 2 ab 5 x",
        b"DSSEv1 18446744073709551615 a 0 ", b"DSSEv1 18446744073709551616 a 0 ", b"DSSEv1 0  99999999999 ", b"DSSEv1 1 \xff 0 ",
        b"DSSEv1 +1 a 0 ", b"DSSEv1 1 a 00 ", b"DSSEv1 x", b"XSSEv1 1 a 0 "];
    for b in bad {
        let res = no_panic(|| DSSEVersion::V1.unpack(b).map(|_| ()).map_err(|e| e.to_string()));
        r.case("pae-total", json!({"bytes": String::from_utf8_lossy(b)}), "Ok or Err, no panic", format!("{:?}", res), res.is_ok());
    }
    // thorough: every byte string over the framing alphabet up to 6 bytes after the fixed prefix decodes to a pair or an error
    if crate::util::thorough() {
        let alpha: [u8; 7] = [b' ', b'0', b'1', b'2', b'9', b'a', 0xff];
        let mut total = 0u64;
        let mut panics = 0u64;
        let mut first: Option<Vec<u8>> = None;
        for len in 0..=6usize {
            let mut idx = vec![0usize; len];
            loop {
                let mut b = b"DSSEv1 ".to_vec();
                b.extend(idx.iter().map(|i| alpha[*i]));
                total += 1;
                if no_panic(|| DSSEVersion::V1.unpack(&b).map(|_| ()).map_err(|_| ())).is_err() {
                    panics += 1;
                    if first.is_none() { first = Some(b.clone()); }
                }
                let mut k = 0;
                while k < len { idx[k] += 1; if idx[k] < alpha.len() { break; } idx[k] = 0; k += 1; }
                if k == len { break; }
            }
        }
        r.case("pae-total-exhaustive", json!({"alphabet": "space 0 1 2 9 a 0xff", "max_len_after_prefix": 6, "inputs": total}),
               "no panic", format!("{} panics, first: {:?}", panics, first.map(|b| String::from_utf8_lossy(&b).to_string())), panics == 0);
    }
    // pseudo-random pairs (seeded from VERIF_SEED): round trip and injectivity; pseudo-random byte strings: a pair or an error
    {
        struct Rng(u64);
        impl Rng { fn next(&mut self) -> u64 { let mut x = self.0; x ^= x << 13; x ^= x >> 7; x ^= x << 17; self.0 = x; x } fn below(&mut self, n: u64) -> u64 { self.next() % n } }
        let seed: u64 = std::env::var("VERIF_SEED").ok().and_then(|s| s.parse().ok()).unwrap_or(0);
        let mut rng = Rng(0xA0761D6478BD642F ^ seed.wrapping_mul(0xE7037ED1A0B428DB) | 1);
        let tchars: Vec<char> = "abAB zZ019/:.-_\t\n\u{e9}\u{c9}\u{20ac}\u{1F600}".chars().collect();
        let n = crate::util::scale(2000, 50000);
        let mut seen: std::collections::HashMap<Vec<u8>, (String, Vec<u8>)> = std::collections::HashMap::new();
        let mut bad = 0; let mut first = String::new();
        for _ in 0..n {
            let t: String = (0..rng.below(8)).map(|_| tchars[rng.below(tchars.len() as u64) as usize]).collect();
            let p: Vec<u8> = (0..rng.below(12)).map(|_| match rng.below(4) { 0 => b' ', 1 => b'0' + rng.below(10) as u8, _ => rng.below(256) as u8 }).collect();
            let packed = DSSEVersion::V1.pack(&p, t.clone());
            let res = no_panic(|| DSSEVersion::V1.unpack(&packed));
            let ok = matches!(&res, Ok(Ok((pp, tt))) if *pp == p && *tt == t);
            let collide = matches!(seen.get(&packed), Some((t2, p2)) if *t2 != t || *p2 != p);
            seen.insert(packed, (t.clone(), p.clone()));
            if !ok || collide { bad += 1; if first.is_empty() { first = format!("type={:?} payload={:?} -> {:?} collide={}", t, p, res.map(|x| x.map_err(|e| e.to_string())), collide); } }
            let junk: Vec<u8> = { let mut j = b"DSSEv1 ".to_vec(); j.extend((0..rng.below(14)).map(|_| match rng.below(3) { 0 => b' ', 1 => b'0' + rng.below(10) as u8, _ => rng.below(256) as u8 })); j };
            if no_panic(|| DSSEVersion::V1.unpack(&junk).map(|_| ()).map_err(|_| ())).is_err() { bad += 1; if first.is_empty() { first = format!("panic on {:?}", junk); } }
        }
        r.case("pae-random", json!({"pairs": n, "seed": seed}), "every pair round-trips, no two pairs collide, junk decodes to a pair or an error", format!("{} failures; first: {}", bad, first), bad == 0);
    }
}
