//! C18 witnesses: recorded artifacts carry the true digests; strip-prefix selection; duplicate keys.
use crate::util::no_panic;
use crate::Report;
use in_toto::runlib::{record_artifact, record_artifacts};
use in_toto::crypto::HashAlgorithm;
use serde_json::json;

pub fn run(r: &mut Report) {
    let d = crate::fixture::tmpdir();
    // digests of files of many sizes (block boundaries, > 64 KiB) equal an independent SHA-256
    for size in [0usize, 1, 1023, 1024, 1025, 8191, 8192, 8193, 65535, 65536, 65537, 200_000] {
        let p = d.path().join(format!("f{}", size));
        let data: Vec<u8> = (0..size).map(|i| (i * 31 % 251) as u8).collect();
        std::fs::write(&p, &data).unwrap();
        let want = ring::digest::digest(&ring::digest::SHA256, &data);
        let got = no_panic(|| record_artifact(p.to_str().unwrap(), &[HashAlgorithm::Sha256], None));
        let ok = matches!(&got, Ok(Ok((_, h))) if h.get(&HashAlgorithm::Sha256).map(|v| v.value().to_vec()) == Some(want.as_ref().to_vec()));
        r.case("digest-equals-sha256", json!({"size": size}), "sha256 of the whole file", format!("{:?}", got.as_ref().map(|x| x.as_ref().map(|_| "recorded").map_err(|e| e.to_string()))), ok);
    }
    // longest strip prefix wins; two files that would get the same key are an error
    let sub = d.path().join("a").join("b");
    std::fs::create_dir_all(&sub).unwrap();
    std::fs::write(sub.join("x"), b"1").unwrap();
    let root = d.path().to_str().unwrap().to_string();
    let p1 = format!("{}/a/", root);
    let p2 = format!("{}/a/b/", root);
    let got = no_panic(|| record_artifacts(&[sub.to_str().unwrap()], None, Some(&[p1.as_str(), p2.as_str()])));
    let keys: Option<Vec<String>> = got.ok().and_then(|x| x.ok()).map(|m| m.keys().map(|k| k.value().to_string()).collect());
    r.case("longest-strip-prefix", json!({"prefixes": ["<root>/a/", "<root>/a/b/"]}), "[\"x\"]", format!("{:?}", keys), keys == Some(vec!["x".to_string()]));
    std::fs::create_dir_all(d.path().join("c")).unwrap();
    std::fs::write(d.path().join("c").join("x"), b"2").unwrap();
    let p3 = format!("{}/c/", root);
    let got = no_panic(|| record_artifacts(&[sub.to_str().unwrap(), d.path().join("c").to_str().unwrap()], None, Some(&[p2.as_str(), p3.as_str()])));
    r.case("duplicate-key-is-an-error", json!({"files": ["a/b/x", "c/x"], "strip": ["a/b/", "c/"]}), "Err", format!("{:?}", got.as_ref().map(|x| x.as_ref().map(|m| m.len()).map_err(|e| e.to_string()))), matches!(&got, Ok(Err(_))));
}
