//! C18 witnesses: recorded artifacts carry the true digests; strip-prefix selection; duplicate keys.
use crate::util::no_panic;
use crate::Report;
use in_toto::runlib::{record_artifact, record_artifacts};
use in_toto::crypto::HashAlgorithm;
use serde_json::json;

pub fn run(r: &mut Report) {
    let d = crate::fixture::tmpdir();
    // digests of files of many sizes (block boundaries, > 64 KiB) equal an independent SHA-256
    for size in [0usize, 1, 1023, 1024, 1025, 8191, 8192, 8193, 65535, 65536, 65537, 200_000] {
        let p = d.path().join(format!("f{}", size));
        let data: Vec<u8> = (0..size).map(|i| (i * 31 % 251) as u8).collect();
        std::fs::write(&p, &data).unwrap();
        let want = ring::digest::digest(&ring::digest::SHA256, &data);
        let got = no_panic(|| record_artifact(p.to_str().unwrap(), &[HashAlgorithm::Sha256], None));
        let ok = matches!(&got, Ok(Ok((_, h))) if h.get(&HashAlgorithm::Sha256).map(|v| v.value().to_vec()) == Some(want.as_ref().to_vec()));
        r.case("digest-equals-sha256", json!({"size": size}), "sha256 of the whole file", format!("{:?}", got.as_ref().map(|x| x.as_ref().map(|_| "recorded").map_err(|e| e.to_string()))), ok);
    }
    // longest strip prefix wins; two files that would get the same key are an error
    let sub = d.path().join("a").join("b");
    std::fs::create_dir_all(&sub).unwrap();
    std::fs::write(sub.join("x"), b"1").unwrap();
    let root = d.path().to_str().unwrap().to_string();
    let p1 = format!("{}/a/", root);
    let p2 = format!("{}/a/b/", root);
    let got = no_panic(|| record_artifacts(&[sub.to_str().unwrap()], None, Some(&[p1.as_str(), p2.as_str()])));
    let keys: Option<Vec<String>> = got.ok().and_then(|x| x.ok()).map(|m| m.keys().map(|k| k.value().to_string()).collect());
    r.case("longest-strip-prefix", json!({"prefixes": ["<root>/a/", "<root>/a/b/"]}), "[\"x\"]", format!("{:?}", keys), keys == Some(vec!["x".to_string()]));
    std::fs::create_dir_all(d.path().join("c")).unwrap();
    std::fs::write(d.path().join("c").join("x"), b"2").unwrap();
    let p3 = format!("{}/c/", root);
    let got = no_panic(|| record_artifacts(&[sub.to_str().unwrap(), d.path().join("c").to_str().unwrap()], None, Some(&[p2.as_str(), p3.as_str()])));
    r.case("duplicate-key-is-an-error", json!({"files": ["a/b/x", "c/x"], "strip": ["a/b/", "c/"]}), "Err", format!("{:?}", got.as_ref().map(|x| x.as_ref().map(|m| m.len()).map_err(|e| e.to_string()))), matches!(&got, Ok(Err(_))));
    // two files that would receive the same key are an error whatever they are and hold: regular files or links to files, equal or
    // different content, whichever is met first
    {
        use std::os::unix::fs::symlink;
        for (kind_a, kind_b, same_content) in [("file", "file", true), ("file", "file", false), ("file", "link", true), ("file", "link", false), ("link", "file", true), ("link", "link", true)] {
            for (da, db) in [("a", "c"), ("c", "a")] {
                let t = crate::fixture::tmpdir();
                std::fs::write(t.path().join("store-1"), b"same").unwrap();
                std::fs::write(t.path().join("store-2"), if same_content { b"same".to_vec() } else { b"other".to_vec() }).unwrap();
                for (dir, kind, store) in [(da, kind_a, "store-1"), (db, kind_b, "store-2")] {
                    std::fs::create_dir_all(t.path().join(dir)).unwrap();
                    if kind == "file" { std::fs::copy(t.path().join(store), t.path().join(dir).join("x")).unwrap(); } else { symlink(t.path().join(store), t.path().join(dir).join("x")).unwrap(); }
                }
                let root = t.path().to_str().unwrap().to_string();
                let (pa, pc) = (format!("{}/a/", root), format!("{}/c/", root));
                let (aa, ac) = (format!("{}/a", root), format!("{}/c", root));
                let got = no_panic(|| record_artifacts(&[aa.as_str(), ac.as_str()], None, Some(&[pa.as_str(), pc.as_str()])));
                r.case("same-key-is-an-error-whatever-the-files-are", json!({"first": format!("{}/x: {}", da, kind_a), "second": format!("{}/x: {}", db, kind_b), "same_content": same_content}), "Err",
                       format!("{:?}", got.as_ref().map(|x| x.as_ref().map(|m| m.keys().map(|k| k.value().to_string()).collect::<Vec<_>>()).map_err(|e| e.to_string().chars().take(60).collect::<String>()))), matches!(&got, Ok(Err(_))));
            }
        }
    }
    // the chosen strip prefix is removed ONCE, from the front: directories nested in a directory of the same name keep their inner
    // components (oracle: the path text minus the longest given prefix it starts with)
    {
        let t = crate::fixture::tmpdir();
        let root = t.path().to_str().unwrap().to_string();
        let files = ["build/build/cache.o", "build/app", "build/build/build/deep", "aa/aa/aa/f", "aa/g", "ab/ab", "x/y/x/y/z",
                     "donn\u{e9}es/alpha.txt", "donn\u{e9}es/beta.txt", "\u{6784}\u{5efa}/\u{8f93}\u{51fa}/app.bin", "\u{6784}\u{5efa}/\u{8f93}\u{51fa}/bpp.bin", "\u{1f600}/e\u{301}/f"];
        for f in files { let p = t.path().join(f); std::fs::create_dir_all(p.parent().unwrap()).unwrap(); std::fs::write(&p, f).unwrap(); }
        for prefixes in [vec!["build/"], vec!["aa/"], vec!["aa/", "aa/aa/"], vec!["x/y/"], vec!["a"], vec!["build/", "aa/", "ab/", "x/"], vec![""],
                         vec!["donn\u{e9}es/"], vec!["\u{6784}\u{5efa}/\u{8f93}\u{51fa}/"], vec!["\u{6784}\u{5efa}/", "\u{1f600}/e\u{301}/", "donn\u{e9}es/"]] {
            let full: Vec<String> = prefixes.iter().map(|p| format!("{}/{}", root, p)).collect();
            let refs: Vec<&str> = full.iter().map(|x| x.as_str()).collect();
            let got = no_panic(|| record_artifacts(&[root.as_str()], None, Some(&refs)));
            let mut want: Vec<String> = files.iter().map(|f| { let p = format!("{}/{}", root, f);
                let best = full.iter().filter(|l| p.starts_with(l.as_str())).max_by_key(|l| l.len());
                match best { Some(l) => p[l.len()..].to_string(), None => p } }).collect();
            want.sort();
            let unique = { let mut u = want.clone(); u.dedup(); u.len() == want.len() };
            let have: Option<Vec<String>> = match &got { Ok(Ok(m)) => { let mut v: Vec<String> = m.keys().map(|k| k.value().to_string()).collect(); v.sort(); Some(v) } _ => None };
            let ok = if unique { have.as_ref() == Some(&want) } else { matches!(&got, Ok(Err(_))) };
            r.case("strip-prefix-removed-once", json!({"strip": prefixes, "tree": files}), &if unique { format!("{:?}", want) } else { "Err (two files would share a key)".to_string() }, format!("{:?}", have), ok);
        }
        // the same with RELATIVE arguments and prefixes (recorded from inside the directory), where a prefix can repeat at the very
        // front of what is left after removing it
        for prefixes in [vec!["build/"], vec!["aa/"], vec!["aa/", "aa/aa/"], vec!["x/y/"], vec!["a"], vec!["build/", "aa/", "ab/", "x/"], vec!["build/build/"], vec!["x/", "x/y/x/"],
                         vec!["donn\u{e9}es/"], vec!["\u{6784}\u{5efa}/\u{8f93}\u{51fa}/"], vec!["\u{6784}\u{5efa}/", "\u{1f600}/e\u{301}/", "donn\u{e9}es/"]] {
            let _g = crate::c08::CWD_LOCK.lock().unwrap();
            let old = std::env::current_dir().unwrap();
            std::env::set_current_dir(t.path()).unwrap();
            let got = no_panic(|| record_artifacts(&["build", "aa", "ab", "x", "donn\u{e9}es", "\u{6784}\u{5efa}", "\u{1f600}"], None, Some(&prefixes)));
            std::env::set_current_dir(old).unwrap();
            let mut want: Vec<String> = files.iter().map(|f| { let best = prefixes.iter().filter(|l| f.starts_with(**l)).max_by_key(|l| l.len()); match best { Some(l) => f[l.len()..].to_string(), None => f.to_string() } }).collect();
            want.sort();
            let unique = { let mut u = want.clone(); u.dedup(); u.len() == want.len() };
            let have: Option<Vec<String>> = match &got { Ok(Ok(m)) => { let mut v: Vec<String> = m.keys().map(|k| k.value().to_string()).collect(); v.sort(); Some(v) } _ => None };
            let ok = if unique { have.as_ref() == Some(&want) } else { matches!(&got, Ok(Err(_))) };
            r.case("strip-prefix-removed-once-relative", json!({"strip": prefixes, "tree": files}), &if unique { format!("{:?}", want) } else { "Err (two files would share a key)".to_string() }, format!("{:?} {:?}", have, got.as_ref().map(|x| x.as_ref().map(|_| ()).map_err(|e| e.to_string()))), ok);
        }
    }
    trees(r);
    run_step_before_after(r);
    run_step_content_oracle(r);
    run_step_output_bytes(r);
    digest_routine(r);
    run_command_arguments(r);
}

/// independent oracle: every regular file reachable under `root` (following symlinks to files and directories, never entering a
/// directory twice on one path), keyed by the path as traversed
fn oracle(root: &std::path::Path) -> std::collections::BTreeSet<String> {
    fn go(p: &std::path::Path, stack: &mut Vec<std::path::PathBuf>, out: &mut std::collections::BTreeSet<String>) {
        let md = match std::fs::metadata(p) { Ok(m) => m, Err(_) => return };   // follows links; dangling links are skipped
        if md.is_file() { out.insert(p.to_str().unwrap().to_string()); return; }
        if md.is_dir() {
            let real = match std::fs::canonicalize(p) { Ok(c) => c, Err(_) => return };
            if stack.contains(&real) { return; }      // a cycle: already inside this directory
            stack.push(real);
            let mut names: Vec<_> = std::fs::read_dir(p).unwrap().map(|e| e.unwrap().file_name()).collect();
            names.sort();
            for n in names { go(&p.join(n), stack, out); }
            stack.pop();
        }
    }
    let mut out = Default::default();
    go(root, &mut vec![], &mut out);
    out
}

fn trees(r: &mut Report) {
    use std::os::unix::fs::symlink;
    struct T { id: &'static str, build: fn(&std::path::Path) }
    let ts = [
        T { id: "nested-dirs-empty-dirs-odd-names", build: |d| {
            for p in ["a/b/c", "empty", "sp ace", ".hidden", "u\u{e9}\u{20ac}"] { std::fs::create_dir_all(d.join(p)).unwrap(); }
            for (p, c) in [("top", "1"), ("a/x", "2"), ("a/b/y", "3"), ("a/b/c/z", "4"), ("sp ace/f g", "5"), (".hidden/.dot", "6"), ("u\u{e9}\u{20ac}/n\u{e9}", "7"), ("empty_file", "")] { std::fs::write(d.join(p), c).unwrap(); }
        } },
        T { id: "absolute-symlink-to-file", build: |d| { std::fs::write(d.join("target"), "t").unwrap(); symlink(d.join("target"), d.join("link")).unwrap(); } },
        T { id: "relative-symlink-to-file", build: |d| { std::fs::write(d.join("target"), "t").unwrap(); symlink("target", d.join("link")).unwrap(); } },
        T { id: "relative-symlink-to-file-in-subdir", build: |d| { std::fs::create_dir_all(d.join("sub")).unwrap(); std::fs::write(d.join("sub/target"), "t").unwrap(); symlink("target", d.join("sub/link")).unwrap(); } },
        T { id: "absolute-symlink-to-dir", build: |d| { std::fs::create_dir_all(d.join("real")).unwrap(); std::fs::write(d.join("real/f"), "t").unwrap(); symlink(d.join("real"), d.join("ldir")).unwrap(); } },
        T { id: "relative-symlink-to-dir", build: |d| { std::fs::create_dir_all(d.join("real")).unwrap(); std::fs::write(d.join("real/f"), "t").unwrap(); symlink("real", d.join("ldir")).unwrap(); } },
        T { id: "symlink-cycle-to-parent", build: |d| { std::fs::create_dir_all(d.join("a")).unwrap(); std::fs::write(d.join("a/f"), "t").unwrap(); symlink("..", d.join("a/up")).unwrap(); } },
        T { id: "symlink-cycle-to-self-dir", build: |d| { std::fs::create_dir_all(d.join("a")).unwrap(); std::fs::write(d.join("a/f"), "t").unwrap(); symlink(d.join("a"), d.join("a/self")).unwrap(); } },
        // cycle links among many siblings (whatever order the directory is listed in, some siblings come after the link)
        T { id: "symlink-cycles-among-many-siblings", build: |d| { std::fs::create_dir_all(d.join("pkg/sub")).unwrap();
            for i in 0..24 { std::fs::write(d.join(format!("pkg/{}{}", ["a", "m", "z", "B", "_", "0"][i % 6], i)), format!("c{}", i)).unwrap(); }
            for i in 0..6 { std::fs::write(d.join(format!("pkg/sub/s{}", i)), format!("s{}", i)).unwrap(); }
            symlink("..", d.join("pkg/back")).unwrap(); symlink(".", d.join("pkg/here")).unwrap(); symlink("../..", d.join("pkg/sub/up2")).unwrap(); } },
        // links whose own text is much shorter than the file they lead to (and the other way round)
        T { id: "short-link-to-long-file", build: |d| { std::fs::write(d.join("out.txt"), vec![b'x'; 70_000]).unwrap(); symlink("out.txt", d.join("latest")).unwrap();
            std::fs::create_dir_all(d.join("deep/er")).unwrap(); std::fs::write(d.join("deep/er/tiny"), "t").unwrap(); symlink("deep/er/../../deep/er/../er/tiny", d.join("long-link-to-tiny-file")).unwrap(); } },
        // deep and wide: 70 nested directories with a file at several depths (also far below any plausible link-depth limit), a chain
        // of twelve links, a directory with 600 entries
        T { id: "very-deep-nesting", build: |d| { let mut p = d.to_path_buf(); for i in 0..70 { p = p.join(format!("d{}", i % 10)); std::fs::create_dir_all(&p).unwrap(); if i % 8 == 7 || i >= 38 && i <= 44 || i == 69 { std::fs::write(p.join(format!("f{}", i)), format!("{}", i)).unwrap(); } } } },
        T { id: "long-chain-of-links", build: |d| { std::fs::write(d.join("target"), "t").unwrap(); let mut prev = "target".to_string(); for i in 0..12 { let n = format!("l{}", i); symlink(&prev, d.join(&n)).unwrap(); prev = n; } } },
        T { id: "very-wide-directory", build: |d| { std::fs::create_dir_all(d.join("w")).unwrap(); for i in 0..600 { std::fs::write(d.join(format!("w/f{:04}", i)), format!("{}", i)).unwrap(); } } },
        T { id: "symlink-to-symlink-to-file", build: |d| { std::fs::write(d.join("target"), "t").unwrap(); symlink(d.join("target"), d.join("l1")).unwrap(); symlink(d.join("l1"), d.join("l2")).unwrap(); } },
    ];
    for t in ts.iter() {
        let d = crate::fixture::tmpdir();
        let root = d.path().join("root");
        std::fs::create_dir_all(&root).unwrap();
        (t.build)(&root);
        let want = oracle(&root);
        let got = no_panic(|| record_artifacts(&[root.to_str().unwrap()], None, None));
        let obs = match &got {
            Ok(Ok(m)) => { let keys: std::collections::BTreeSet<String> = m.keys().map(|k| k.value().to_string()).collect();
                           let mut digest_ok = true;
                           for (k, h) in m.iter() { let data = std::fs::read(k.value()).unwrap_or_default(); let w = ring::digest::digest(&ring::digest::SHA256, &data);
                               if h.get(&HashAlgorithm::Sha256).map(|v| v.value().to_vec()) != Some(w.as_ref().to_vec()) { digest_ok = false; } }
                           if keys == want && digest_ok { "as-oracle".to_string() } else {
                               format!("missing={:?} extra={:?} digests_ok={}", want.difference(&keys).map(|s| s.replace(root.to_str().unwrap(), "<root>")).collect::<Vec<_>>(),
                                       keys.difference(&want).map(|s| s.replace(root.to_str().unwrap(), "<root>")).collect::<Vec<_>>(), digest_ok) } }
            Ok(Err(e)) => format!("Err({})", e.to_string().replace(root.to_str().unwrap(), "<root>")),
            Err(p) => format!("panic: {}", p),
        };
        r.case(&format!("tree-{}", t.id), json!({"tree": t.id, "expected_entries": want.len()}), "exactly the regular files reachable through links, each with its true sha256", obs.clone(), obs == "as-oracle");
    }
    // overlapping and non-normalised path arguments
    let d = crate::fixture::tmpdir();
    let root = d.path().join("root");
    std::fs::create_dir_all(root.join("a")).unwrap();
    std::fs::write(root.join("a/f"), "1").unwrap();
    std::fs::write(root.join("g"), "2").unwrap();
    let rs = root.to_str().unwrap().to_string();
    let got = no_panic(|| record_artifacts(&[format!("{}/./a/../a", rs).as_str()], None, Some(&[format!("{}/", rs).as_str()])));
    let keys = got.as_ref().ok().and_then(|x| x.as_ref().ok()).map(|m| m.keys().map(|k| k.value().to_string()).collect::<Vec<_>>());
    r.case("non-normalised-argument", json!({"path": "<root>/./a/../a", "strip": "<root>/"}), "[\"a/f\"]", format!("{:?}", keys), keys == Some(vec!["a/f".to_string()]));
    // every spelling of one directory records the same entries (the argument is normalised as text before anything is read), and every
    // recorded key names a file that really has the recorded digest
    {
        use std::os::unix::fs::symlink;
        let d2 = crate::fixture::tmpdir();
        let t = d2.path().join("T");
        std::fs::create_dir_all(t.join("a/b")).unwrap(); std::fs::create_dir_all(t.join("a/c")).unwrap(); std::fs::create_dir_all(t.join("t/sub")).unwrap(); std::fs::create_dir_all(t.join("t/b")).unwrap();
        std::fs::write(t.join("a/b/x"), "x").unwrap(); std::fs::write(t.join("a/b/y"), "y").unwrap(); std::fs::write(t.join("t/b/x"), "other x").unwrap(); std::fs::write(t.join("t/b/z"), "z").unwrap();
        symlink("../t/sub", t.join("a/link")).unwrap();
        let ts = t.to_str().unwrap().to_string();
        let reference = no_panic(|| record_artifacts(&[format!("{}/a/b", ts).as_str()], None, None)).ok().and_then(|x| x.ok());
        for sp in ["a/b/", "a//b", "./a/b", "a/./b", "a/c/../b", "a/b/../b", "a/link/../b", "t/../a/b"] {
            let got = no_panic(|| record_artifacts(&[format!("{}/{}", ts, sp).as_str()], None, None));
            let same = match (&got, &reference) { (Ok(Ok(g)), Some(rf)) => g == rf, _ => false };
            let honest = match &got { Ok(Ok(g)) => g.iter().all(|(k, h)| std::fs::read(k.value()).map(|b| h.get(&HashAlgorithm::Sha256).map(|v| v.value().to_vec()) == Some(ring::digest::digest(&ring::digest::SHA256, &b).as_ref().to_vec())).unwrap_or(false)), _ => false };
            r.case("argument-spelling", json!({"spelling": format!("<T>/{}", sp), "same_directory_as": "<T>/a/b"}), "the entries of <T>/a/b; every key names a file with the recorded digest",
                   format!("same_as_reference={} every_entry_true={} got={:?}", same, honest, got.as_ref().map(|x| x.as_ref().map(|m| m.keys().map(|k| k.value().rsplit('/').next().unwrap_or("").to_string()).collect::<Vec<_>>()).map_err(|e| e.to_string()))), same && honest);
        }
    }
    let got = no_panic(|| record_artifacts(&[rs.as_str(), format!("{}/a", rs).as_str()], None, None));
    r.case("overlapping-arguments", json!({"paths": ["<root>", "<root>/a"]}), "Err (the same file would be recorded twice)", format!("{:?}", got.as_ref().map(|x| x.as_ref().map(|m| m.len()).map_err(|e| e.to_string().len()))), matches!(&got, Ok(Err(_))));
    // several arguments whose names are string prefixes of each other without one containing the other (build / build-cache,
    // a file and its .asc): every argument is walked, in whatever order they are given
    {
        let t = crate::fixture::tmpdir();
        let ts = t.path().to_str().unwrap().to_string();
        for (p, c) in [("build/out.bin", "1"), ("build-cache/obj.o", "2"), ("build.d/x", "3"), ("foo.tar.gz", "4"), ("foo.tar.gz.asc", "5"), ("foo.tar", "6")] {
            let f = t.path().join(p); std::fs::create_dir_all(f.parent().unwrap()).unwrap(); std::fs::write(&f, c).unwrap();
        }
        for args in [vec!["build", "build-cache"], vec!["build-cache", "build"], vec!["build", "build.d", "build-cache"], vec!["foo.tar.gz", "foo.tar.gz.asc"], vec!["foo.tar.gz.asc", "foo.tar", "foo.tar.gz"], vec!["foo.tar", "build", "foo.tar.gz", "build-cache"]] {
            let full: Vec<String> = args.iter().map(|a| format!("{}/{}", ts, a)).collect();
            let refs: Vec<&str> = full.iter().map(|x| x.as_str()).collect();
            let got = no_panic(|| record_artifacts(&refs, None, None));
            let mut want: Vec<String> = vec![];
            for a in &args { let p = t.path().join(a); if p.is_file() { want.push(a.to_string()); } else { for e in std::fs::read_dir(&p).unwrap() { want.push(format!("{}/{}", a, e.unwrap().file_name().to_string_lossy())); } } }
            want.sort();
            let have: Option<Vec<String>> = match &got { Ok(Ok(m)) => { let mut v: Vec<String> = m.keys().map(|k| k.value().trim_start_matches(&format!("{}/", ts)).to_string()).collect(); v.sort(); Some(v) } _ => None };
            r.case("sibling-arguments-with-a-common-name-prefix", json!({"arguments": args}), &format!("{:?}", want), format!("{:?}", have), have.as_ref() == Some(&want));
        }
    }
    for algs in [vec!["sha256"], vec!["sha512"], vec!["sha256", "sha512"], vec!["sha512", "sha256"]] {
        let got = no_panic(|| record_artifacts(&[rs.as_str()], Some(&algs), None));
        let ok = matches!(&got, Ok(Ok(m)) if m.values().all(|h| h.len() == algs.len() && algs.iter().all(|a| h.contains_key(&if *a == "sha256" { HashAlgorithm::Sha256 } else { HashAlgorithm::Sha512 }))));
        r.case("requested-algorithms", json!({"algorithms": algs}), "exactly the requested digests for every file", format!("{:?}", got.as_ref().map(|x| x.as_ref().map(|m| m.values().map(|h| h.len()).collect::<Vec<_>>()).map_err(|e| e.to_string()))), ok);
    }
    let got = no_panic(|| record_artifacts(&[rs.as_str()], Some(&["md5"]), None));
    r.case("unknown-algorithm", json!({"algorithms": ["md5"]}), "Err", format!("{:?}", got.as_ref().map(|x| x.as_ref().map(|m| m.len()).map_err(|e| e.to_string()))), matches!(&got, Ok(Err(_))));
}

/// running a step: materials are the state before the command, products the state after it, byproducts its output and exit status
fn run_step_before_after(r: &mut Report) {
    let _g = crate::c08::CWD_LOCK.lock().unwrap();
    let d = crate::fixture::tmpdir();
    std::fs::write(d.path().join("keep"), "k").unwrap();
    std::fs::write(d.path().join("modify"), "old").unwrap();
    std::fs::write(d.path().join("delete"), "d").unwrap();
    let old = std::env::current_dir().unwrap();
    std::env::set_current_dir(d.path()).unwrap();
    let res = no_panic(|| in_toto::runlib::in_toto_run("s", None, &["."], &["."], &["sh", "-c", "echo new > create; echo changed > modify; rm delete; echo out; echo err 1>&2; exit 7"], None, None, None));
    std::env::set_current_dir(old).unwrap();
    let obs = match &res {
        Ok(Ok(mb)) => match &mb.metadata { in_toto::models::MetadataWrapper::Link(l) => {
            let ks = |m: &std::collections::BTreeMap<in_toto::models::VirtualTargetPath, in_toto::models::TargetDescription>| m.keys().map(|k| k.value().to_string()).collect::<Vec<_>>();
            let dig = |m: &std::collections::BTreeMap<in_toto::models::VirtualTargetPath, in_toto::models::TargetDescription>, k: &str| m.iter().find(|(p, _)| p.value() == k).and_then(|(_, h)| h.get(&HashAlgorithm::Sha256).map(|v| v.value().to_vec()));
            format!("materials={:?} products={:?} modify_changed={} rv={:?} stdout={:?} stderr={:?}", ks(&l.materials), ks(&l.products),
                    dig(&l.materials, "modify") != dig(&l.products, "modify"), l.byproducts.return_value(), l.byproducts.stdout(), l.byproducts.stderr()) }
            _ => "layout".into() },
        Ok(Err(e)) => format!("Err({})", e), Err(p) => format!("panic: {}", p) };
    let want = "materials=[\"delete\", \"keep\", \"modify\"] products=[\"create\", \"keep\", \"modify\"] modify_changed=true rv=Some(7) stdout=Some(\"out\\n\") stderr=Some(\"err\\n\")";
    r.case("run-records-before-and-after", json!({"command": "create, modify, delete, print, exit 7"}), want, obs.clone(), obs == want);
}

/// whatever the command does to a file that is both material and product - same size, same time stamp, renamed over, swapped - the
/// product entry is the digest of the bytes that are there AFTER the command and the material entry of those BEFORE (directory oracle)
fn run_step_content_oracle(r: &mut Report) {
    let scripts: Vec<(&str, &str)> = vec![
        ("no-change", "true"),
        ("same-size-rewrite", "printf bbbb > f"),
        ("same-size-rewrite-time-stamp-restored", "cp -p f ref; printf bbbb > f; touch -r ref f; rm ref"),
        ("replaced-by-rename-with-old-time-stamp", "printf cccc > g; touch -r f g; mv g f"),
        ("two-files-swapped", "mv f t; mv h f; mv t h"),
        ("rewritten-twice-back-to-original", "printf zzzz > f; printf aaaa > f"),
        ("file-becomes-directory", "rm f; mkdir f; printf dddd > f/inner"),
    ];
    for (id, script) in scripts {
        let _g = crate::c08::CWD_LOCK.lock().unwrap();
        let d = crate::fixture::tmpdir();
        std::fs::write(d.path().join("f"), "aaaa").unwrap();
        std::fs::write(d.path().join("h"), "hhhh").unwrap();
        std::fs::create_dir_all(d.path().join("sub")).unwrap();
        std::fs::write(d.path().join("sub/s"), "ssss").unwrap();
        fn snapshot(root: &std::path::Path, rel: &str, out: &mut std::collections::BTreeMap<String, Vec<u8>>) {
            let mut es: Vec<_> = std::fs::read_dir(root.join(rel)).unwrap().map(|e| e.unwrap()).collect();
            es.sort_by_key(|e| e.file_name());
            for e in es { let name = if rel.is_empty() { e.file_name().to_string_lossy().to_string() } else { format!("{}/{}", rel, e.file_name().to_string_lossy()) };
                if e.file_type().unwrap().is_dir() { snapshot(root, &name, out); } else { out.insert(name.clone(), ring::digest::digest(&ring::digest::SHA256, &std::fs::read(root.join(&name)).unwrap()).as_ref().to_vec()); } }
        }
        let mut before = std::collections::BTreeMap::new();
        snapshot(d.path(), "", &mut before);
        let old = std::env::current_dir().unwrap();
        std::env::set_current_dir(d.path()).unwrap();
        let res = no_panic(|| in_toto::runlib::in_toto_run("s", None, &["."], &["."], &["sh", "-c", script], None, None, None));
        std::env::set_current_dir(old).unwrap();
        let mut after = std::collections::BTreeMap::new();
        snapshot(d.path(), "", &mut after);
        let view = |m: &std::collections::BTreeMap<in_toto::models::VirtualTargetPath, in_toto::models::TargetDescription>| -> std::collections::BTreeMap<String, Vec<u8>> {
            m.iter().map(|(p, h)| (p.value().to_string(), h.get(&HashAlgorithm::Sha256).map(|v| v.value().to_vec()).unwrap_or_default())).collect() };
        let (obs, ok) = match &res {
            Ok(Ok(mb)) => match &mb.metadata { in_toto::models::MetadataWrapper::Link(l) => {
                let (m, p) = (view(&l.materials), view(&l.products));
                let wrong_m: Vec<&String> = before.keys().chain(m.keys()).filter(|k| before.get(*k) != m.get(*k)).collect();
                let wrong_p: Vec<&String> = after.keys().chain(p.keys()).filter(|k| after.get(*k) != p.get(*k)).collect();
                (format!("materials differing from the directory before: {:?}; products differing from the directory after: {:?}", wrong_m, wrong_p), wrong_m.is_empty() && wrong_p.is_empty()) }
                _ => ("layout".to_string(), false) },
            Ok(Err(e)) => (format!("Err({})", e), false), Err(p) => (format!("panic: {}", p), false) };
        r.case("run-records-what-is-there", json!({"command": script, "scenario": id}), "materials = digests of the directory before, products = digests of the directory after", obs, ok);
    }
}

/// byproducts are the command's output streams: output that cannot be represented (not UTF-8) is refused, not approximated
fn run_step_output_bytes(r: &mut Report) {
    for (id, script, representable) in [("ascii", "printf 'out'; printf 'err' 1>&2", true), ("utf8", "printf '\\303\\251'", true),
        ("invalid-utf8-on-stdout", "printf 'a\\377b'", false), ("invalid-utf8-on-stderr", "printf 'a\\377b' 1>&2", false), ("lone-continuation-byte", "printf '\\200'", false), ("nul-byte", "printf 'a\\000b'", true)] {
        let _g = crate::c08::CWD_LOCK.lock().unwrap();
        let d = crate::fixture::tmpdir();
        let old = std::env::current_dir().unwrap();
        std::env::set_current_dir(d.path()).unwrap();
        let truth = std::process::Command::new("sh").arg("-c").arg(script).output();
        let res = no_panic(|| in_toto::runlib::run_command(&["sh", "-c", script], None));
        std::env::set_current_dir(old).unwrap();
        let (want_out, want_err) = match &truth { Ok(o) => (o.stdout.clone(), o.stderr.clone()), Err(_) => continue };
        let (obs, ok) = match &res {
            Ok(Ok(bp)) => { let so = bp.stdout().clone().unwrap_or_default().into_bytes(); let se = bp.stderr().clone().unwrap_or_default().into_bytes();
                (format!("Ok stdout={:?} stderr={:?} (the command wrote stdout={:?} stderr={:?})", so, se, want_out, want_err), so == want_out && se == want_err) }
            Ok(Err(e)) => (format!("Err({})", e), !representable),
            Err(p) => (format!("panic: {}", p), false) };
        r.case("byproducts-are-the-output-bytes", json!({"output": id}), if representable { "Ok with exactly the bytes written" } else { "Err, or Ok with exactly the bytes written" }, obs, ok);
    }
}

/// the digest routine itself, called directly: any reader (whole, one byte at a time, irregular chunks, interrupted reads) over any
/// size around the block boundaries gives the standard digests and the exact size; an empty algorithm list is refused
fn digest_routine(r: &mut Report) {
    use in_toto::crypto::calculate_hashes;
    struct Chunky<'a> { data: &'a [u8], pos: usize, pattern: &'a [usize], k: usize, interrupt_every: usize, calls: usize }
    impl<'a> std::io::Read for Chunky<'a> {
        fn read(&mut self, buf: &mut [u8]) -> std::io::Result<usize> {
            self.calls += 1;
            if self.interrupt_every > 0 && self.calls % self.interrupt_every == 0 { return Err(std::io::Error::new(std::io::ErrorKind::Interrupted, "interrupted")); }
            let want = self.pattern[self.k % self.pattern.len()].max(1); self.k += 1;
            let n = want.min(buf.len()).min(self.data.len() - self.pos);
            buf[..n].copy_from_slice(&self.data[self.pos..self.pos + n]); self.pos += n; Ok(n)
        }
    }
    let mut bad: Vec<String> = vec![]; let mut n = 0;
    for size in [0usize, 1, 63, 64, 65, 4095, 4096, 4097, 8191, 8192, 8193, 65536, 100_003] {
        let data: Vec<u8> = (0..size).map(|i| (i * 31 % 251) as u8).collect();
        for (pid, pattern, intr) in [("whole", vec![usize::MAX], 0usize), ("one-byte", vec![1], 0), ("irregular", vec![7, 1, 4096, 3, 8192, 100], 0), ("interrupted", vec![1000], 3)] {
            for algs in [vec![HashAlgorithm::Sha256], vec![HashAlgorithm::Sha512], vec![HashAlgorithm::Sha256, HashAlgorithm::Sha512], vec![HashAlgorithm::Sha512, HashAlgorithm::Sha256, HashAlgorithm::Sha256]] {
                n += 1;
                let rd = Chunky { data: &data, pos: 0, pattern: &pattern, k: 0, interrupt_every: intr, calls: 0 };
                let got = no_panic(|| calculate_hashes(rd, &algs));
                let ok = match &got { Ok(Ok((sz, hs))) => *sz == size as u64 && algs.iter().all(|a| hs.get(a).map(|v| v.value().to_vec()) == Some(match a {
                        HashAlgorithm::Sha256 => ring::digest::digest(&ring::digest::SHA256, &data).as_ref().to_vec(), _ => ring::digest::digest(&ring::digest::SHA512, &data).as_ref().to_vec() }))
                        && hs.len() == algs.iter().collect::<std::collections::HashSet<_>>().len(),
                    // std's contract lets a caller retry an Interrupted read; refusing the input instead is not a wrong digest
                    Ok(Err(_)) => pid == "interrupted", Err(_) => false };
                if !ok && bad.len() < 5 { bad.push(format!("size {} reader {} algs {:?}: {:?}", size, pid, algs, got.as_ref().map(|x| x.as_ref().map(|(s, h)| (*s, h.len())).map_err(|e| e.to_string())))); }
            }
        }
    }
    r.case("digest-routine-any-reader", json!({"calls": n}), "standard digests and exact size from every reader", format!("{:?}", bad), bad.is_empty());
    let empty = no_panic(|| calculate_hashes(&b"abc"[..], &[]));
    r.case("digest-routine-empty-algorithm-list", json!({}), "Err", format!("{:?}", empty.as_ref().map(|x| x.as_ref().map(|_| "Ok").map_err(|e| e.to_string()))), matches!(&empty, Ok(Err(_))));
}

/// the command that runs is the command that was given: arguments reach the process verbatim (they are not resolved against the
/// caller's directory), and it runs in the directory that was asked for
fn run_command_arguments(r: &mut Report) {
    use std::os::unix::fs::symlink;
    let _g = crate::c08::CWD_LOCK.lock().unwrap();
    let caller = crate::fixture::tmpdir(); let rundir = crate::fixture::tmpdir();
    std::fs::write(caller.path().join("data.txt"), "caller\n").unwrap(); std::fs::create_dir_all(caller.path().join("sub")).unwrap(); symlink("data.txt", caller.path().join("alias")).unwrap();
    std::fs::write(rundir.path().join("data.txt"), "rundir\n").unwrap(); std::fs::create_dir_all(rundir.path().join("sub")).unwrap();
    let old = std::env::current_dir().unwrap();
    std::env::set_current_dir(caller.path()).unwrap();
    for dir in [None, Some(rundir.path().to_str().unwrap().to_string())] {
        for arg in ["data.txt", "./data.txt", "sub", "sub/..", ".", "..", "alias", "missing.txt", "-n", "a b"] {
            let res = no_panic(|| in_toto::runlib::run_command(&["echo", arg], dir.as_deref()));
            let want = format!("{}\n", arg);
            let got = match &res { Ok(Ok(bp)) => bp.stdout().clone().unwrap_or_default(), other => format!("{:?}", other.as_ref().map(|x| x.as_ref().map(|_| ()).map_err(|e| e.to_string()))) };
            if arg != "-n" { r.case("arguments-reach-the-command-verbatim", json!({"argument": arg, "run_dir": dir.is_some()}), &format!("{:?}", want), format!("{:?}", got), got == want); }
        }
        let res = no_panic(|| in_toto::runlib::run_command(&["cat", "data.txt"], dir.as_deref()));
        let want = if dir.is_some() { "rundir\n" } else { "caller\n" };
        let got = match &res { Ok(Ok(bp)) => bp.stdout().clone().unwrap_or_default(), other => format!("{:?}", other.as_ref().map(|x| x.as_ref().map(|_| ()).map_err(|e| e.to_string()))) };
        r.case("command-runs-in-the-requested-directory", json!({"command": "cat data.txt", "run_dir": dir.is_some()}), &format!("{:?}", want), format!("{:?}", got), got == want);
    }
    std::env::set_current_dir(old).unwrap();
}
