//! Witness / replay layer (see /verif/vf/replay.py).  `replay <PROP>` runs the concrete witness
//! cases of one property against the real in-toto crate (built from /repo with --cfg in_toto_rs_verif)
//! and prints one JSON line {"cases":n,"failing":[..]}.
use serde_json::{json, Value};
use std::panic;

mod util;
mod fixture;
mod c01;
mod c02;
mod c03;
mod c08;
mod c09;
mod c10;
mod c12;
mod c13;
mod c14;
mod fuzz;
mod model;
mod gen;
mod c15;
mod c18;
mod c19;
mod c20;

pub struct Report {
    pub cases: u64,
    pub failing: Vec<Value>,
}

impl Report {
    pub fn new() -> Self {
        Report { cases: 0, failing: vec![] }
    }
    /// record one case; `ok == false` means the real code violated the property on this input
    pub fn case(&mut self, id: &str, input: Value, expected: &str, observed: String, ok: bool) {
        self.cases += 1;
        if !ok {
            self.failing.push(json!({"id": id, "input": input, "expected": expected, "observed": observed}));
        }
    }
}

fn main() {
    let args: Vec<String> = std::env::args().collect();
    let prop = args.get(1).map(|s| s.as_str()).unwrap_or("");
    panic::set_hook(Box::new(|_| {}));
    let mut r = Report::new();
    match prop {
        "C14" => { c14::run(&mut r); fuzz::run(&mut r); c20::run(&mut r); c03::run(&mut r) }
        "C18" => c18::run(&mut r),
        "C19" => c19::run(&mut r),
        "C20" => c20::run(&mut r),
        "C01" => { c01::run_c01(&mut r); gen::run(&mut r); model::run(&mut r, "differential") }
        "C04" => c01::run_c04(&mut r),
        "C06" => { c01::run_c06(&mut r); c15::run(&mut r); model::run(&mut r, "differential") }
        "C07" => { c01::run_c07(&mut r); c15::run(&mut r); model::run(&mut r, "differential") }
        "C02" => { c02::run(&mut r); model::run(&mut r, "differential") }
        "C03" => { c03::run(&mut r); model::run(&mut r, "differential") }
        "C08" => { c08::run(&mut r); c03::run(&mut r) }
        "C09" => { c09::run_c09(&mut r); gen::run(&mut r) }
        "C05" => { c10::run_c05(&mut r); c10::run_c10(&mut r); c09::run_c09(&mut r); gen::run(&mut r) }
        "C11" => { c09::run_c11(&mut r); c12::run(&mut r) }
        "C10" => c10::run_c10(&mut r),
        "C12" => c12::run(&mut r),
        "MODEL" => model::run(&mut r, "differential"),
        "GEN" => gen::run(&mut r),
        "C13" => { c13::run(&mut r); model::run(&mut r, "differential") }
        "C15" => { c15::run(&mut r); c02::run(&mut r) }
        _ => {}
    }
    println!("{}", json!({"property": prop, "cases": r.cases, "failing": r.failing}));
}
