//! Witness / replay layer (see /verif/vf/replay.py).  `replay <PROP>` runs the concrete witness
//! cases of one property against the real in-toto crate (built from /repo with --cfg in_toto_rs_verif)
//! and prints one JSON line {"cases":n,"failing":[..]}.
use serde_json::{json, Value};
use std::panic;

mod util;
mod fixture;
mod c01;
mod c02;
mod c03;
mod c08;
mod c09;
mod c10;
mod c12;
mod c13;
mod c14;
mod fuzz;
mod model;
mod gen;
mod c15;
mod c18;
mod c19;
mod c20;

pub struct Report {
    pub cases: u64,
    pub failing: Vec<Value>,
    /// ids the caller asked to hear about when they PASS (the witnesses of open known findings: a finding that stops failing means
    /// the behaviour changed)
    pub watch: Vec<String>,
    pub watch_passed: Vec<String>,
}

impl Report {
    pub fn new() -> Self {
        let watch = std::env::var("VERIF_WATCH_IDS").ok().and_then(|s| serde_json::from_str::<Vec<String>>(&s).ok()).unwrap_or_default();
        Report { cases: 0, failing: vec![], watch, watch_passed: vec![] }
    }
    /// record one case; `ok == false` means the real code violated the property on this input
    pub fn case(&mut self, id: &str, input: Value, expected: &str, observed: String, ok: bool) {
        self.cases += 1;
        if !ok {
            self.failing.push(json!({"id": id, "input": input, "expected": expected, "observed": observed}));
        } else if self.watch.iter().any(|w| w == id) {
            self.watch_passed.push(id.to_string());
        }
    }
}

fn main() {
    let args: Vec<String> = std::env::args().collect();
    let prop = args.get(1).map(|s| s.as_str()).unwrap_or("");
    panic::set_hook(Box::new(|_| {}));
    if prop == "_SELF_DELEGATION" { fuzz::self_delegation_child(); return; }
    if prop == "_EXPIRY_ZONES" { c01::expiry_zone_child(); return; }
    let mut r = Report::new();
    // every witness group runs under catch_unwind: an input on which a witness cannot even set its scenario up (signing, building,
    // serialising unexpectedly fails or panics) is itself a finding, reported as `witness-aborted` with the panic message
    let groups: Vec<(&str, fn(&mut Report))> = match prop {
        "C14" => vec![("c14", c14::run), ("fuzz", fuzz::run), ("c20", c20::run), ("c03", c03::run), ("c06", c01::run_c06), ("c04", c01::run_c04)],
        "C18" => vec![("c18", c18::run)],
        "C19" => vec![("c19", c19::run)],
        "C20" => vec![("c20", c20::run)],
        "C01" => vec![("c01", c01::run_c01), ("gen", gen::run), ("model", model::run_differential)],
        "C04" => vec![("c04", c01::run_c04), ("gen", gen::run)],
        "C06" => vec![("c06", c01::run_c06), ("c15", c15::run), ("model", model::run_differential)],
        "C07" => vec![("c07", c01::run_c07), ("c15", c15::run), ("model", model::run_differential)],
        "C02" => vec![("c02", c02::run), ("gen", gen::run), ("model", model::run_differential)],
        "C03" => vec![("c03", c03::run), ("model", model::run_differential)],
        "C08" => vec![("c08", c08::run), ("c15-names", c15::inspection_named_like_a_step), ("c03", c03::run)],
        "C09" => vec![("c09", c09::run_c09), ("c09-collisions", c09::collisions), ("ecdsa-lengths", c01::ecdsa_signature_lengths), ("declared-scheme", c01::declared_scheme_decides), ("gen", gen::run)],
        "C05" => vec![("c05", c10::run_c05), ("c10", c10::run_c10), ("c09", c09::run_c09), ("gen", gen::run)],
        "C11" => vec![("c11", c09::run_c11), ("c12", c12::run), ("gen", gen::run)],
        "C10" => vec![("c10", c10::run_c10)],
        "C12" => vec![("c12", c12::run), ("c04", c01::run_c04), ("c02-attribution", c02::attributed_signature_only)],
        "MODEL" => vec![("model", model::run_differential)],
        "GEN" => vec![("gen", gen::run)],
        "C13" => vec![("c13", c13::run), ("model", model::run_differential)],
        "C15" => vec![("c15", c15::run), ("c15-names", c15::inspection_named_like_a_step), ("c02", c02::run), ("c06", c01::run_c06), ("gen", gen::run)],
        _ => vec![],
    };
    for (name, f) in groups {
        let before = r.cases;
        let res = panic::catch_unwind(panic::AssertUnwindSafe(|| f(&mut r)));
        if let Err(e) = res {
            let msg = e.downcast_ref::<String>().cloned().or_else(|| e.downcast_ref::<&str>().map(|s| s.to_string())).unwrap_or_else(|| "panic".to_string());
            r.cases += 1;
            r.failing.push(json!({"id": "witness-aborted", "input": {"group": name, "cases_completed_in_group": r.cases - 1 - before}, "expected": "every scenario of the group can be set up and judged", "observed": msg.chars().take(600).collect::<String>()}));
        }
    }
    // (the commands some witnesses run write to this process's stdout: start the result on a fresh line)
    println!("\n{}", json!({"property": prop, "cases": r.cases, "failing": r.failing, "watch_passed": r.watch_passed}));
}
