//! Structured generator of layouts and links from pools of edge values (empty and blank strings, strings with white space, trailing
//! slashes, control characters, zero / huge thresholds, empty and absent optional clauses, leap-second and far expiries, empty
//! collections), used for three generic checks on the crate's model types:
//!   wire identity   parse(write(x)) == x for the four ways a block reaches the wire, and the signature still verifies;
//!   injectivity     two generated values that differ never have the same signed bytes (so a signature cannot move between them);
//!   determinism     the signed bytes of a value are the same each time they are derived.
//! Bounded evidence (N documents per run, seeded from VERIF_SEED), never counted as proof.
use crate::fixture::*;
use crate::util::{no_panic, scale};
use crate::Report;
use in_toto::interchange::{DataInterchange, Json, JsonPretty};
use in_toto::models::byproducts::ByProducts;
use in_toto::models::inspection::Inspection;
use in_toto::models::rule::{Artifact, ArtifactRule};
use in_toto::models::step::{Command, Step};
use in_toto::models::{LayoutMetadataBuilder, LinkMetadataBuilder, Metablock, MetadataWrapper, VirtualTargetPath};
use serde_json::json;
use std::collections::{BTreeMap, HashMap};

thread_local! { static SETTER_ORDER_BAD: std::cell::RefCell<Vec<String>> = std::cell::RefCell::new(vec![]); }

struct Rng(u64);
impl Rng {
    fn next(&mut self) -> u64 { let mut x = self.0; x ^= x << 13; x ^= x >> 7; x ^= x << 17; self.0 = x; x }
    fn below(&mut self, n: u64) -> u64 { self.next() % n }
    fn chance(&mut self, percent: u64) -> bool { self.below(100) < percent }
    fn pick<'a, T>(&mut self, v: &'a [T]) -> &'a T { &v[self.below(v.len() as u64) as usize] }
}

/// strings: everything awkward (these checks do not compare with the OLPC reference, so the classes of the open C11 findings -
/// control characters, backslash + `n` - take part as well)
const TEXTS: &[&str] = &["", " ", "a", "A", "a b", " a", "a ", "a  b", "x/", "/x", "/", "//", "./x", "x/../x", "*", "?", "[", "x*", "line\nbreak", "\n", "quo\"te", "back\\slash", "\\", "trailing\\",
    "bs-lf\\\nend", "\r", "\r\n", "a\r\nb", "a\nb", "\t", "\u{0}", "\u{1f}", "\\n", "\\\\n", "\\r", "\u{e9}", "\u{20ac}\u{1F600}", "\u{7f}", "IN", "WITH", "FROM", "MATCH", "DEPLOY_TOKEN", "MY_SECRET", "db_password", "API_KEY", "PATH", "HOME", "keyid", "sig", "signed", "_type", "null", "0", "-1", "1e3", "{}", "[]", "sha256", "link", "layout"];

fn text(rng: &mut Rng) -> String { (*rng.pick(TEXTS)).to_string() }
fn opt_text(rng: &mut Rng) -> Option<String> { if rng.chance(40) { None } else { Some(text(rng)) } }
fn path(rng: &mut Rng) -> VirtualTargetPath { let t = text(rng); if rng.chance(50) { VirtualTargetPath::new(t.clone()).unwrap_or_else(|_| VirtualTargetPath::from(t.as_str())) } else { VirtualTargetPath::from(t.as_str()) } }
fn command(rng: &mut Rng) -> Command { let n = rng.below(4) as usize; let v: Vec<String> = (0..n).map(|_| text(rng)).collect(); Command::from(v) }
fn rule(rng: &mut Rng) -> ArtifactRule {
    match rng.below(7) {
        0 => ArtifactRule::Create(path(rng)), 1 => ArtifactRule::Delete(path(rng)), 2 => ArtifactRule::Modify(path(rng)), 3 => ArtifactRule::Allow(path(rng)),
        4 => ArtifactRule::Require(path(rng)), 5 => ArtifactRule::Disallow(path(rng)),
        _ => ArtifactRule::Match { pattern: path(rng), in_src: opt_text(rng), with: if rng.chance(50) { Artifact::Materials } else { Artifact::Products }, in_dst: opt_text(rng), from: text(rng) },
    }
}
fn rules(rng: &mut Rng) -> Vec<ArtifactRule> { let n = rng.below(4) as usize; (0..n).map(|_| rule(rng)).collect() }
fn expiry(rng: &mut Rng) -> chrono::DateTime<chrono::Utc> {
    use chrono::{NaiveDate, TimeZone, Utc};
    match rng.below(7) {
        0 => Utc.from_utc_datetime(&NaiveDate::from_ymd_opt(2016, 12, 31).unwrap().and_hms_nano_opt(23, 59, 59, 1_000_000_000).unwrap()),
        1 => Utc.with_ymd_and_hms(1, 1, 1, 0, 0, 0).unwrap(), 2 => Utc.with_ymd_and_hms(9999, 12, 31, 23, 59, 59).unwrap(), 3 => Utc.with_ymd_and_hms(1970, 1, 1, 0, 0, 0).unwrap(),
        4 => Utc.with_ymd_and_hms(2030, 1, 1, 0, 0, 0).unwrap(), 5 => Utc.with_ymd_and_hms(2030, 1, 1, 0, 0, 1).unwrap(), _ => Utc.with_ymd_and_hms(2029, 12, 31, 23, 59, 59).unwrap(),
    }
}
fn digests(rng: &mut Rng) -> in_toto::models::TargetDescription {
    use in_toto::crypto::{HashAlgorithm, HashValue};
    let mut td = in_toto::models::TargetDescription::new();
    if rng.chance(85) { td.insert(HashAlgorithm::Sha256, HashValue::new(vec![rng.below(3) as u8; [0usize, 1, 32, 32, 32][rng.below(5) as usize]])); }
    if rng.chance(25) { td.insert(HashAlgorithm::Sha512, HashValue::new(vec![rng.below(3) as u8; 64])); }
    td
}
fn artifacts_map(rng: &mut Rng) -> BTreeMap<VirtualTargetPath, in_toto::models::TargetDescription> { let n = rng.below(4) as usize; (0..n).map(|_| (path(rng), digests(rng))).collect() }

fn gen_layout(rng: &mut Rng, pool: &[in_toto::crypto::PrivateKey]) -> MetadataWrapper {
    let mut b = LayoutMetadataBuilder::new().expires(expiry(rng)).readme(text(rng));
    let mut late_steps: Vec<Step> = vec![];
    for _ in 0..rng.below(3) {
        let mut st = Step::new(&text(rng)).threshold(*rng.pick(&[0u32, 1, 1, 2, 3, u32::MAX])).expected_command(command(rng));
        for k in pool.iter() { if rng.chance(40) { st = st.add_key(k.key_id().clone()); } }
        for r in rules(rng) { st = st.add_expected_material(r); }
        for r in rules(rng) { st = st.add_expected_product(r); }
        if rng.chance(30) { late_steps.push(st); } else { b = b.add_step(st); }
    }
    if !late_steps.is_empty() { b = b.add_steps(late_steps); }
    for _ in 0..rng.below(3) {
        let mut i = Inspection::new(&text(rng)).run(command(rng));
        for r in rules(rng) { i = i.add_expected_material(r); }
        for r in rules(rng) { i = i.add_expected_product(r); }
        b = b.add_inspect(i);
    }
    for k in pool.iter() { if rng.chance(50) { b = b.add_key(k.public().clone()); } }
    MetadataWrapper::Layout(b.build().unwrap())
}
fn gen_link(rng: &mut Rng) -> MetadataWrapper {
    let mut bp = ByProducts::new();
    if rng.chance(80) { bp = bp.set_return_value(*rng.pick(&[0i32, 1, -1, 255, i32::MAX, i32::MIN])); }
    if rng.chance(70) { bp = bp.set_stdout(text(rng)); }
    if rng.chance(70) { bp = bp.set_stderr(text(rng)); }
    if rng.chance(20) { bp = bp.set_other_field(text(rng), text(rng)); }
    let env = if rng.chance(50) { None } else { let n = rng.below(3) as usize; Some((0..n).map(|_| (text(rng), text(rng))).collect::<BTreeMap<_, _>>()) };
    let (name, mats, prods, cmd_) = (text(rng), artifacts_map(rng), artifacts_map(rng), command(rng));
    // the builder's setters are independent: every order of calling them gives the same link
    let a = LinkMetadataBuilder::new().name(name.clone()).materials(mats.clone()).products(prods.clone()).env(env.clone()).command(cmd_.clone()).byproducts(bp.clone()).build().unwrap();
    let b = LinkMetadataBuilder::new().byproducts(bp.clone()).command(cmd_.clone()).env(env.clone()).products(prods.clone()).materials(mats.clone()).name(name.clone()).build().unwrap();
    let c = LinkMetadataBuilder::new().command(cmd_.clone()).name(name.clone()).byproducts(bp.clone()).materials(mats.clone()).env(env.clone()).products(prods.clone()).build().unwrap();
    if a != b || a != c { SETTER_ORDER_BAD.with(|x| { let mut v = x.borrow_mut(); if v.len() < 3 { v.push(format!("command {:?} byproducts {:?}: the order of the builder calls changes the link", cmd_, bp)); } }); }
    MetadataWrapper::Link(a)
}

pub fn run(r: &mut Report) {
    let seed = std::env::var("VERIF_SEED").ok().and_then(|s| s.parse::<u64>().ok()).unwrap_or(0);
    let mut rng = Rng(0x9E37_79B9_7F4A_7C15 ^ seed.wrapping_mul(0x1234_5678_9ABC_DEF1) | 1);
    let pool: Vec<in_toto::crypto::PrivateKey> = (2..5).map(key).collect();
    let signer = key(1);
    let n_docs = scale(3000, 30000);
    let mut by_bytes: HashMap<Vec<u8>, MetadataWrapper> = HashMap::new();
    let (mut wire_bad, mut inj_bad, mut det_bad): (Vec<String>, Vec<String>, Vec<String>) = (vec![], vec![], vec![]);
    let mut distinct = 0usize;
    let mut neighbours = 0usize;
    for i in 0..n_docs {
        let md = if rng.chance(50) { gen_layout(&mut rng, &pool) } else { gen_link(&mut rng) };
        // determinism + injectivity of the signed bytes
        let b1 = no_panic(|| md.to_bytes());
        let b2 = no_panic(|| md.to_bytes());
        let bytes = match (&b1, &b2) { (Ok(Ok(x)), Ok(Ok(y))) if x == y => x.clone(),
            _ => { if det_bad.len() < 4 { det_bad.push(format!("doc {}: {:?} vs {:?}", i, b1.as_ref().map(|x| x.as_ref().map(|b| b.len()).map_err(|e| e.to_string())), b2.as_ref().map(|x| x.as_ref().map(|b| b.len()).map_err(|e| e.to_string())))); } continue; } };
        match by_bytes.get(&bytes) {
            Some(prev) if *prev != md => { if inj_bad.len() < 4 { inj_bad.push(format!("two different values share the signed bytes {}: {} and {}", String::from_utf8_lossy(&bytes).chars().take(160).collect::<String>(),
                serde_json::to_string(prev).unwrap_or_default().chars().take(200).collect::<String>(), serde_json::to_string(&md).unwrap_or_default().chars().take(200).collect::<String>())); } }
            Some(_) => {}
            None => { distinct += 1; by_bytes.insert(bytes.clone(), md.clone()); }
        }
        // the canonical bytes read back through the crate's own byte-level entry points: the typed one (right type: equal value;
        // wrong type: never the same value) and the type-guessing one
        {
            use in_toto::models::MetadataType;
            let (own, other) = match &md { MetadataWrapper::Layout(_) => (MetadataType::Layout, MetadataType::Link), MetadataWrapper::Link(_) => (MetadataType::Link, MetadataType::Layout) };
            let typed = no_panic(|| MetadataWrapper::from_bytes(&bytes, own));
            let guessed = no_panic(|| MetadataWrapper::try_from_bytes(&bytes));
            let wrong = no_panic(|| MetadataWrapper::from_bytes(&bytes, other));
            let ok = matches!(&typed, Ok(Ok(x)) if *x == md) && matches!(&guessed, Ok(Ok(x)) if *x == md) && !matches!(&wrong, Ok(Ok(x)) if *x == md) && wrong.is_ok();
            if !ok && wire_bad.len() < 4 {
                wire_bad.push(format!("doc {}: canonical bytes {} read back typed={:?} guessed={:?} wrong-type={:?}", i, String::from_utf8_lossy(&bytes).chars().take(160).collect::<String>(),
                    typed.as_ref().map(|x| x.as_ref().map(|v| *v == md).map_err(|e| e.to_string())), guessed.as_ref().map(|x| x.as_ref().map(|v| *v == md).map_err(|e| e.to_string())), wrong.as_ref().map(|x| x.as_ref().map(|v| *v == md).map_err(|e| e.to_string().chars().take(60).collect::<String>()))));
            }
        }
        // the builder entry point that starts from serialised metadata: whatever the spelling of the input (compact, pretty, members in
        // another order), the block it signs is the block `Metablock::new` signs (same deterministic ed25519 signature, same metadata)
        if i % 5 == 0 {
            if let Ok(v) = serde_json::to_value(&md) {
                let spellings: Vec<Vec<u8>> = vec![serde_json::to_vec(&v).unwrap_or_default(), serde_json::to_vec_pretty(&v).unwrap_or_default(), bytes.clone(),
                    { let mut t = serde_json::to_string_pretty(&v).unwrap_or_default(); t = t.replace("\n", "\r\n  "); t.into_bytes() }];
                let direct = no_panic(|| Metablock::new(md.clone(), &[&signer])).ok().and_then(|x| x.ok());
                for (k, raw) in spellings.iter().enumerate() {
                    let built = no_panic(|| in_toto::models::MetablockBuilder::from_raw_metadata(raw).and_then(|b| b.sign(&[&signer])).map(|b| b.build()));
                    let ok = match (&built, &direct) { (Ok(Ok(b)), Some(d)) => b.metadata == md && serde_json::to_value(&b.signatures).ok() == serde_json::to_value(&d.signatures).ok()
                        && matches!(no_panic(|| b.verify(1, [signer.public()])), Ok(Ok(_))), _ => false };
                    if !ok && wire_bad.len() < 4 { wire_bad.push(format!("doc {}: from_raw_metadata(spelling {}) does not give the block Metablock::new gives: {:?}", i, k,
                        built.as_ref().map(|x| x.as_ref().map(|b| (b.metadata == md, b.verify(1, [signer.public()]).is_ok())).map_err(|e| e.to_string())))); }
                }
            }
        }
        // in-memory edits through the public fields: a key filed in a layout's table under an id that is not its own, a step's key list
        // reordered or doubled - each gives a different value, so different signed bytes and no signature transfer
        if let MetadataWrapper::Layout(l) = &md {
            let mut edits: Vec<(&str, MetadataWrapper)> = vec![];
            { let mut l2 = l.clone(); let foreign = pool[0].key_id().clone(); let k = pool[1].public().clone();
              if foreign != *k.key_id() && !l2.keys.contains_key(&foreign) { l2.keys.insert(foreign, k); edits.push(("a key filed under a foreign id", MetadataWrapper::Layout(l2))); } }
            if let Some(st) = l.steps.first() { if st.pub_keys.len() >= 2 { let mut l2 = l.clone(); l2.steps[0].pub_keys.reverse(); if l2 != *l { edits.push(("first step's key list reversed", MetadataWrapper::Layout(l2))); } }
                if !st.pub_keys.is_empty() { let mut l2 = l.clone(); let d = l2.steps[0].pub_keys[0].clone(); l2.steps[0].pub_keys.push(d); edits.push(("first step's first key listed twice", MetadataWrapper::Layout(l2))); } }
            if let Ok(Ok(orig)) = no_panic(|| Metablock::new(md.clone(), &[&signer])) {
                for (what, e) in edits {
                    if e == md { continue; }
                    neighbours += 1;
                    let same_bytes = matches!(no_panic(|| e.to_bytes()), Ok(Ok(b)) if b == bytes);
                    let moved = Metablock { signatures: orig.signatures.clone(), metadata: e };
                    let transfers = matches!(no_panic(|| moved.verify(1, [signer.public()])), Ok(Ok(_)));
                    if (same_bytes || transfers) && inj_bad.len() < 4 { inj_bad.push(format!("in-memory edit ({}) of doc {}: same signed bytes = {}, signature transfers = {}", what, i, same_bytes, transfers)); }
                }
            }
        }
        let own_sigs = match no_panic(|| Metablock::new(md.clone(), &[&signer])) { Ok(Ok(m)) => Some(m.signatures), _ => None };
        // near neighbours: one random edit of the JSON form (a string or number replaced by another pool value, an array element
        // dropped / doubled / inserted, an object member removed); whatever still parses and is a different value has other bytes
        if let Ok(doc) = serde_json::to_value(&md) {
            for _ in 0..3 {
                let mut d2 = doc.clone();
                let mut paths: Vec<Vec<String>> = vec![];
                fn walk(v: &serde_json::Value, cur: &mut Vec<String>, out: &mut Vec<Vec<String>>) {
                    out.push(cur.clone());
                    match v { serde_json::Value::Object(o) => for (k, x) in o { cur.push(k.clone()); walk(x, cur, out); cur.pop(); },
                              serde_json::Value::Array(a) => for (j, x) in a.iter().enumerate() { cur.push(j.to_string()); walk(x, cur, out); cur.pop(); }, _ => {} }
                }
                walk(&doc, &mut vec![], &mut paths);
                let pth = rng.pick(&paths).clone();
                { let mut c = &mut d2;
                  for k in &pth { c = match c { serde_json::Value::Array(a) => &mut a[k.parse::<usize>().unwrap()], other => &mut other[k.as_str()] }; }
                  match c {
                      serde_json::Value::String(sv) => { *sv = text(&mut rng); }
                      serde_json::Value::Number(_) => { *c = json!(*rng.pick(&[0i64, 1, 2, -1, 255, 4294967295])); }
                      serde_json::Value::Array(a) => { match rng.below(3) { 0 => { a.pop(); } 1 => { if let Some(x) = a.last().cloned() { a.push(x); } } _ => { let at = if a.is_empty() { 0 } else { rng.below(a.len() as u64 + 1) as usize }; a.insert(at, json!(text(&mut rng))); } } }
                      serde_json::Value::Object(o) => { let keys: Vec<String> = o.keys().cloned().collect();
                          match rng.below(3) {
                              // a member nobody asked for: a pool text, an algorithm-like or a field-like name, with a string / object value
                              0 => { let k = if rng.chance(50) { text(&mut rng) } else { (*rng.pick(&["sha1", "md5", "sha3-256", "blake2b", "extra", "keyid", "threshold", "x"])).to_string() };
                                     let v = if rng.chance(70) { json!(*rng.pick(&["00", "ab", "", "0"])) } else { json!({}) }; o.entry(k).or_insert(v); }
                              1 => { if !keys.is_empty() { let k = rng.pick(&keys).clone(); o.remove(&k); } }
                              _ => { if !keys.is_empty() { let k = rng.pick(&keys).clone(); o.insert(k, json!(null)); } } } }
                      serde_json::Value::Null => { *c = json!({}); }
                      serde_json::Value::Bool(bv) => { *bv = !*bv; }
                  } }
                if let Ok(Ok(nb)) = no_panic(|| serde_json::from_value::<MetadataWrapper>(d2.clone())) {
                    if nb != md {
                        // the signature made over the original must not verify over the neighbour (this goes through the real
                        // derivation of the signed message, whatever post-processing it applies to the canonical bytes)
                        if let Some(sigs) = &own_sigs {
                            let moved = Metablock { signatures: sigs.clone(), metadata: nb.clone() };
                            if matches!(no_panic(|| moved.verify(1, [signer.public()])), Ok(Ok(_))) && inj_bad.len() < 4 {
                                inj_bad.push(format!("the signature over {} also verifies over the different value {}", doc.to_string().chars().take(220).collect::<String>(), d2.to_string().chars().take(220).collect::<String>()));
                            }
                        }
                        if let Ok(Ok(nbytes)) = no_panic(|| nb.to_bytes()) {
                            if nbytes == bytes && inj_bad.len() < 4 { inj_bad.push(format!("edit at {:?} gives a different value with the same signed bytes: {} vs {}", pth, doc.to_string().chars().take(220).collect::<String>(), d2.to_string().chars().take(220).collect::<String>())); }
                            neighbours += 1;
                        }
                    }
                }
            }
        }
        // wire identity (every 3rd document goes through all four writers; signing is the expensive part)
        if i % 3 == 0 {
            let mb = match no_panic(|| Metablock::new(md.clone(), &[&signer])) { Ok(Ok(m)) => m, other => { if wire_bad.len() < 4 { wire_bad.push(format!("doc {}: cannot sign: {:?}", i, other.map(|x| x.map(|_| ()).map_err(|e| e.to_string())))); } continue; } };
            for layout in ["serde-compact", "serde-pretty", "Json::to_writer", "JsonPretty::to_writer"] {
                let wire: Result<Vec<u8>, String> = match layout {
                    "serde-compact" => serde_json::to_vec(&mb).map_err(|e| e.to_string()), "serde-pretty" => serde_json::to_vec_pretty(&mb).map_err(|e| e.to_string()),
                    "Json::to_writer" => { let mut w = vec![]; Json::to_writer(&mut w, &mb).map_err(|e| e.to_string()).map(|_| w) }
                    _ => { let mut w = vec![]; JsonPretty::to_writer(&mut w, &mb).map_err(|e| e.to_string()).map(|_| w) } };
                let back: Result<Metablock, String> = wire.clone().and_then(|w| serde_json::from_slice::<Metablock>(&w).map_err(|e| e.to_string()));
                let ok = matches!(&back, Ok(b) if b.metadata == md && matches!(no_panic(|| b.verify(1, [signer.public()])), Ok(Ok(_))));
                if !ok && wire_bad.len() < 4 {
                    wire_bad.push(format!("doc {} via {}: {:?}; document: {}", i, layout, back.as_ref().map(|b| (b.metadata == md, b.verify(1, [signer.public()]).is_ok())).map_err(|e| e.clone()),
                        wire.map(|w| String::from_utf8_lossy(&w).chars().take(300).collect::<String>()).unwrap_or_default()));
                }
            }
        }
    }
    // key descriptions: every (material, declared scheme) pair - known schemes, and unknown scheme names that spell a known one or
    // something else - is a different key: different JSON form, different id, and a layout listing one instead of the other
    // has different signed bytes
    {
        use in_toto::crypto::{PublicKey, SignatureScheme as S};
        let mut keys: Vec<(String, PublicKey)> = vec![];
        for (mat, file) in [("ed25519", "ed25519/ed25519-1.spki.der"), ("rsa", "rsa/rsa-2048.spki.der"), ("ecdsa", "ecdsa/ec.spki.der")] {
            let der = match std::fs::read(format!("/repo/tests/{}", file)) { Ok(d) => d, Err(_) => continue };
            for sch in [S::Ed25519, S::RsaSsaPssSha256, S::RsaSsaPssSha512, S::EcdsaP256Sha256, S::Unknown("rsassa-pss-sha256".into()), S::Unknown("rsassa-pss-sha512".into()),
                        S::Unknown("ed25519".into()), S::Unknown("ecdsa-sha2-nistp256".into()), S::Unknown("x".into()), S::Unknown("".into())] {
                if let Ok(Ok(k)) = no_panic(|| PublicKey::from_spki(&der, sch.clone())) { keys.push((format!("{} declared {:?}", mat, sch), k)); }
            }
        }
        let mut bad: Vec<String> = vec![];
        let forms: Vec<(String, String, Vec<u8>, bool)> = keys.iter().map(|(n, k)| {
            let js = serde_json::to_string(k).unwrap_or_default();
            let back_equal = serde_json::from_str::<PublicKey>(&js).map(|b| &b == k && b.key_id() == k.key_id()).unwrap_or(false);
            let lay = MetadataWrapper::Layout(LayoutMetadataBuilder::new().expires(chrono::TimeZone::with_ymd_and_hms(&chrono::Utc, 2030, 1, 1, 0, 0, 0).unwrap()).add_key(k.clone()).build().unwrap());
            (n.clone(), js, lay.to_bytes().unwrap_or_default(), back_equal) }).collect();
        for i in 0..keys.len() {
            let _ = forms[i].3;   // (reading back mismatched material / scheme pairs is not demanded; supported pairs are read back in the C12 witnesses)
            for j in 0..i {
                if keys[i].1 == keys[j].1 { continue; }
                if (forms[i].1 == forms[j].1 || keys[i].1.key_id() == keys[j].1.key_id() || forms[i].2 == forms[j].2) && bad.len() < 5 {
                    bad.push(format!("{} and {} are different keys but share json={} id={} layout_bytes={}", forms[i].0, forms[j].0, forms[i].1 == forms[j].1, keys[i].1.key_id() == keys[j].1.key_id(), forms[i].2 == forms[j].2));
                }
            }
        }
        r.case("key-descriptions-injective", json!({"keys": keys.len()}), "different (material, scheme) pairs: different JSON, id and layout bytes", format!("{:?}", bad), bad.is_empty() && keys.len() >= 20);
    }
    let setter_bad: Vec<String> = SETTER_ORDER_BAD.with(|x| x.borrow().clone());
    r.case("generated-builder-setter-order", json!({"links": "every generated link, three orders of the six setters"}), "the same link whatever the order", format!("{:?}", setter_bad), setter_bad.is_empty());
    r.case("generated-signed-bytes-deterministic", json!({"documents": n_docs, "seed": seed}), "the same bytes every time", format!("{:?}", det_bad), det_bad.is_empty());
    r.case("generated-signed-bytes-injective", json!({"documents": n_docs, "distinct_values": distinct, "edited_neighbours_compared": neighbours, "seed": seed}), "different values never share signed bytes", format!("{:?}", inj_bad), inj_bad.is_empty() && distinct > n_docs / 4 && neighbours > n_docs / 2);
    r.case("generated-wire-identity", json!({"documents": (n_docs + 2) / 3, "layouts": 4, "seed": seed}), "read back equal and verified, for every writer", format!("{:?}", wire_bad), wire_bad.is_empty());
}
