//! C01 / C04 / C06 / C07 witnesses on the real code.
use crate::fixture::*;
use crate::util::no_panic;
use crate::Report;
use in_toto::crypto::{KeyId, PrivateKey, PublicKey};
use in_toto::models::{Metablock, MetadataWrapper};
use in_toto::verifylib::in_toto_verify;
use serde_json::json;
use std::collections::HashMap;
use std::str::FromStr;

struct MetablockBuilderShim;
impl MetablockBuilderShim {
    fn resign(mb: &Metablock, k: &PrivateKey) -> in_toto::crypto::Signature {
        Metablock::new(mb.metadata.clone(), &[k]).unwrap().signatures[0].clone()
    }
}
fn simple(owner_signers: &[&PrivateKey], expiry_days: i64) -> (Metablock, tempfile::TempDir) {
    let ka = key(2);
    let d = tmpdir();
    let la = link("a", &[], &[("x", 1)]);
    write_link(d.path(), "a", ka.key_id(), &signed_link(&la, &[&ka]));
    let l = layout(vec![step("a", 1, &[&ka], allow_all(), allow_all())], vec![], &[&ka], expiry_days);
    (signed_layout(&l, owner_signers), d)
}

pub fn run_c01(r: &mut Report) {
    let o1 = key(1);
    let o2 = key(3);
    let o3 = key(4);
    // the owner gate with stray entries in the signature list: one owner signed, two are demanded - whatever else the list carries
    // (copies of the genuine signature under re-spelled, altered or the other owner's id, junk, repeats, in any position), the
    // layout is rejected; with only the signing owner demanded it is accepted
    {
        let (lay, d) = simple(&[&o1], 30);
        let g = serde_json::to_value(&lay.signatures[0]).unwrap();
        let id = g["keyid"].as_str().unwrap().to_string();
        let other = serde_json::to_value(o2.key_id()).unwrap().as_str().unwrap().to_string();
        let flip = |s: &str, i: usize| -> String { s.chars().enumerate().map(|(j, c)| if j == i { if c == '0' { '1' } else { '0' } } else { c }).collect() };
        let mixed: String = id.chars().enumerate().map(|(j, c)| if j % 2 == 0 { c.to_ascii_uppercase() } else { c }).collect();
        let labels: Vec<(&str, String)> = vec![("same id", id.clone()), ("upper case", id.to_ascii_uppercase()), ("mixed case", mixed), ("last digit changed", flip(&id, 63)),
            ("first digit changed", flip(&id, 0)), ("other owner's id", other.clone()), ("other owner's id in upper case", other.to_ascii_uppercase())];
        let mut bad: Vec<String> = vec![]; let mut n = 0;
        for (what, label) in &labels { for junk in [false, true] { for pos in ["first", "last", "both"] {
            let sigv = if junk { json!("00".repeat(64)) } else { g["sig"].clone() };
            let stray: in_toto::crypto::Signature = match serde_json::from_value(json!({"keyid": label, "sig": sigv})) { Ok(s) => s, Err(_) => continue };
            let mut m = lay.clone();
            if pos != "last" { m.signatures.insert(0, stray.clone()); }
            if pos != "first" { m.signatures.push(stray.clone()); }
            n += 2;
            let two = no_panic(|| in_toto_verify(&m, owner_keys(&[&o1, &o2]), d.path().to_str().unwrap(), None).is_ok());
            let one = no_panic(|| in_toto_verify(&m, owner_keys(&[&o1]), d.path().to_str().unwrap(), None).is_ok());
            if two != Ok(false) && bad.len() < 6 { bad.push(format!("stray entry labelled {} ({}, {}), owners demanded o1+o2: {:?}", what, if junk { "junk" } else { "copy of the genuine signature" }, pos, two)); }
            // (a junk entry under the signer's own id is a second signature "by" that key: which of the two counts is not promised)
            if !(junk && *what == "same id") && one != Ok(true) && bad.len() < 6 { bad.push(format!("stray entry labelled {} ({}, {}), owner demanded o1: {:?}", what, if junk { "junk" } else { "copy of the genuine signature" }, pos, one)); }
        } } }
        r.case("owner-gate-with-stray-signature-entries", json!({"inputs": n}), "rejected when an owner did not sign, accepted when the demanded owner signed", format!("{:?}", bad), bad.is_empty());
        // the gate is the same whatever summary name the caller asks for (a named call is how delegations are verified): content
        // edited after signing, a signature value that is junk, another key's signature under the owner's id - all rejected
        let mut bad2: Vec<String> = vec![]; let mut n2 = 0;
        let honest = serde_json::to_value(&lay).unwrap();
        let foreign = serde_json::to_value(&signed_layout(&match &lay.metadata { MetadataWrapper::Layout(l) => l.clone(), _ => unreachable!() }, &[&o3]).signatures[0]).unwrap();
        let mut docs: Vec<(&str, serde_json::Value, bool)> = vec![("honest", honest.clone(), true)];
        { let mut v = honest.clone(); v["signed"]["readme"] = json!("edited after signing"); docs.push(("readme edited", v, false)); }
        { let mut v = honest.clone(); v["signed"]["steps"][0]["threshold"] = json!(0); docs.push(("step threshold edited", v, false)); }
        { let mut v = honest.clone(); v["signed"]["steps"][0]["expected_products"] = json!([["DISALLOW", "nothing"]]); docs.push(("step rules edited", v, false)); }
        { let mut v = honest.clone(); v["signed"]["expires"] = json!("2999-01-01T00:00:00Z"); docs.push(("expiry edited", v, false)); }
        { let mut v = honest.clone(); v["signatures"][0]["sig"] = json!("00".repeat(64)); docs.push(("signature value is junk", v, false)); }
        { let mut v = honest.clone(); v["signatures"][0]["sig"] = foreign["sig"].clone(); docs.push(("another key's signature under the owner's id", v, false)); }
        { let mut v = honest.clone(); v["signatures"] = json!([]); docs.push(("no signature entries", v, false)); }
        for (what, v, expect) in &docs { for summary_name in [None, Some("release"), Some(""), Some("a")] {
            let mb: Metablock = match serde_json::from_str(&v.to_string()) { Ok(m) => m, Err(_) => continue };
            n2 += 1;
            let res = no_panic(|| in_toto_verify(&mb, owner_keys(&[&o1]), d.path().to_str().unwrap(), summary_name).is_ok());
            if res != Ok(*expect) && bad2.len() < 8 { bad2.push(format!("{} with summary name {:?}: {:?}, expected {}", what, summary_name, res, expect)); }
        } }
        r.case("owner-gate-whatever-the-summary-name", json!({"inputs": n2}), "honest accepted, everything else rejected, with and without a summary name", format!("{:?}", bad2), bad2.is_empty() && n2 >= 28);
    }
    let cases: Vec<(&str, Vec<&PrivateKey>, HashMap<KeyId, PublicKey>, bool)> = vec![
        ("exact-key-set", vec![&o1], owner_keys(&[&o1]), true),
        ("two-owners-both-signed", vec![&o1, &o2], owner_keys(&[&o1, &o2]), true),
        ("empty-key-set", vec![&o1], HashMap::new(), false),
        ("superset-one-did-not-sign", vec![&o1], owner_keys(&[&o1, &o2]), false),
        ("disjoint-key-set", vec![&o1], owner_keys(&[&o3]), false),
        ("subset-of-signers", vec![&o1, &o2], owner_keys(&[&o1]), true),
        ("same-key-under-two-ids", vec![&o1], {
            let mut m = owner_keys(&[&o1]);
            m.insert(KeyId::from_str(&"ab".repeat(32)).unwrap(), o1.public().clone());
            m }, false),
        ("unsigned-layout", vec![], owner_keys(&[&o1]), false),
    ];
    for (id, signers, keys, expect) in cases {
        // the name the caller asks the summary to carry has no say in the verdict
        for summary_name in [None, Some("top"), Some("")] {
            let (lay, d) = simple(&signers, 30);
            let n = keys.len();
            let res = no_panic(|| in_toto_verify(&lay, keys.clone(), d.path().to_str().unwrap(), summary_name));
            let ok = matches!(&res, Ok(v) if v.is_ok() == expect);
            r.case(id, json!({"signers": signers.len(), "caller_keys": n, "summary_name": summary_name}), if expect { "Ok" } else { "Err" },
                   match &res { Ok(v) => verdict(v), Err(p) => format!("panic: {}", p) }, ok);
        }
    }
    // an owner signing twice with a randomized scheme does not stand in for a second owner
    {
        let ec = PrivateKey::from_pkcs8(&std::fs::read("/repo/tests/ecdsa/ec.pk8.der").unwrap(), in_toto::crypto::SignatureScheme::EcdsaP256Sha256).unwrap();
        let (mut lay, d) = simple(&[&ec], 30);
        let (again, _d2) = simple(&[&ec], 30);
        if let (MetadataWrapper::Layout(a), MetadataWrapper::Layout(b)) = (&lay.metadata, &again.metadata) {
            if a == b { lay.signatures.push(again.signatures[0].clone()); }
        }
        // re-sign the very same content a second time (expiry may differ by construction time, so sign explicitly)
        let second = MetablockBuilderShim::resign(&lay, &ec);
        lay.signatures.push(second);
        let res = no_panic(|| in_toto_verify(&lay, owner_keys(&[&ec, &o2]), d.path().to_str().unwrap(), None));
        r.case("one-owner-signs-twice-randomized", json!({"owners_trusted": 2, "signatures": "2 by the same ECDSA key"}), "Err",
               match &res { Ok(v) => verdict(v), Err(p) => format!("panic: {}", p) }, matches!(&res, Ok(v) if v.is_err()));
    }
    // post-signing change of the layout content
    let (mut lay, d) = simple(&[&o1], 30);
    if let MetadataWrapper::Layout(l) = &mut lay.metadata { l.readme = "changed after signing".into(); }
    let res = no_panic(|| in_toto_verify(&lay, owner_keys(&[&o1]), d.path().to_str().unwrap(), None));
    r.case("content-changed-after-signing", json!({"field": "readme"}), "Err",
           match &res { Ok(v) => verdict(v), Err(p) => format!("panic: {}", p) }, matches!(&res, Ok(v) if v.is_err()));
    let (mut lay, d) = simple(&[&o1], 30);
    if let MetadataWrapper::Layout(l) = &mut lay.metadata { l.steps[0].threshold = 0; }
    let res = no_panic(|| in_toto_verify(&lay, owner_keys(&[&o1]), d.path().to_str().unwrap(), None));
    r.case("content-changed-after-signing", json!({"field": "steps[0].threshold"}), "Err",
           match &res { Ok(v) => verdict(v), Err(p) => format!("panic: {}", p) }, matches!(&res, Ok(v) if v.is_err()));
    tamper_every_leaf(r);
    crate::c10::expiry_grid(r);
}

/// every leaf of the signed part of a rich layout changed in isolation (signatures kept): the owner signature must no longer verify.
/// String leaves are changed by appending a character AND by swapping each special character for its escaped spelling
/// (line feed <-> backslash-n, tab <-> backslash-t, backslash <-> two backslashes, quote <-> backslash-quote).
pub fn tamper_every_leaf(r: &mut Report) {
    // every supported owner key type; the genuine document is verified first in the same process (a verifier that remembers
    // what it accepted must not carry that over to other content)
    tamper_every_leaf_with(r, "ed25519", key(1));
    for (kind, file, scheme) in [("rsassa-pss-sha256", "rsa/rsa-2048.pk8.der", in_toto::crypto::SignatureScheme::RsaSsaPssSha256),
                                 ("ecdsa-sha2-nistp256", "ecdsa/ec.pk8.der", in_toto::crypto::SignatureScheme::EcdsaP256Sha256)] {
        match std::fs::read(format!("/repo/tests/{}", file)).ok().and_then(|d| PrivateKey::from_pkcs8(&d, scheme).ok()) {
            Some(k) => tamper_every_leaf_with(r, kind, k),
            None => r.case("tamper-every-leaf-key", json!({"key": kind}), "test key loads", "could not load".into(), false),
        }
    }
}
fn tamper_every_leaf_with(r: &mut Report, kind: &str, owner: PrivateKey) {
    use in_toto::models::{inspection::Inspection, rule::{Artifact, ArtifactRule}, step::Step, LayoutMetadataBuilder, VirtualTargetPath};
    let f = key(2);
    let p = |s: &str| VirtualTargetPath::new(s.to_string()).unwrap();
    // each string carries exactly ONE kind of special character, so that a writer with a "nothing to escape here" shortcut is exercised too
    let step = Step::new("build tab\there").threshold(2).add_key(f.key_id().clone())
        .add_expected_material(ArtifactRule::Match { pattern: p("src/*"), in_src: Some("cr\rx".into()), with: Artifact::Products, in_dst: Some("crlf\r\nMixedCase".into()), from: "fetch".into() })
        .add_expected_product(ArtifactRule::Create(p("back\\slash")))
        .add_expected_product(ArtifactRule::Match { pattern: p("out/*"), in_src: None, with: Artifact::Materials, in_dst: None, from: "fetch".into() })
        .add_expected_product(ArtifactRule::Match { pattern: p("e/*"), in_src: Some("".into()), with: Artifact::Products, in_dst: Some("".into()), from: "fetch".into() })
        .add_expected_product(ArtifactRule::Disallow(p("*")))
        .expected_command(cmd(&["sh", "-c", "quo\"te"]));
    let insp = Inspection::new("check").run(cmd(&["sh", "-c", "echo one\necho two"])).add_expected_material(ArtifactRule::Allow(p("*")));
    let l = LayoutMetadataBuilder::new().expires({ use chrono::TimeZone; chrono::Utc.timestamp_opt(chrono::Utc::now().timestamp() + 86400, 0).unwrap() })
        .readme("line1\nline2".into()).add_step(step).add_inspect(insp).add_key(f.public().clone()).build().unwrap();
    let lay = signed_layout(&l, &[&owner]);
    let control = matches!(no_panic(|| lay.verify(1, [owner.public()])), Ok(Ok(_)));
    let doc = serde_json::to_value(&lay).unwrap();
    fn leaves(v: &serde_json::Value, cur: &mut Vec<String>, out: &mut Vec<Vec<String>>) {
        match v {
            serde_json::Value::Object(o) => for (k, x) in o { cur.push(k.clone()); leaves(x, cur, out); cur.pop(); },
            serde_json::Value::Array(a) => { out.push(cur.clone()); for (i, x) in a.iter().enumerate() { cur.push(i.to_string()); leaves(x, cur, out); cur.pop(); } },
            _ => out.push(cur.clone()),
        }
    }
    let mut paths = vec![];
    leaves(&doc["signed"], &mut vec!["signed".to_string()], &mut paths);
    let mut n = 0; let mut accepted: Vec<String> = vec![];
    for path in &paths {
        let mut cur = &doc;
        for k in path { cur = match cur { serde_json::Value::Array(a) => &a[k.parse::<usize>().unwrap()], other => &other[k.as_str()] }; }
        let mut variants: Vec<serde_json::Value> = vec![];
        match cur {
            serde_json::Value::String(s) => {
                variants.push(json!(format!("{}x", s)));
                if !s.is_empty() { variants.push(json!("")); }
                // changes that a "normalising" signer or verifier would not notice: case, surrounding blanks, line-end style, path spelling
                for v in [s.to_lowercase(), s.to_uppercase(), format!("{} ", s), format!(" {}", s), s.trim().to_string(), s.replace("\r\n", "\n"), s.replace('\n', "\r\n"), s.replace('\r', ""),
                          format!("./{}", s), format!("{}/", s), s.replacen('/', "//", 1), s.replace("//", "/")] { if &v != s { variants.push(json!(v)); } }
                for (real, spelled) in [("\n", "\\n"), ("\t", "\\t"), ("\r", "\\r"), ("\\", "\\\\"), ("\"", "\\\""), ("\n", "\\u000a"), ("\t", "\\u0009")] {
                    if s.contains(real) { variants.push(json!(s.replacen(real, spelled, 1))); }
                    if s.contains(spelled) { variants.push(json!(s.replacen(spelled, real, 1))); }
                }
            }
            serde_json::Value::Number(x) => { variants.push(json!(x.as_i64().unwrap_or(0) + 1)); variants.push(json!(0)); }
            serde_json::Value::Bool(b) => variants.push(json!(!b)),
            serde_json::Value::Array(a) => { let mut b = a.clone(); if let Some(x) = b.pop() { variants.push(json!(b.clone())); b.push(x.clone()); b.push(x); variants.push(json!(b)); }
                // optional clauses of a MATCH rule: an (empty or non-empty) IN clause added, emptied or removed on either side
                if a.first().and_then(|x| x.as_str()).map(|x| x.eq_ignore_ascii_case("MATCH")).unwrap_or(false) {
                    let strs: Vec<String> = a.iter().map(|x| x.as_str().unwrap_or("").to_string()).collect();
                    for (i, w) in strs.iter().enumerate() {
                        if w == "IN" && i + 1 < strs.len() {
                            let mut e = strs.clone(); e[i + 1] = String::new(); variants.push(json!(e));
                            let mut rm = strs.clone(); rm.drain(i..i + 2); variants.push(json!(rm));
                        }
                        if (w == "WITH" && (i < 2 || strs[i - 2] != "IN")) || (w == "FROM" && (i < 2 || strs[i - 2] != "IN")) {
                            for pre in ["", "p"] { let mut ins = strs.clone(); ins.insert(i, pre.to_string()); ins.insert(i, "IN".to_string()); variants.push(json!(ins)); }
                        }
                    }
                } }
            _ => {}
        }
        for v in variants {
            if &v == cur { continue; }
            let mut d = doc.clone();
            { let mut c = &mut d; for k in &path[..path.len() - 1] { c = match c { serde_json::Value::Array(a) => &mut a[k.parse::<usize>().unwrap()], other => &mut other[k.as_str()] }; }
              let last = &path[path.len() - 1];
              match c { serde_json::Value::Array(a) => a[last.parse::<usize>().unwrap()] = v.clone(), other => other[last.as_str()] = v.clone() } }
            n += 1;
            if let Ok(mb) = serde_json::from_str::<Metablock>(&d.to_string()) {
                // a change the parser normalises away (same parsed value) is not a change of content
                if mb.metadata == lay.metadata { continue; }
                if matches!(no_panic(|| mb.verify(1, [owner.public()])), Ok(Ok(_))) { accepted.push(format!("{} := {}", path.join("."), v)); }
            }
        }
    }
    r.case("tamper-every-leaf", json!({"owner_key": kind, "leaves": paths.len(), "tampered_documents": n, "untampered_verifies": control}), "no tampered document verifies",
           format!("accepted: {:?}", accepted), control && accepted.is_empty() && n > 40);
}

/// child-process body of `expiry-whatever-the-local-time-zone` (the zone is read from TZ once per process)
pub fn expiry_zone_child() {
    use chrono::{Duration, Utc};
    let o1 = key(1);
    let mut bad: Vec<String> = vec![];
    for secs in [-14 * 3600i64, -11 * 3600, -5 * 3600, -3600, -120, 120, 3600, 5 * 3600, 11 * 3600, 14 * 3600] {
        for delegated in [false, true] {
            let t = Utc::now() + Duration::seconds(secs);
            let d = tmpdir();
            let ka = key(2);
            let inner_exp = if delegated { t } else { Utc::now() + Duration::days(30) };
            let outer_exp = if delegated { Utc::now() + Duration::days(30) } else { t };
            let mut inner = layout(vec![], vec![], &[], 30); inner.expires = inner_exp;
            let mut outer = if delegated { layout(vec![step("a", 1, &[&ka], allow_all(), allow_all())], vec![], &[&ka], 30) } else { layout(vec![], vec![], &[], 30) };
            outer.expires = outer_exp;
            if delegated { write_link(d.path(), "a", ka.key_id(), &signed_layout(&inner, &[&ka])); }
            let lay = signed_layout(&outer, &[&o1]);
            // through the wire as well: the instant is what the document says, in whatever zone the verifier sits
            let lay: Metablock = serde_json::from_str(&serde_json::to_string(&lay).unwrap()).unwrap();
            let res = no_panic(|| in_toto_verify(&lay, owner_keys(&[&o1]), d.path().to_str().unwrap(), None).is_ok());
            if res != Ok(secs > 0) { bad.push(format!("expires {:+}s delegated {}: {:?}", secs, delegated, res)); }
        }
    }
    println!("{}", json!({"bad": bad}));
}

pub fn run_c06(r: &mut Report) {
    use in_toto::models::LayoutMetadata;
    let o1 = key(1);
    // expiry is an INSTANT, not a second: a layout that expired a few hundred milliseconds ago - earlier within the same wall-clock
    // second - is expired, root and delegated, with the instant set on the value and read from a document with fractional seconds
    {
        use chrono::{Duration, Timelike, Utc};
        let mut bad: Vec<String> = vec![]; let mut n = 0;
        for delegated in [false, true] { for via_document in [false, true] { for ms_ago in [150i64, 400] {
            // wait for a moment late enough in its second that `ms_ago` earlier is still the same second
            let mut guard = 0;
            loop { let sub = Utc::now().nanosecond() / 1_000_000; if (sub as i64) >= ms_ago + 120 && sub < 900 { break; } std::thread::sleep(std::time::Duration::from_millis(20)); guard += 1; if guard > 200 { break; } }
            let t = Utc::now() - Duration::milliseconds(ms_ago);
            let d = tmpdir();
            let ka = key(2);
            let far = Utc::now() + Duration::days(30);
            let mut inner = layout(vec![], vec![], &[], 30); inner.expires = if delegated { t } else { far };
            let mut outer = if delegated { layout(vec![step("a", 1, &[&ka], allow_all(), allow_all())], vec![], &[&ka], 30) } else { layout(vec![], vec![], &[], 30) };
            outer.expires = if delegated { far } else { t };
            // through a document that spells the instant with its fractional second and a UTC offset
            let read = |l: in_toto::models::LayoutMetadata| -> in_toto::models::LayoutMetadata { if !via_document { return l; }
                let mut v = serde_json::to_value(&l).unwrap();
                v["expires"] = json!(l.expires.with_timezone(&chrono::FixedOffset::east_opt(19800).unwrap()).to_rfc3339_opts(chrono::SecondsFormat::Millis, false));
                serde_json::from_str(&v.to_string()).expect("a layout with a fractional-second expiry parses") };
            let (inner, outer) = (read(inner), read(outer));
            let same_second = t.timestamp() == Utc::now().timestamp();
            if delegated { write_link(d.path(), "a", ka.key_id(), &signed_layout(&inner, &[&ka])); }
            let lay = signed_layout(&outer, &[&o1]);
            let res = no_panic(|| in_toto_verify(&lay, owner_keys(&[&o1]), d.path().to_str().unwrap(), None).is_ok());
            n += 1;
            if res != Ok(false) && bad.len() < 6 { bad.push(format!("expired {} ms ago (same wall-clock second: {}), delegated {}: {:?}", ms_ago, same_second, delegated, res)); }
        } } }
        r.case("expired-earlier-within-the-same-second", json!({"inputs": n}), "Err", format!("{:?}", bad), bad.is_empty());
    }
    // the verifier's local time zone has no say: the same grid in child processes started under zones east and west of UTC
    // .. nor has anything else in the process environment that tools use to pin or fake the time
    for (var, val) in [("SOURCE_DATE_EPOCH", "0"), ("SOURCE_DATE_EPOCH", "1500000000"), ("SOURCE_DATE_EPOCH", "4102444800"), ("FAKETIME", "2001-01-01 00:00:00"), ("FAKETIME", "+10y"),
                       ("IN_TOTO_NOW", "2001-01-01T00:00:00Z"), ("LC_ALL", "tr_TR.UTF-8"), ("LANG", "C"), ("TZDIR", "/nonexistent")] {
        let out = std::process::Command::new(std::env::current_exe().unwrap()).arg("_EXPIRY_ZONES").env(var, val).output();
        let (ok, obs) = match out {
            Ok(o) => { let txt = String::from_utf8_lossy(&o.stdout).to_string();
                let v: Option<serde_json::Value> = txt.lines().rev().find_map(|l| serde_json::from_str(l).ok());
                match v { Some(v) if o.status.success() => (v["bad"].as_array().map(|a| a.is_empty()).unwrap_or(false), v["bad"].to_string()), _ => (false, format!("status {:?}: {}", o.status, txt.chars().take(300).collect::<String>())) } }
            Err(e) => (false, format!("cannot start child: {}", e)) };
        r.case("expiry-whatever-the-process-environment", json!({"variable": var, "value": val}), "expired layouts (root and delegated) rejected, unexpired accepted", obs, ok);
    }
    for tz in ["UTC0", "JST-9", "EST5", "<+14>-14", "<-12>12", "NPT-5:45", "Asia/Tokyo", "America/Los_Angeles"] {
        let out = std::process::Command::new(std::env::current_exe().unwrap()).arg("_EXPIRY_ZONES").env("TZ", tz).output();
        let (ok, obs) = match out {
            Ok(o) => { let txt = String::from_utf8_lossy(&o.stdout).to_string();
                let v: Option<serde_json::Value> = txt.lines().rev().find_map(|l| serde_json::from_str(l).ok());
                match v { Some(v) if o.status.success() => (v["bad"].as_array().map(|a| a.is_empty()).unwrap_or(false), v["bad"].to_string()), _ => (false, format!("status {:?}: {}", o.status, txt.chars().take(300).collect::<String>())) } }
            Err(e) => (false, format!("cannot start child: {}", e)) };
        r.case("expiry-whatever-the-local-time-zone", json!({"TZ": tz, "offsets_hours": [-14, -11, -5, -1, 0, 1, 5, 11, 14]}), "expired layouts (root and delegated) rejected, unexpired accepted", obs, ok);
    }
    for (days, expect) in [(30i64, true), (1, true), (-1, false), (-400, false)] {
        let (lay, d) = simple(&[&o1], days);
        let res = no_panic(|| in_toto_verify(&lay, owner_keys(&[&o1]), d.path().to_str().unwrap(), None));
        r.case("expiry", json!({"expires_in_days": days}), if expect { "Ok" } else { "Err" },
               match &res { Ok(v) => verdict(v), Err(p) => format!("panic: {}", p) }, matches!(&res, Ok(v) if v.is_ok() == expect));
    }
    // verdict grid: every representable kind of instant (far past, epoch edges, clock-representation edges, near now, far future),
    // set through the builder and read from a document; the layout is enforced exactly when the instant is not in the past
    {
        use chrono::{TimeZone, Utc, Duration};
        let now = Utc::now();
        let mut grid: Vec<chrono::DateTime<Utc>> = vec![];
        for y in [1, 999, 1066, 1582, 1600, 1676, 1677, 1678, 1899, 1900, 1901, 1969, 1970, 1971, 2000, 2001, 2037, 2038, 2039, 2099, 2100, 2261, 2262, 2263, 2999, 5000, 9999] {
            grid.push(Utc.with_ymd_and_hms(y, 1, 1, 0, 0, 0).unwrap());
            grid.push(Utc.with_ymd_and_hms(y, 12, 31, 23, 59, 59).unwrap());
        }
        for secs in [-366 * 86400i64, -86400, -3600, -61, -5, 120, 3600, 86400, 366 * 86400] { grid.push(now + Duration::seconds(secs)); }
        // instants the document format cannot write (years before 0 / after 9999) can still be handed to the builder
        for y in [-1, -100, -9999, -262000, 10000, 262000] { if let chrono::LocalResult::Single(t) = Utc.with_ymd_and_hms(y, 6, 15, 12, 0, 0) { grid.push(t); } }
        for t in grid {
            let t = Utc.timestamp_opt(t.timestamp(), 0).unwrap();
            let expect = t > now + Duration::seconds(60) || t >= Utc::now();
            if (t - now).num_seconds().abs() < 3 { continue; }
            for via in ["builder", "document"] {
                use chrono::Datelike;
                if via == "document" && !(0..=9999).contains(&t.year()) { continue; }
                let (lay0, d) = simple(&[&o1], 30);
                let l0: LayoutMetadata = match lay0.metadata.clone() { MetadataWrapper::Layout(l) => l, _ => unreachable!() };
                let l: Option<LayoutMetadata> = if via == "builder" { let mut l = l0.clone(); l.expires = t; Some(l) } else {
                    let mut v = serde_json::to_value(&lay0).unwrap();
                    v["signed"]["expires"] = json!(t.format("%Y-%m-%dT%H:%M:%SZ").to_string());
                    serde_json::from_str::<Metablock>(&v.to_string()).ok().and_then(|m| match m.metadata { MetadataWrapper::Layout(l) => Some(l), _ => None }) };
                let l = match l { Some(l) => l, None => { r.case("expiry-grid-parse", json!({"expires": t.to_rfc3339()}), "parses", "parse error".into(), false); continue; } };
                let built = if via == "builder" { let b = in_toto::models::LayoutMetadataBuilder::new().expires(t).steps(l.steps.clone()).inspects(l.inspect.clone());
                    let b = l.keys.values().fold(b, |b, k| b.add_key(k.clone()));
                    b.readme(l.readme.clone()).build().ok() } else { Some(l.clone()) };
                for (how, lm) in [("field", Some(l.clone())), ("constructed", built)] {
                    let lm = match lm { Some(x) => x, None => { r.case("expiry-grid-build", json!({"expires": t.to_rfc3339()}), "builds", "build error".into(), false); continue; } };
                    let mb = signed_layout(&lm, &[&o1]);
                    let res = no_panic(|| in_toto_verify(&mb, owner_keys(&[&o1]), d.path().to_str().unwrap(), None));
                    let good = matches!(&res, Ok(v) if v.is_ok() == expect);
                    if !good || how == "field" && via == "builder" {
                        r.case("expiry-verdict-grid", json!({"expires": t.to_rfc3339(), "via": via, "how": how}), if expect { "Ok" } else { "Err (expired)" },
                               match &res { Ok(v) => verdict(v), Err(p) => format!("panic: {}", p) }, good);
                    }
                }
            }
        }
    }
    // expiry is checked for every shape of layout: no steps at all, inspections only, one step, and as a delegated sub-layout without steps
    for shape in ["no-steps", "inspection-only", "one-step", "stepless-sub-layout", "two-steps-with-one-name", "sub-layout-with-two-steps-of-one-name"] {
        for days in [-1i64, -400, 30] {
            let _g = crate::c08::CWD_LOCK.lock().unwrap();
            let work = tmpdir(); let d = tmpdir();
            let ka = key(2);
            let insp = in_toto::models::inspection::Inspection::new("insp").run(cmd(&["true"])).expected_materials(allow_all()).expected_products(allow_all());
            let lay = match shape {
                "no-steps" => signed_layout(&layout(vec![], vec![], &[], days), &[&o1]),
                "inspection-only" => signed_layout(&layout(vec![], vec![insp], &[], days), &[&o1]),
                "one-step" => { write_link(d.path(), "a", ka.key_id(), &signed_link(&link("a", &[], &[("x", 1)]), &[&ka])); signed_layout(&layout(vec![step("a", 1, &[&ka], allow_all(), allow_all())], vec![], &[&ka], days), &[&o1]) }
                "two-steps-with-one-name" => { write_link(d.path(), "a", ka.key_id(), &signed_link(&link("a", &[], &[("x", 1)]), &[&ka]));
                    signed_layout(&layout(vec![step("a", 1, &[&ka], allow_all(), allow_all()), step("a", 1, &[&ka], allow_all(), allow_all())], vec![], &[&ka], days), &[&o1]) }
                "sub-layout-with-two-steps-of-one-name" => {
                    let sub = signed_layout(&layout(vec![step("i", 1, &[&ka], allow_all(), allow_all()), step("i", 1, &[&ka], allow_all(), allow_all())], vec![], &[&ka], days), &[&ka]);
                    write_link(d.path(), "a", ka.key_id(), &sub);
                    let sd = d.path().join(format!("a.{}", ka.key_id().prefix()));
                    std::fs::create_dir_all(&sd).unwrap();
                    write_link(&sd, "i", ka.key_id(), &signed_link(&link("i", &[], &[("x", 1)]), &[&ka]));
                    signed_layout(&layout(vec![step("a", 1, &[&ka], allow_all(), allow_all())], vec![], &[&ka], 30), &[&o1]) }
                _ => { let sub = signed_layout(&layout(vec![], vec![], &[], days), &[&ka]);
                       write_link(d.path(), "a", ka.key_id(), &sub);
                       std::fs::create_dir_all(d.path().join(format!("a.{}", ka.key_id().prefix()))).unwrap();
                       signed_layout(&layout(vec![step("a", 1, &[&ka], allow_all(), allow_all())], vec![], &[&ka], 30), &[&o1]) }
            };
            let old = std::env::current_dir().unwrap();
            std::env::set_current_dir(work.path()).unwrap();
            let res = no_panic(|| in_toto_verify(&lay, owner_keys(&[&o1]), d.path().to_str().unwrap(), None));
            std::env::set_current_dir(old).unwrap();
            let expect = days > 0;
            r.case("expiry-for-every-layout-shape", json!({"shape": shape, "expires_in_days": days}), if expect { "Ok" } else { "Err" },
                   match &res { Ok(v) => verdict(v), Err(p) => format!("panic: {}", p) }, matches!(&res, Ok(v) if v.is_ok() == expect));
        }
    }
    // expiries written with fractional seconds, read from a document and verified a few milliseconds after the stated instant (and a few
    // before): the stated instant decides, not the next or the previous whole second
    for frac_ms in [500i64, 750, 999, 1, 250] {
        use chrono::{Duration, TimeZone, Utc};
        for late in [true, false] {
            // wait for a clock reading S + frac + 30ms (late) or S + frac - 200ms (early) within the same second S, when possible
            let want_ms = if late { frac_ms + 30 } else { frac_ms - 200 };
            if !(5..=960).contains(&want_ms) { continue; }
            let mut now = Utc::now();
            for _ in 0..4000 { let ms = now.timestamp_subsec_millis() as i64; if ms >= want_ms && ms <= want_ms + 15 { break; } std::thread::sleep(std::time::Duration::from_millis(1)); now = Utc::now(); }
            let stated = Utc.timestamp_opt(now.timestamp(), 0).unwrap() + Duration::milliseconds(frac_ms);
            for notation in ["Z", "+02:00"] {
                let text = if notation == "Z" { stated.format("%Y-%m-%dT%H:%M:%S%.3fZ").to_string() } else { stated.with_timezone(&chrono::FixedOffset::east_opt(7200).unwrap()).format("%Y-%m-%dT%H:%M:%S%.3f%:z").to_string() };
                let (lay0, d) = simple(&[&o1], 30);
                let mut v = serde_json::to_value(&lay0).unwrap();
                v["signed"]["expires"] = json!(text);
                let l = match serde_json::from_str::<Metablock>(&v.to_string()).ok().and_then(|m| match m.metadata { MetadataWrapper::Layout(l) => Some(l), _ => None }) { Some(l) => l, None => continue };   // a reader may refuse fractions
                let mb = signed_layout(&l, &[&o1]);
                let before = Utc::now();
                let res = no_panic(|| in_toto_verify(&mb, owner_keys(&[&o1]), d.path().to_str().unwrap(), None));
                let after = Utc::now();
                // decided only when both clock readings around the call fall on the same side of the stated instant
                let expect = if before > stated && after > stated { Some(false) } else if before < stated && after < stated { Some(true) } else { None };
                // a reader that keeps only whole seconds may legitimately treat the instant as the START of its second (never later than stated)
                if let Some(e) = expect {
                    let ok = match &res { Ok(v) => if e { true } else { v.is_err() }, Err(_) => false };
                    r.case("fractional-expiry", json!({"expires": text, "verified_at_ms_after_stated": (before - stated).num_milliseconds()}), if e { "Ok, or Err if the reader truncates" } else { "Err (already expired)" },
                           match &res { Ok(v) => verdict(v), Err(p) => format!("panic: {}", p) }, ok);
                }
            }
        }
    }
    // the clock is read at every verification: a layout that expires between two calls is rejected by the later one,
    // whatever the earlier calls in this process returned (a failed one, a successful one)
    for earlier in ["failed-verification", "successful-verification", "both"] {
        use chrono::{TimeZone, Utc};
        let (lay0, d) = simple(&[&o1], 30);
        let mut l: LayoutMetadata = match lay0.metadata.clone() { MetadataWrapper::Layout(l) => l, _ => unreachable!() };
        let t = Utc.timestamp_opt(Utc::now().timestamp() + 2, 0).unwrap();
        l.expires = t;
        let mb = signed_layout(&l, &[&o1]);
        let other = key(5);
        let mut before = vec![];
        if earlier != "successful-verification" { before.push(no_panic(|| in_toto_verify(&mb, owner_keys(&[&other]), d.path().to_str().unwrap(), None)).map(|v| v.is_ok())); }
        if earlier != "failed-verification" { before.push(no_panic(|| in_toto_verify(&mb, owner_keys(&[&o1]), d.path().to_str().unwrap(), None)).map(|v| v.is_ok())); }
        let in_time = Utc::now() < t;
        while Utc::now() <= t + chrono::Duration::milliseconds(200) { std::thread::sleep(std::time::Duration::from_millis(100)); }
        let res = no_panic(|| in_toto_verify(&mb, owner_keys(&[&o1]), d.path().to_str().unwrap(), None));
        r.case("expiry-after-earlier-calls", json!({"earlier_calls": earlier, "earlier_results_ok": format!("{:?}", before), "earlier_calls_before_expiry": in_time}), "Err (expired meanwhile)",
               match &res { Ok(v) => verdict(v), Err(p) => format!("panic: {}", p) }, matches!(&res, Ok(v) if v.is_err()));
    }
    // offset notation, systematically: every hour of two days x fifteen offsets (so that the local reading falls on the previous,
    // the same and the next date) - the document is read as the very instant it states (independent of the clock), and an instant
    // one hour in the past / future is rejected / accepted in every notation
    {
        use chrono::{Duration, TimeZone, Utc};
        let offsets: [i32; 15] = [-12 * 3600, -11 * 3600 - 1800, -8 * 3600, -5 * 3600 - 2700, -3600, -1800, 0, 1800, 3600, 5 * 3600 + 1800, 8 * 3600, 9 * 3600, 12 * 3600 + 2700, 13 * 3600, 14 * 3600];
        let (lay0, d) = simple(&[&o1], 30);
        let base = serde_json::to_value(&lay0).unwrap();
        let mut bad: Vec<String> = vec![]; let mut n = 0;
        let start = Utc.with_ymd_and_hms(2031, 2, 28, 0, 0, 0).unwrap();
        for h in 0..48 { for off in offsets {
            let instant = start + Duration::hours(h) + Duration::minutes(7);
            let text = instant.with_timezone(&chrono::FixedOffset::east_opt(off).unwrap()).to_rfc3339();
            let mut v = base.clone(); v["signed"]["expires"] = json!(text);
            n += 1;
            match serde_json::from_str::<Metablock>(&v.to_string()).map(|m| m.metadata) {
                Ok(MetadataWrapper::Layout(l)) => if l.expires != instant && bad.len() < 6 { bad.push(format!("{} read as {}", text, l.expires.to_rfc3339())); },
                other => if bad.len() < 6 { bad.push(format!("{} not read: {:?}", text, other.map(|_| ()).map_err(|e| e.to_string()))); },
            }
        } }
        for (secs, expect) in [(-3600i64, false), (3600, true)] { for off in offsets {
            let instant = Utc::now() + Duration::seconds(secs);
            let text = instant.with_timezone(&chrono::FixedOffset::east_opt(off).unwrap()).to_rfc3339();
            let mut v = base.clone(); v["signed"]["expires"] = json!(text);
            n += 1;
            if let Ok(MetadataWrapper::Layout(l)) = serde_json::from_str::<Metablock>(&v.to_string()).map(|m| m.metadata) {
                let res = no_panic(|| in_toto_verify(&signed_layout(&l, &[&o1]), owner_keys(&[&o1]), d.path().to_str().unwrap(), None).is_ok());
                if res != Ok(expect) && bad.len() < 6 { bad.push(format!("expiry {} ({:+}s from now): {:?}", text, secs, res)); }
            } else if bad.len() < 6 { bad.push(format!("{} not read", text)); }
        } }
        r.case("expiry-in-every-offset-notation", json!({"documents": n}), "read as the stated instant; past rejected, future accepted", format!("{:?}", bad), bad.is_empty());
    }
    // offset notation: an instant in the past written with a +14:00 offset whose local date is in the future
    let past = chrono::Utc::now() - chrono::Duration::hours(1);
    let with_offset = past.with_timezone(&chrono::FixedOffset::east_opt(14 * 3600).unwrap()).to_rfc3339();
    let (lay, d) = simple(&[&o1], 30);
    let mut v = serde_json::to_value(&lay).unwrap();
    v["signed"]["expires"] = json!(with_offset);
    let parsed: Result<Metablock, _> = serde_json::from_str(&v.to_string());
    if let Ok(mut mb) = parsed {
        // re-sign so that only the expiry decides
        let l: LayoutMetadata = match mb.metadata.clone() { MetadataWrapper::Layout(l) => l, _ => unreachable!() };
        mb = signed_layout(&l, &[&o1]);
        let res = no_panic(|| in_toto_verify(&mb, owner_keys(&[&o1]), d.path().to_str().unwrap(), None));
        r.case("expiry-offset", json!({"expires": with_offset}), "Err (instant is one hour in the past)",
               match &res { Ok(v) => verdict(v), Err(p) => format!("panic: {}", p) }, matches!(&res, Ok(v) if v.is_err()));
    } else {
        r.case("expiry-offset-parse", json!({"expires": with_offset}), "parses", "parse error".into(), false);
    }
}

pub fn run_c04(r: &mut Report) {
    signature_value_shapes(r);
    let k1 = key(1);
    let k2 = key(2);
    let k3 = key(3);
    let l = link("x", &[], &[("a", 1)]);
    let sign = |ks: &[&PrivateKey]| signed_link(&l, ks);
    let pubs = |ks: &[&PrivateKey]| -> Vec<PublicKey> { ks.iter().map(|k| k.public().clone()).collect() };
    struct C { id: &'static str, mb: Metablock, keys: Vec<PublicKey>, t: u32, expect: bool }
    let mut dup = sign(&[&k1]);
    dup.signatures.push(dup.signatures[0].clone());
    let mut mislabeled = sign(&[&k1, &k2]);
    // attribute k2's signature to k1's id and vice versa
    let s0 = serde_json::to_value(&mislabeled.signatures[0]).unwrap();
    let s1 = serde_json::to_value(&mislabeled.signatures[1]).unwrap();
    let sw0 = json!({"keyid": s1["keyid"], "sig": s0["sig"]});
    let sw1 = json!({"keyid": s0["keyid"], "sig": s1["sig"]});
    mislabeled.signatures = vec![serde_json::from_value(sw0).unwrap(), serde_json::from_value(sw1).unwrap()];
    let cases = vec![
        C { id: "t0", mb: sign(&[&k1]), keys: pubs(&[&k1]), t: 0, expect: false },
        C { id: "t1-one-valid", mb: sign(&[&k1]), keys: pubs(&[&k1]), t: 1, expect: true },
        C { id: "t2-one-valid", mb: sign(&[&k1]), keys: pubs(&[&k1, &k2]), t: 2, expect: false },
        C { id: "t2-duplicate-signature", mb: dup, keys: pubs(&[&k1, &k2]), t: 2, expect: false },
        C { id: "t2-two-valid", mb: sign(&[&k1, &k2]), keys: pubs(&[&k2, &k1]), t: 2, expect: true },
        C { id: "t2-one-unauthorised", mb: sign(&[&k1, &k3]), keys: pubs(&[&k1, &k2]), t: 2, expect: false },
        C { id: "t1-mislabeled", mb: mislabeled, keys: pubs(&[&k1, &k2]), t: 1, expect: false },
        C { id: "t1-duplicate-authorised-key", mb: sign(&[&k1]), keys: pubs(&[&k1, &k1]), t: 1, expect: true },
        C { id: "t2-duplicate-authorised-key", mb: sign(&[&k1]), keys: pubs(&[&k1, &k1]), t: 2, expect: false },
        C { id: "t2-two-different-signatures-by-one-ecdsa-key", mb: {
                let ec = in_toto::crypto::PrivateKey::from_pkcs8(&std::fs::read("/repo/tests/ecdsa/ec.pk8.der").unwrap(), in_toto::crypto::SignatureScheme::EcdsaP256Sha256).unwrap();
                let mut m = signed_link(&l, &[&ec]);
                let again = signed_link(&l, &[&ec]);
                m.signatures.push(again.signatures[0].clone());   // randomized scheme: same key id, different bytes, both valid
                m },
            keys: { let ec = in_toto::crypto::PrivateKey::from_pkcs8(&std::fs::read("/repo/tests/ecdsa/ec.pk8.der").unwrap(), in_toto::crypto::SignatureScheme::EcdsaP256Sha256).unwrap(); vec![ec.public().clone(), k2.public().clone()] },
            t: 2, expect: false },
        // a key whose scheme the library cannot check never contributes: garbage attributed to it, or a genuine signature of the same material
        C { id: "unknown-scheme-key-garbage-signature", mb: {
                let mut m = sign(&[]);
                let unk = PublicKey::from_spki(&std::fs::read("/repo/tests/rsa/rsa-2048.spki.der").unwrap(), in_toto::crypto::SignatureScheme::Unknown("rsa-pkcs1v15-sha256".into())).unwrap();
                m.signatures = vec![serde_json::from_value(json!({"keyid": serde_json::to_value(unk.key_id()).unwrap(), "sig": "00".repeat(256)})).unwrap()];
                m },
            keys: vec![PublicKey::from_spki(&std::fs::read("/repo/tests/rsa/rsa-2048.spki.der").unwrap(), in_toto::crypto::SignatureScheme::Unknown("rsa-pkcs1v15-sha256".into())).unwrap()],
            t: 1, expect: false },
        C { id: "unknown-scheme-key-plus-one-valid-t2", mb: {
                let mut m = sign(&[&k1]);
                let unk = PublicKey::from_spki(&std::fs::read("/repo/tests/ed25519/ed25519-1.spki.der").unwrap(), in_toto::crypto::SignatureScheme::Unknown("x".into())).unwrap();
                let genuine = serde_json::to_value(&m.signatures[0]).unwrap();
                m.signatures.push(serde_json::from_value(json!({"keyid": serde_json::to_value(unk.key_id()).unwrap(), "sig": genuine["sig"]})).unwrap());
                m },
            keys: vec![k1.public().clone(), PublicKey::from_spki(&std::fs::read("/repo/tests/ed25519/ed25519-1.spki.der").unwrap(), in_toto::crypto::SignatureScheme::Unknown("x".into())).unwrap()],
            t: 2, expect: false },
        // the same key material declared with another scheme is another key: its id differs and the signature does not count
        C { id: "same-material-other-scheme", mb: {
                let rsa = in_toto::crypto::PrivateKey::from_pkcs8(&std::fs::read("/repo/tests/rsa/rsa-2048.pk8.der").unwrap(), in_toto::crypto::SignatureScheme::RsaSsaPssSha256).unwrap();
                signed_link(&l, &[&rsa]) },
            keys: vec![PublicKey::from_spki(&std::fs::read("/repo/tests/rsa/rsa-2048.spki.der").unwrap(), in_toto::crypto::SignatureScheme::RsaSsaPssSha512).unwrap()],
            t: 1, expect: false },
        // a genuine signature copied under made-up key ids must not be counted again (the key id is not a hint to try other keys)
        C { id: "genuine-signature-relabelled-under-unknown-ids", mb: {
                let mut m = sign(&[&k1]);
                let g = serde_json::to_value(&m.signatures[0]).unwrap();
                for fake in ["11", "22", "33"] { m.signatures.push(serde_json::from_value(json!({"keyid": fake.repeat(32), "sig": g["sig"]})).unwrap()); }
                m }, keys: pubs(&[&k1, &k2]), t: 2, expect: false },
        C { id: "only-relabelled-copies", mb: {
                let mut m = sign(&[&k1]);
                let g = serde_json::to_value(&m.signatures[0]).unwrap();
                m.signatures = vec![serde_json::from_value(json!({"keyid": "44".repeat(32), "sig": g["sig"]})).unwrap()];
                m }, keys: pubs(&[&k1]), t: 1, expect: false },
        C { id: "tmax", mb: sign(&[&k1]), keys: pubs(&[&k1]), t: u32::MAX, expect: false },
        C { id: "no-signatures", mb: sign(&[]), keys: pubs(&[&k1]), t: 1, expect: false },
        C { id: "no-keys", mb: sign(&[&k1]), keys: vec![], t: 1, expect: false },
    ];
    for c in cases {
        let res = no_panic(|| c.mb.verify(c.t, c.keys.iter()));
        let ok = match &res { Ok(v) => v.is_ok() == c.expect && (v.is_err() || v.as_ref().unwrap() == &c.mb.metadata), Err(_) => false };
        r.case(c.id, json!({"threshold": c.t, "keys": c.keys.len(), "signatures": c.mb.signatures.len()}),
               if c.expect { "Ok(metadata)" } else { "Err" }, format!("{:?}", res.map(|v| v.map(|_| "Ok").map_err(|e| e.to_string()))), ok);
    }
    // authorised keys READ FROM DOCUMENTS that declare an identifier of their own (`keyid` member): the declaration has no say - the
    // same material declared under an alias is the same key, and a signature repeated under the alias does not raise the count
    {
        let genuine = sign(&[&k1]);
        let g = serde_json::to_value(&genuine.signatures[0]).unwrap();
        let own = serde_json::to_value(k1.public()).unwrap();
        let alias_id = "ab".repeat(32);
        let mut aliased_doc = own.clone(); aliased_doc["keyid"] = json!(alias_id);
        let mut own_doc = own.clone(); own_doc["keyid"] = g["keyid"].clone();
        let parse = |v: &serde_json::Value| serde_json::from_str::<PublicKey>(&v.to_string());
        match (parse(&own_doc), parse(&aliased_doc)) {
            (Ok(k_own), Ok(k_alias)) => {
                let mut m = genuine.clone();
                m.signatures.push(serde_json::from_value(json!({"keyid": alias_id, "sig": g["sig"]})).unwrap());
                for (what, keys, t, expect) in [("own + alias declared, signature under both ids, t=2", vec![k_own.clone(), k_alias.clone()], 2u32, false),
                                                ("own + alias declared, signature under both ids, t=1", vec![k_own.clone(), k_alias.clone()], 1, true),
                                                ("alias declared only, t=1", vec![k_alias.clone()], 1, true),
                                                ("alias declared + another key, t=2", vec![k_alias.clone(), k2.public().clone()], 2, false)] {
                    let res = no_panic(|| m.verify(t, keys.iter()).is_ok());
                    r.case("keys-read-from-documents-declaring-their-own-id", json!({"scenario": what}), if expect { "Ok" } else { "Err" }, format!("{:?} (parsed ids: {:?}, {:?})", res, k_own.key_id(), k_alias.key_id()), res == Ok(expect));
                }
            }
            // a reader may refuse a key document whose declared id is not the key's own
            (a, b) => r.case("keys-read-from-documents-declaring-their-own-id", json!({"scenario": "parse"}), "both parse, or the aliased one is refused", format!("{:?} / {:?}", a.as_ref().map(|_| ()).map_err(|e| e.to_string()), b.as_ref().map(|_| ()).map_err(|e| e.to_string())), a.is_ok()),
        }
    }
    // the same key material under its other identifier (imported from PKCS#8 / from the raw pair: the hash-algorithm list, and so the
    // id, differs) is ANOTHER key: its signature is not a signature of the authorised flavour and never adds to the count
    {
        let pk8 = std::fs::read("/repo/tests/ed25519/ed25519-1.pk8.der").unwrap();
        let raw: Vec<u8> = pk8[16..48].iter().chain(pk8[pk8.len() - 32..].iter()).cloned().collect();
        let a_pk8 = PrivateKey::from_pkcs8(&pk8, in_toto::crypto::SignatureScheme::Ed25519).unwrap();
        let a_raw = PrivateKey::from_ed25519(&raw).unwrap();
        let flavours = [("pkcs8", &a_pk8), ("raw-pair", &a_raw)];
        for (i, (fname, authorised)) in flavours.iter().enumerate() {
            let (oname, other) = flavours[1 - i];
            let both = sign(&[authorised, other]);
            let only_other = sign(&[other]);
            let scen: Vec<(&str, &Metablock, Vec<PublicKey>, u32, bool)> = vec![
                ("both flavours signed; authorised flavour and an absent key demanded, t=2", &both, vec![authorised.public().clone(), k2.public().clone()], 2, false),
                ("both flavours signed; authorised flavour and an absent key demanded, t=1", &both, vec![authorised.public().clone(), k2.public().clone()], 1, true),
                ("only the other flavour signed, t=1", &only_other, vec![authorised.public().clone()], 1, false),
                ("only the other flavour signed; both flavours authorised, t=2", &only_other, vec![authorised.public().clone(), other.public().clone()], 2, false),
                ("both flavours signed and authorised, t=2", &both, vec![authorised.public().clone(), other.public().clone()], 2, true),
            ];
            for (what, mb, keys, t, expect) in scen {
                let res = no_panic(|| mb.verify(t, keys.iter()).is_ok());
                r.case("other-flavour-of-the-key-material-is-another-key", json!({"authorised_flavour": fname, "other_flavour": oname, "scenario": what, "ids_differ": authorised.key_id() != other.key_id()}),
                       if expect { "Ok" } else { "Err" }, format!("{:?}", res), res == Ok(expect) && authorised.key_id() != other.key_id());
            }
        }
    }
    // every arrangement of repeated signatures: all lists of length 0..=5 over {A, B authorised, C unauthorised}, thresholds 0..=3,
    // both orders of the authorised keys: Ok exactly when the number of DISTINCT authorised signers reaches a threshold >= 1
    {
        let base = sign(&[&k1, &k2, &k3]);
        let sig_of = |k: &PrivateKey| base.signatures.iter().find(|s| s.key_id() == k.key_id()).unwrap().clone();
        let sigs = [sig_of(&k1), sig_of(&k2), sig_of(&k3)];
        let mut bad: Vec<String> = vec![]; let mut n = 0;
        for len in 0..=5usize { for code in 0..3usize.pow(len as u32) {
            let mut c = code; let mut idx = vec![];
            for _ in 0..len { idx.push(c % 3); c /= 3; }
            let mut m = base.clone();
            m.signatures = idx.iter().map(|i| sigs[*i].clone()).collect();
            let distinct = [0usize, 1].iter().filter(|a| idx.contains(a)).count() as u32;
            for t in 0u32..=3 { for keys in [pubs(&[&k1, &k2]), pubs(&[&k2, &k1])] {
                n += 1;
                let res = no_panic(|| m.verify(t, keys.iter()).is_ok());
                let expect = t >= 1 && distinct >= t;
                if res != Ok(expect) && bad.len() < 6 { bad.push(format!("signers {:?} (0,1 authorised; 2 not) threshold {}: {:?}, expected {}", idx, t, res, expect)); }
            } }
        } }
        r.case("every-arrangement-of-repeated-signatures", json!({"inputs": n}), "Ok exactly when distinct authorised signers >= threshold >= 1", format!("{:?}", bad), bad.is_empty());
        // every key authorised; each one's entry absent / valid / stale (a genuine signature of that key over ANOTHER block): an invalid
        // entry neither counts nor uses anything up - Ok exactly when the VALID entries reach the threshold, in either order
        {
            let other_block = signed_link(&link("x", &[], &[("a", 2)]), &[&k1, &k2, &k3]);
            let stale_of = |k: &PrivateKey| other_block.signatures.iter().find(|s| s.key_id() == k.key_id()).unwrap().clone();
            let ks = [&k1, &k2, &k3];
            let mut bad3: Vec<String> = vec![]; let mut n3 = 0;
            for code in 0..27usize {
                let st = [code % 3, (code / 3) % 3, code / 9];   // 0 absent, 1 valid, 2 stale
                let mut entries = vec![];
                for i in 0..3 { match st[i] { 1 => entries.push(sig_of(ks[i])), 2 => entries.push(stale_of(ks[i])), _ => {} } }
                let valid = st.iter().filter(|x| **x == 1).count() as u32;
                for rev in [false, true] { for t in 1u32..=3 {
                    let mut m = base.clone();
                    m.signatures = if rev { entries.iter().rev().cloned().collect() } else { entries.clone() };
                    n3 += 1;
                    let res = no_panic(|| m.verify(t, pubs(&[&k1, &k2, &k3]).iter()).is_ok());
                    if res != Ok(valid >= t) && bad3.len() < 6 { bad3.push(format!("entries (0 absent, 1 valid, 2 stale) {:?} reversed {} threshold {}: {:?}, expected {}", st, rev, t, res, valid >= t)); }
                } }
            }
            r.case("valid-and-stale-entries-of-authorised-keys", json!({"inputs": n3}), "Ok exactly when the valid entries reach the threshold", format!("{:?}", bad3), bad3.is_empty());
        }
        // the same with one key of each type (RSA-PSS and ECDSA authorised, Ed25519 not), re-signing for every occurrence (the
        // randomised schemes give a different valid signature each time)
        let rsa = PrivateKey::from_pkcs8(&std::fs::read("/repo/tests/rsa/rsa-2048.pk8.der").unwrap(), in_toto::crypto::SignatureScheme::RsaSsaPssSha256).unwrap();
        let ec = PrivateKey::from_pkcs8(&std::fs::read("/repo/tests/ecdsa/ec.pk8.der").unwrap(), in_toto::crypto::SignatureScheme::EcdsaP256Sha256).unwrap();
        let signers: [&PrivateKey; 3] = [&rsa, &ec, &k3];
        let mut bad2: Vec<String> = vec![]; let mut n2 = 0;
        for len in 0..=4usize { for code in 0..3usize.pow(len as u32) {
            let mut c = code; let mut idx = vec![];
            for _ in 0..len { idx.push(c % 3); c /= 3; }
            let mut m = sign(&[]);
            m.signatures = idx.iter().map(|i| { let one = sign(&[signers[*i]]); one.signatures[0].clone() }).collect();
            let distinct = [0usize, 1].iter().filter(|a| idx.contains(a)).count() as u32;
            for t in 1u32..=3 { for keys in [pubs(&[&rsa, &ec]), pubs(&[&ec, &rsa])] {
                n2 += 1;
                let res = no_panic(|| m.verify(t, keys.iter()).is_ok());
                let expect = distinct >= t;
                if res != Ok(expect) && bad2.len() < 6 { bad2.push(format!("signers {:?} (0 rsa, 1 ecdsa authorised; 2 ed25519 not) threshold {}: {:?}, expected {}", idx, t, res, expect)); }
            } }
        } }
        r.case("every-arrangement-of-repeated-signatures-mixed-key-types", json!({"inputs": n2}), "Ok exactly when distinct authorised signers >= threshold >= 1", format!("{:?}", bad2), bad2.is_empty());
    }
    // entries labelled with a near-variant of an authorised key's id (other case, blanks, one digit changed) are entries of an
    // unknown key: they neither add to the count nor displace the genuine entry, in either order
    {
        let genuine = sign(&[&k1]);
        let g = serde_json::to_value(&genuine.signatures[0]).unwrap();
        let id = g["keyid"].as_str().unwrap().to_string();
        let flip = |s: &str, i: usize| -> String { s.chars().enumerate().map(|(j, c)| if j == i { if c == '0' { '1' } else { '0' } } else { c }).collect() };
        let mixed: String = id.chars().enumerate().map(|(j, c)| if j % 2 == 0 { c.to_ascii_uppercase() } else { c }).collect();
        for (what, label) in [("upper case", id.to_ascii_uppercase()), ("mixed case", mixed), ("last digit changed", flip(&id, 63)), ("first digit changed", flip(&id, 0))] {
            if label == id { continue; }
            for junk_sig in [true, false] {
                let sigv = if junk_sig { json!("00".repeat(64)) } else { g["sig"].clone() };
                let entry = json!({"keyid": label, "sig": sigv});
                let parsed: Result<in_toto::crypto::Signature, _> = serde_json::from_value(entry.clone());
                let stray = match parsed { Ok(s) => s, Err(_) => continue };   // a reader may refuse such an id outright
                for stray_first in [true, false] {
                    let mut m = genuine.clone();
                    if stray_first { m.signatures.insert(0, stray.clone()); } else { m.signatures.push(stray.clone()); }
                    let res = no_panic(|| m.verify(1, [k1.public()]));
                    r.case("near-variant-key-id-entries", json!({"label": what, "stray_signature": if junk_sig { "junk" } else { "copy of the genuine one" }, "stray_first": stray_first, "threshold": 1}), "Ok (the genuine entry counts)",
                           format!("{:?}", res.as_ref().map(|v| v.as_ref().map(|_| "Ok").map_err(|e| e.to_string()))), matches!(&res, Ok(Ok(_))));
                    let res2 = no_panic(|| m.verify(2, [k1.public(), k2.public()]));
                    r.case("near-variant-key-id-entries", json!({"label": what, "stray_signature": if junk_sig { "junk" } else { "copy of the genuine one" }, "stray_first": stray_first, "threshold": 2}), "Err (one key signed)",
                           format!("{:?}", res2.as_ref().map(|v| v.as_ref().map(|_| "Ok").map_err(|e| e.to_string()))), matches!(&res2, Ok(Err(_))));
                }
            }
        }
    }
    ecdsa_signature_lengths(r);
    declared_scheme_decides(r);
}

/// dissent in the SHAPE of a digest: a truncated or empty digest, an extra or a different algorithm are all disagreements
pub fn digest_shape_dissent(r: &mut Report, repetitions: usize, tag: &str) {
    use in_toto::crypto::{HashAlgorithm, HashValue};
    use in_toto::models::{LinkMetadataBuilder, TargetDescription, VirtualTargetPath};
    let owner = key(1);
    let ks = [key(2), key(3), key(4)];
    let td = |v: Vec<(HashAlgorithm, Vec<u8>)>| -> TargetDescription { v.into_iter().map(|(a, b)| (a, HashValue::new(b))).collect() };
    let base = td(vec![(HashAlgorithm::Sha256, vec![7; 32])]);
    let shapes: Vec<(&str, TargetDescription)> = vec![
        ("truncated-digest", td(vec![(HashAlgorithm::Sha256, vec![7; 31])])), ("one-byte-digest", td(vec![(HashAlgorithm::Sha256, vec![7; 1])])),
        ("empty-digest", td(vec![(HashAlgorithm::Sha256, vec![])])), ("longer-digest", td(vec![(HashAlgorithm::Sha256, vec![7; 33])])),
        ("no-digest-at-all", td(vec![])), ("other-algorithm-same-bytes", td(vec![(HashAlgorithm::Sha512, vec![7; 32])])),
        ("extra-algorithm", td(vec![(HashAlgorithm::Sha256, vec![7; 32]), (HashAlgorithm::Sha512, vec![7; 64])])),
    ];
    for (id, odd) in shapes {
        for pos in 0..3usize {
            let d = tmpdir();
            for (i, k) in ks.iter().enumerate() {
                let t = if i == pos { odd.clone() } else { base.clone() };
                let l = LinkMetadataBuilder::new().name("a".into()).products([(VirtualTargetPath::new("p".into()).unwrap(), t)].into_iter().collect()).build().unwrap();
                write_link(d.path(), "a", k.key_id(), &signed_link(&l, &[k]));
            }
            let refs: Vec<&PrivateKey> = ks.iter().collect();
            let lay = signed_layout(&layout(vec![step("a", 2, &refs, allow_all(), allow_all())], vec![], &refs, 30), &[&owner]);
            let mut seen = std::collections::BTreeSet::new();
            for _ in 0..repetitions {
                let res = no_panic(|| in_toto_verify(&lay, owner_keys(&[&owner]), d.path().to_str().unwrap(), None));
                seen.insert(match &res { Ok(v) => if v.is_ok() { "Ok".to_string() } else { "Err".to_string() }, Err(p) => format!("panic: {}", p) });
            }
            r.case(tag, json!({"dissent": id, "dissenting_link": pos, "threshold": 2, "links": 3, "repetitions": repetitions}), "Err on every run", format!("{:?}", seen), seen.len() == 1 && seen.contains("Err"));
        }
    }
}

pub fn run_c07(r: &mut Report) {
    agreement_matrix(r, 1, "agreement");
    digest_shape_dissent(r, 1, "digest-shape-dissent");
    cosigned_links(r);
    let owner = key(1);
    let ka = key(2);
    let kb = key(3);
    let variants: Vec<(&str, Vec<(&str, u8)>, Vec<(&str, u8)>, bool)> = vec![
        ("identical", vec![("m", 1)], vec![("p", 2)], true),
        ("product-digest-differs", vec![("m", 1)], vec![("p", 3)], false),
        ("material-digest-differs", vec![("m", 9)], vec![("p", 2)], false),
        ("extra-product", vec![("m", 1)], vec![("p", 2), ("q", 2)], false),
        ("missing-material", vec![], vec![("p", 2)], false),
        ("product-path-differs", vec![("m", 1)], vec![("p2", 2)], false),
    ];
    for (id, m2, p2, expect) in variants {
        let d = tmpdir();
        write_link(d.path(), "a", ka.key_id(), &signed_link(&link("a", &[("m", 1)], &[("p", 2)]), &[&ka]));
        write_link(d.path(), "a", kb.key_id(), &signed_link(&link("a", &m2, &p2), &[&kb]));
        let l = layout(vec![step("a", 2, &[&ka, &kb], allow_all(), allow_all())], vec![], &[&ka, &kb], 30);
        let lay = signed_layout(&l, &[&owner]);
        let res = no_panic(|| in_toto_verify(&lay, owner_keys(&[&owner]), d.path().to_str().unwrap(), None));
        r.case(id, json!({"second_link_materials": m2, "second_link_products": p2}), if expect { "Ok" } else { "Err" },
               match &res { Ok(v) => verdict(v), Err(p) => format!("panic: {}", p) }, matches!(&res, Ok(v) if v.is_ok() == expect));
    }
}

/// n links of one step, all identical except the one at rank `pos` (in key-id order), which dissents in `kind`.
/// Shared by C07 (any dissent must be fatal when threshold >= 2) and C13 (the outcome is the same on every run).
/// the signature VALUE is checked as a whole: a valid signature with bytes appended, prepended, dropped or doubled is not a valid
/// signature, for every key type (block level and through final-product verification)
pub fn signature_value_shapes(r: &mut Report) {
    use in_toto::crypto::SignatureScheme as S;
    let l = link("a", &[], &[("x", 1)]);
    let owner = key(1);
    let mut keys: Vec<(String, PrivateKey)> = vec![("ed25519".into(), key(2))];
    for (n, f, sch) in [("rsassa-pss-sha256", "rsa/rsa-2048.pk8.der", S::RsaSsaPssSha256), ("ecdsa-sha2-nistp256", "ecdsa/ec.pk8.der", S::EcdsaP256Sha256)] {
        if let Some(k) = std::fs::read(format!("/repo/tests/{}", f)).ok().and_then(|d| PrivateKey::from_pkcs8(&d, sch).ok()) { keys.push((n.into(), k)); }
    }
    for (kind, k) in &keys {
        let genuine = signed_link(&l, &[k]);
        let g = serde_json::to_value(&genuine.signatures[0]).unwrap();
        let hex = g["sig"].as_str().unwrap().to_string();
        let shapes: Vec<(&str, String)> = vec![("one zero byte appended", format!("{}00", hex)), ("sixteen bytes appended", format!("{}{}", hex, "a5".repeat(16))), ("doubled", format!("{}{}", hex, hex)),
            ("one byte prepended", format!("00{}", hex)), ("last byte dropped", hex[..hex.len() - 2].to_string()), ("first byte dropped", hex[2..].to_string()), ("empty", String::new()),
            ("upper-case hex", hex.to_uppercase())];
        for (what, sh) in shapes {
            let sig: Result<in_toto::crypto::Signature, _> = serde_json::from_value(json!({"keyid": g["keyid"], "sig": sh}));
            let sig = match sig { Ok(s) => s, Err(_) => continue };      // a reader may refuse the spelling outright
            let same_bytes = serde_json::to_value(&sig).unwrap()["sig"] == g["sig"];
            let mut m = genuine.clone();
            m.signatures = vec![sig];
            let res = no_panic(|| m.verify(1, [k.public()]));
            let expect_ok = same_bytes;     // only a spelling of the very same bytes may verify
            r.case("signature-value-shapes", json!({"key": kind, "signature": what, "level": "block"}), if expect_ok { "Ok" } else { "Err" },
                   format!("{:?}", res.as_ref().map(|v| v.as_ref().map(|_| "Ok").map_err(|e| e.to_string()))), matches!(&res, Ok(v) if v.is_ok() == expect_ok));
            // and end to end, as the evidence of a step
            let d = tmpdir();
            write_link(d.path(), "a", k.key_id(), &m);
            let lay = signed_layout(&layout(vec![step("a", 1, &[k], allow_all(), allow_all())], vec![], &[k], 30), &[&owner]);
            let res2 = no_panic(|| in_toto_verify(&lay, owner_keys(&[&owner]), d.path().to_str().unwrap(), None));
            r.case("signature-value-shapes", json!({"key": kind, "signature": what, "level": "final-product verification"}), if expect_ok { "Ok" } else { "Err" },
                   match &res2 { Ok(v) => verdict(v), Err(p) => format!("panic: {}", p) }, matches!(&res2, Ok(v) if v.is_ok() == expect_ok));
        }
    }
}

/// links that carry MORE signatures than the one they are filed under (co-signed evidence): a co-signer's own, dissenting link still
/// counts as dissent, whichever of the two files sorts first
pub fn cosigned_links(r: &mut Report) {
    let owner = key(1);
    let mut pool: Vec<_> = (0..4).map(|_| fresh_key()).collect();
    pool.sort_by(|a, b| a.key_id().cmp(b.key_id()));
    for (filed_under, cosigner) in [(0usize, 1usize), (1, 0), (0, 3), (3, 0)] {
        for dissent in [true, false] {
            for sig_order_cosigner_first in [false, true] {
                let d = tmpdir();
                let (a, b) = (&pool[filed_under], &pool[cosigner]);
                let agreed = link("a", &[("m", 1)], &[("p", 2)]);
                let signers: Vec<&in_toto::crypto::PrivateKey> = if sig_order_cosigner_first { vec![b, a] } else { vec![a, b] };
                write_link(d.path(), "a", a.key_id(), &signed_link(&agreed, &signers));
                let own = if dissent { link("a", &[("m", 1)], &[("p", 9)]) } else { agreed.clone() };
                write_link(d.path(), "a", b.key_id(), &signed_link(&own, &[b]));
                let l = layout(vec![step("a", 2, &[a, b], allow_all(), allow_all())], vec![], &[a, b], 30);
                let lay = signed_layout(&l, &[&owner]);
                let res = no_panic(|| in_toto_verify(&lay, owner_keys(&[&owner]), d.path().to_str().unwrap(), None));
                let expect = !dissent;
                r.case("co-signed-link-and-the-co-signer's-own-link", json!({"co_signed_file_sorts": if filed_under < cosigner { "first" } else { "last" }, "own_link_dissents": dissent, "cosigner_signature_first": sig_order_cosigner_first, "threshold": 2}),
                       if expect { "Ok" } else { "Err" }, match &res { Ok(v) => verdict(v), Err(p) => format!("panic: {}", p) }, matches!(&res, Ok(v) if v.is_ok() == expect));
            }
        }
    }
}

pub fn agreement_matrix(r: &mut Report, repetitions: usize, tag: &str) {
    let owner = key(1);
    let mut pool: Vec<_> = (0..6).map(|_| fresh_key()).collect();
    pool.sort_by(|a, b| a.key_id().cmp(b.key_id()));
    let kinds: Vec<(&str, Vec<(&str, u8)>, Vec<(&str, u8)>)> = vec![
        ("product-digest", vec![("m", 1)], vec![("p", 3), ("q", 5)]),
        ("material-digest", vec![("m", 9)], vec![("p", 2), ("q", 5)]),
        ("product-omitted", vec![("m", 1)], vec![("p", 2)]),
        ("product-added", vec![("m", 1)], vec![("p", 2), ("q", 5), ("x", 7)]),
        ("material-omitted", vec![], vec![("p", 2), ("q", 5)]),
        // the same digest under a path that is spelled differently is a different artifact entry (paths are compared as recorded)
        ("product-path-dot-slash", vec![("m", 1)], vec![("./p", 2), ("q", 5)]),
        ("product-path-via-dotdot", vec![("m", 1)], vec![("p", 2), ("x/../q", 5)]),
        ("product-path-double-slash", vec![("m", 1)], vec![("p", 2), (".//q", 5)]),
        ("material-path-dot-slash", vec![("./m", 1)], vec![("p", 2), ("q", 5)]),
        ("product-path-other-case", vec![("m", 1)], vec![("P", 2), ("q", 5)]),
        ("product-path-trailing-blank", vec![("m", 1)], vec![("p ", 2), ("q", 5)]),
    ];
    for n in 2..=5usize {
        for pos in 0..n {
            for (kind, dm, dp) in &kinds {
                for threshold in [2u32, n as u32] {
                    if threshold as usize > n { continue; }
                    let d = tmpdir();
                    let ks: Vec<&in_toto::crypto::PrivateKey> = pool.iter().take(n).collect();
                    for (i, k) in ks.iter().enumerate() {
                        let l = if i == pos { link("a", dm, dp) } else { link("a", &[("m", 1)], &[("p", 2), ("q", 5)]) };
                        write_link(d.path(), "a", k.key_id(), &signed_link(&l, &[k]));
                    }
                    let _ = &kinds;
                    let l = layout(vec![step("a", threshold, &ks, allow_all(), allow_all())], vec![], &ks, 30);
                    let lay = signed_layout(&l, &[&owner]);
                    let mut seen = std::collections::BTreeSet::new();
                    for _ in 0..repetitions {
                        let res = no_panic(|| in_toto_verify(&lay, owner_keys(&[&owner]), d.path().to_str().unwrap(), None));
                        seen.insert(match &res { Ok(v) => if v.is_ok() { "Ok".to_string() } else { "Err".to_string() }, Err(p) => format!("panic: {}", p) });
                    }
                    let ok = seen.len() == 1 && seen.contains("Err");
                    if !ok || (pos == 0 && threshold == 2) {
                        // passing cells are summarised (one reported per row) to keep the report small; every failing cell is reported
                        r.case(&format!("{}-matrix", tag), json!({"links": n, "dissenter_rank": pos, "dissent": kind, "threshold": threshold, "repetitions": repetitions}),
                               "Err on every run", format!("{:?}", seen), ok);
                    }
                }
            }
        }
    }
    // what a link says about its command (return value, output) has no say in whether it takes part: a dissenting link whose
    // command failed is still a dissenting link, and agreeing links of a failed command are still links
    if tag == "agreement" {
        let mut bad: Vec<String> = vec![]; let mut cells = 0;
        let with_bp = |dm: &[(&str, u8)], dp: &[(&str, u8)], rv: Option<i32>, out: &str| {
            let mut bp = in_toto::models::byproducts::ByProducts::new();
            if let Some(v) = rv { bp = bp.set_return_value(v); }
            if !out.is_empty() { bp = bp.set_stderr(out.to_string()).set_stdout(out.to_string()); }
            in_toto::models::LinkMetadataBuilder::new().name("a".into()).materials(artifacts(dm)).products(artifacts(dp)).byproducts(bp).build().unwrap()
        };
        for n in 2..=4usize { for pos in 0..n { for threshold in [2u32, n as u32] { for (rv, out) in [(Some(1), ""), (Some(-1), "boom"), (Some(255), ""), (None, "boom"), (Some(0), "boom")] { for dissent in [true, false] {
            cells += 1;
            let d = tmpdir();
            let ks: Vec<&in_toto::crypto::PrivateKey> = pool.iter().take(n).collect();
            for (i, k) in ks.iter().enumerate() {
                let l = if i == pos { if dissent { with_bp(&[("m", 1)], &[("p", 3), ("q", 5)], rv, out) } else { with_bp(&[("m", 1)], &[("p", 2), ("q", 5)], rv, out) } } else { link("a", &[("m", 1)], &[("p", 2), ("q", 5)]) };
                write_link(d.path(), "a", k.key_id(), &signed_link(&l, &[k]));
            }
            let lay = signed_layout(&layout(vec![step("a", threshold, &ks, allow_all(), allow_all())], vec![], &ks, 30), &[&owner]);
            let res = no_panic(|| in_toto_verify(&lay, owner_keys(&[&owner]), d.path().to_str().unwrap(), None).is_ok());
            if res != Ok(!dissent) && bad.len() < 6 { bad.push(format!("links {} rank {} threshold {} return value {:?} output {:?} dissent {}: {:?}", n, pos, threshold, rv, out, dissent, res)); }
        } } } } }
        // artifacts recorded under several digest algorithms: links agree only when the whole digest map of every path agrees
        {
            use in_toto::crypto::{HashAlgorithm, HashValue};
            let td = |d256: Option<u8>, d512: Option<u8>| -> in_toto::models::TargetDescription {
                let mut t = in_toto::models::TargetDescription::new();
                if let Some(b) = d256 { t.insert(HashAlgorithm::Sha256, HashValue::new(vec![b; 32])); }
                if let Some(b) = d512 { t.insert(HashAlgorithm::Sha512, HashValue::new(vec![b; 64])); }
                t };
            let mk = |m: in_toto::models::TargetDescription, p: in_toto::models::TargetDescription| in_toto::models::LinkMetadataBuilder::new().name("a".into())
                .materials([(in_toto::models::VirtualTargetPath::new("m".into()).unwrap(), m)].into_iter().collect())
                .products([(in_toto::models::VirtualTargetPath::new("p".into()).unwrap(), p)].into_iter().collect()).build().unwrap();
            let base = (td(Some(1), Some(1)), td(Some(2), Some(2)));
            let dissents: Vec<(&str, in_toto::models::TargetDescription, in_toto::models::TargetDescription, bool)> = vec![
                ("none", base.0.clone(), base.1.clone(), false),
                ("product-sha256-differs", base.0.clone(), td(Some(9), Some(2)), true),
                ("product-sha512-differs", base.0.clone(), td(Some(2), Some(9)), true),
                ("material-sha256-differs", td(Some(9), Some(1)), base.1.clone(), true),
                ("product-sha256-missing", base.0.clone(), td(None, Some(2)), true),
                ("product-sha512-missing", base.0.clone(), td(Some(2), None), true),
                ("material-sha512-missing", td(Some(1), None), base.1.clone(), true),
                ("product-no-digest-at-all", base.0.clone(), td(None, None), true),
            ];
            for (kind, dm, dp, dissent) in &dissents { for n in 2..=3usize { for pos in 0..n {
                cells += 1;
                let d = tmpdir();
                let ks: Vec<&in_toto::crypto::PrivateKey> = pool.iter().take(n).collect();
                for (i, k) in ks.iter().enumerate() {
                    let l = if i == pos { mk(dm.clone(), dp.clone()) } else { mk(base.0.clone(), base.1.clone()) };
                    write_link(d.path(), "a", k.key_id(), &signed_link(&l, &[k]));
                }
                let lay = signed_layout(&layout(vec![step("a", n as u32, &ks, allow_all(), allow_all())], vec![], &ks, 30), &[&owner]);
                let res = no_panic(|| in_toto_verify(&lay, owner_keys(&[&owner]), d.path().to_str().unwrap(), None).is_ok());
                if res != Ok(!*dissent) && bad.len() < 6 { bad.push(format!("two-algorithm artifacts, links {} rank {} dissent {}: {:?}", n, pos, kind, res)); }
            } } }
        }
        // entries without any digest are entries: a link that has one more (or one fewer) such path than the others dissents
        {
            let empty = in_toto::models::TargetDescription::new();
            let full = |b: u8| -> in_toto::models::TargetDescription { let mut t = in_toto::models::TargetDescription::new(); t.insert(in_toto::crypto::HashAlgorithm::Sha256, in_toto::crypto::HashValue::new(vec![b; 32])); t };
            let vp = |s: &str| in_toto::models::VirtualTargetPath::new(s.into()).unwrap();
            type Arts = std::collections::BTreeMap<in_toto::models::VirtualTargetPath, in_toto::models::TargetDescription>;
            let mk = |m: Arts, p: Arts| in_toto::models::LinkMetadataBuilder::new().name("a".into()).materials(m).products(p).build().unwrap();
            let base_m: Arts = [(vp("m"), full(1))].into_iter().collect();
            let base_p: Arts = [(vp("p"), full(2))].into_iter().collect();
            let with = |a: &Arts, path: &str, td: &in_toto::models::TargetDescription| -> Arts { let mut x = a.clone(); x.insert(vp(path), td.clone()); x };
            let kinds: Vec<(&str, Arts, Arts, Arts, Arts, bool)> = vec![
                // (kind, everybody's materials, everybody's products, the one link's materials, the one link's products, dissent?)
                ("extra digestless product", base_m.clone(), base_p.clone(), base_m.clone(), with(&base_p, "out/extra", &empty), true),
                ("extra digestless material", base_m.clone(), base_p.clone(), with(&base_m, "in/extra", &empty), base_p.clone(), true),
                ("digestless product missing", base_m.clone(), with(&base_p, "out/extra", &empty), base_m.clone(), base_p.clone(), true),
                ("digestless product under another name", base_m.clone(), with(&base_p, "out/extra", &empty), base_m.clone(), with(&base_p, "out/other", &empty), true),
                ("digestless product everywhere", base_m.clone(), with(&base_p, "out/extra", &empty), base_m.clone(), with(&base_p, "out/extra", &empty), false),
                ("only digestless entries, one differs", [(vp("m"), empty.clone())].into_iter().collect(), [(vp("p"), empty.clone())].into_iter().collect(), [(vp("m"), empty.clone())].into_iter().collect(), [(vp("q"), empty.clone())].into_iter().collect(), true),
            ];
            for (kind, em, ep, om, op, dissent) in &kinds { for n in 2..=3usize { for pos in 0..n {
                cells += 1;
                let d = tmpdir();
                let ks: Vec<&in_toto::crypto::PrivateKey> = pool.iter().take(n).collect();
                for (i, k) in ks.iter().enumerate() {
                    let l = if i == pos { mk(om.clone(), op.clone()) } else { mk(em.clone(), ep.clone()) };
                    write_link(d.path(), "a", k.key_id(), &signed_link(&l, &[k]));
                }
                let lay = signed_layout(&layout(vec![step("a", n as u32, &ks, allow_all(), allow_all())], vec![], &ks, 30), &[&owner]);
                let res = no_panic(|| in_toto_verify(&lay, owner_keys(&[&owner]), d.path().to_str().unwrap(), None).is_ok());
                if res != Ok(!*dissent) && bad.len() < 6 { bad.push(format!("{}: links {} rank {}: {:?}", kind, n, pos, res)); }
            } } }
        }
        // the multi-party step anywhere among single-party steps (before, after, between them): its dissent is found wherever it stands
        {
            let kp = &pool[4];
            for (order, what) in [(vec!["pre", "a"], "after a single-party step"), (vec!["a", "pre"], "before one"), (vec!["pre", "a", "post"], "between two"), (vec!["pre", "post", "a"], "after two"), (vec!["zero", "a"], "after a threshold-0 step")] {
                for dissent in [true, false] {
                    cells += 1;
                    let d = tmpdir();
                    let ks: Vec<&in_toto::crypto::PrivateKey> = pool.iter().take(2).collect();
                    for (i, k) in ks.iter().enumerate() { let l = if dissent && i == 1 { link("a", &[("m", 1)], &[("p", 3)]) } else { link("a", &[("m", 1)], &[("p", 2)]) }; write_link(d.path(), "a", k.key_id(), &signed_link(&l, &[k])); }
                    for single in ["pre", "post", "zero"] { write_link(d.path(), single, kp.key_id(), &signed_link(&link(single, &[], &[("s", 1)]), &[kp])); }
                    let steps: Vec<in_toto::models::step::Step> = order.iter().map(|n| if *n == "a" { step("a", 2, &ks, allow_all(), allow_all()) } else { step(n, if *n == "zero" { 0 } else { 1 }, &[kp], allow_all(), allow_all()) }).collect();
                    let mut all: Vec<&in_toto::crypto::PrivateKey> = ks.clone(); all.push(kp);
                    let lay = signed_layout(&layout(steps, vec![], &all, 30), &[&owner]);
                    let res = no_panic(|| in_toto_verify(&lay, owner_keys(&[&owner]), d.path().to_str().unwrap(), None).is_ok());
                    if res != Ok(!dissent) && bad.len() < 6 { bad.push(format!("multi-party step {} (order {:?}), dissent {}: {:?}", what, order, dissent, res)); }
                }
            }
        }
        r.case("agreement-whatever-the-command-reported", json!({"cells": cells}), "Err exactly when the link dissents", format!("{:?}", bad), bad.is_empty());
    }
}

/// C04 / C09: ECDSA signatures come in several DER lengths (r and s lose leading zero bytes): every length ring produces is accepted,
/// on the block as signed and after both JSON layouts.  Signs the same block until every length from 72 down to a rare short one
/// has been seen (bounded search).
pub fn ecdsa_signature_lengths(r: &mut Report) {
    let l = link("x", &[], &[("a", 1)]);
    let ec = std::fs::read("/repo/tests/ecdsa/ec.pk8.der").ok().and_then(|d| PrivateKey::from_pkcs8(&d, in_toto::crypto::SignatureScheme::EcdsaP256Sha256).ok());
    if let Some(ec) = ec {
        let msg_block = signed_link(&l, &[&ec]);
        let mut seen: std::collections::BTreeMap<usize, bool> = std::collections::BTreeMap::new();
        let budget = crate::util::scale(250_000, 1_500_000);
        let mut tries = 0usize;
        while tries < budget {
            tries += 1;
            let again = signed_link(&l, &[&ec]);
            let sig_hex = serde_json::to_value(&again.signatures[0]).unwrap()["sig"].as_str().unwrap().to_string();
            let len = sig_hex.len() / 2;
            if seen.contains_key(&len) { continue; }
            let mut m = msg_block.clone();
            m.signatures = again.signatures.clone();
            let mut ok = matches!(no_panic(|| m.verify(1, [ec.public()])), Ok(Ok(_)));
            for text in [serde_json::to_string(&m).unwrap(), serde_json::to_string_pretty(&m).unwrap()] {
                ok = ok && matches!(serde_json::from_str::<Metablock>(&text), Ok(back) if matches!(no_panic(|| back.verify(1, [ec.public()])), Ok(Ok(_))));
            }
            seen.insert(len, ok);
            if len <= 68 { break; }
        }
        let bad: Vec<&usize> = seen.iter().filter(|(_, ok)| !**ok).map(|(l, _)| l).collect();
        r.case("ecdsa-signature-lengths", json!({"signatures_made": tries, "lengths_seen": seen.keys().collect::<Vec<_>>()}), "a valid signature of every length is accepted (as signed and after both JSON layouts)", format!("rejected lengths: {:?}", bad), bad.is_empty() && seen.len() >= 3);
    }
}

/// C04 / C09: the same key material declared with a different scheme is a different key
pub fn declared_scheme_decides(r: &mut Report) {
    let l = link("x", &[], &[("a", 1)]);
    // key material x declared scheme: a key is checked under its DECLARED scheme; a signature made under the scheme that fits the
    // material, re-attributed to a key that declares another scheme, is not a valid signature of that key
    {
        use in_toto::crypto::SignatureScheme as S;
        let mats: Vec<(&str, &str, &str, S)> = vec![("ed25519", "ed25519/ed25519-1.spki.der", "ed25519/ed25519-1.pk8.der", S::Ed25519),
            ("rsa", "rsa/rsa-2048.spki.der", "rsa/rsa-2048.pk8.der", S::RsaSsaPssSha256), ("rsa/sha512", "rsa/rsa-2048.spki.der", "rsa/rsa-2048.pk8.der", S::RsaSsaPssSha512),
            ("ecdsa", "ecdsa/ec.spki.der", "ecdsa/ec.pk8.der", S::EcdsaP256Sha256)];
        for (mname, spki, pk8, real) in &mats {
            let signer = match std::fs::read(format!("/repo/tests/{}", pk8)).ok().and_then(|d| PrivateKey::from_pkcs8(&d, real.clone()).ok()) { Some(k) => k, None => continue };
            let genuine = signed_link(&l, &[&signer]);
            let gsig = serde_json::to_value(&genuine.signatures[0]).unwrap();
            for declared in [S::Ed25519, S::RsaSsaPssSha256, S::RsaSsaPssSha512, S::EcdsaP256Sha256] {
                let pk = match std::fs::read(format!("/repo/tests/{}", spki)).ok().and_then(|d| PublicKey::from_spki(&d, declared.clone()).ok()) { Some(k) => k, None => continue };
                let mut m = genuine.clone();
                m.signatures = vec![serde_json::from_value(json!({"keyid": serde_json::to_value(pk.key_id()).unwrap(), "sig": gsig["sig"]})).unwrap()];
                let expect = declared == *real;
                let res = no_panic(|| m.verify(1, [&pk]));
                r.case("declared-scheme-decides", json!({"material": mname, "signed_under": format!("{:?}", real), "key_declares": format!("{:?}", declared)}), if expect { "Ok" } else { "Err" },
                       format!("{:?}", res.as_ref().map(|v| v.as_ref().map(|_| "Ok").map_err(|e| e.to_string()))), matches!(&res, Ok(v) if v.is_ok() == expect));
            }
        }
    }
}

