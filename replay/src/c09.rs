//! C09 / C05 / C11 witnesses: sign -> wire -> verify round trip on the real code; negative cases.
use crate::fixture::*;
use crate::util::no_panic;
use crate::Report;
use in_toto::crypto::{PrivateKey, PublicKey, SignatureScheme};
use in_toto::models::{LinkMetadataBuilder, Metablock, MetablockBuilder, MetadataWrapper, byproducts::ByProducts};
use serde_json::json;

fn keys() -> Vec<(String, PrivateKey)> {
    let mut v = vec![];
    for n in 1..=3 { v.push((format!("ed25519-{}", n), key(n))); }
    let ec = std::fs::read("/repo/tests/ecdsa/ec.pk8.der").unwrap();
    v.push(("ecdsa-p256".into(), PrivateKey::from_pkcs8(&ec, SignatureScheme::EcdsaP256Sha256).unwrap()));
    for (f, s, n) in [("rsa-2048.pk8.der", SignatureScheme::RsaSsaPssSha256, "rsa2048-pss256"), ("rsa-2048.pk8.der", SignatureScheme::RsaSsaPssSha512, "rsa2048-pss512"),
                      ("rsa-4096.pk8.der", SignatureScheme::RsaSsaPssSha256, "rsa4096-pss256")] {
        if let Ok(der) = std::fs::read(format!("/repo/tests/rsa/{}", f)) {
            if let Ok(k) = PrivateKey::from_pkcs8(&der, s) { v.push((n.into(), k)); }
        }
    }
    v
}

fn texts() -> Vec<&'static str> {
    vec!["plain", "", "line\nbreak", "back\\slash", "quote\"d", "tab\there", "nul\u{0}ctl\u{1f}", "\u{e9}\u{20ac}\u{1F600}", "mix \\n and \n", "\\\\n", "trailing\\"]
}

fn meta(text: &str) -> MetadataWrapper {
    let bp = ByProducts::new().set_stdout(text.to_string()).set_stderr(format!("e:{}", text)).set_return_value(0);
    MetadataWrapper::Link(LinkMetadataBuilder::new().name(format!("n-{}", text)).byproducts(bp).build().unwrap())
}

pub fn run_c09(r: &mut Report) {
    let ks = keys();
    for (kn, k) in &ks {
        for t in texts() {
            let md = meta(t);
            for path in ["new", "builder"] {
                let mb = if path == "new" { Metablock::new(md.clone(), &[k]).unwrap() }
                         else { MetablockBuilder::from_metadata(md.clone().into_trait()).sign(&[k]).unwrap().build() };
                for pretty in [false, true] {
                    let wire = if pretty { serde_json::to_string_pretty(&mb).unwrap() } else { serde_json::to_string(&mb).unwrap() };
                    let back: Result<Metablock, _> = serde_json::from_str(&wire);
                    let ok = match &back { Ok(b) => matches!(no_panic(|| b.verify(1, [k.public()])), Ok(Ok(_))), Err(_) => false };
                    r.case("sign-wire-verify", json!({"key": kn, "text": t, "path": path, "pretty": pretty}), "verifies with threshold 1",
                           format!("{:?}", back.as_ref().map(|b| b.verify(1, [k.public()]).map(|_| "ok").map_err(|e| e.to_string())).map_err(|e| e.to_string())), ok);
                }
            }
        }
    }
    // k signers, threshold k
    let md = meta("multi");
    let signers: Vec<&PrivateKey> = ks.iter().map(|x| &x.1).take(4).collect();
    let mb = Metablock::new(md.clone(), &signers).unwrap();
    let pubs: Vec<&PublicKey> = signers.iter().map(|k| k.public()).collect();
    let res = no_panic(|| mb.verify(signers.len() as u32, pubs.clone()));
    r.case("k-signers-threshold-k", json!({"k": signers.len()}), "Ok", format!("{:?}", res.as_ref().map(|v| v.is_ok())), matches!(res, Ok(Ok(_))));
    // negatives: other key, flipped bit, other scheme
    let (_, k1) = &ks[0];
    let (_, k2) = &ks[1];
    let mb = Metablock::new(md.clone(), &[k1]).unwrap();
    let res = mb.verify(1, [k2.public()]);
    r.case("other-key-rejected", json!({}), "Err", format!("{:?}", res.as_ref().map(|_| "ok")), res.is_err());
    let mut v = serde_json::to_value(&mb).unwrap();
    let sig = v["signatures"][0]["sig"].as_str().unwrap().to_string();
    let flipped = format!("{}{}", if &sig[0..1] == "0" { "1" } else { "0" }, &sig[1..]);
    v["signatures"][0]["sig"] = json!(flipped);
    let mb2: Metablock = serde_json::from_str(&v.to_string()).unwrap();
    let res = mb2.verify(1, [k1.public()]);
    r.case("flipped-signature-bit-rejected", json!({}), "Err", format!("{:?}", res.as_ref().map(|_| "ok")), res.is_err());
}

pub fn run_c11(r: &mut Report) {
    // the signed bytes must equal the OLPC canonical JSON (only backslash and quote escaped)
    fn olpc_string(s: &str) -> String { format!("\"{}\"", s.replace('\\', "\\\\").replace('"', "\\\"")) }
    let k = key(1);
    for t in texts() {
        // reference bytes for the link built by meta(t): build them from the canonical JSON by re-encoding every string token
        let md = meta(t);
        let mb = Metablock::new(md.clone(), &[&k]).unwrap();
        let v = serde_json::to_value(&md).unwrap();
        fn olpc(v: &serde_json::Value, out: &mut String) {
            match v {
                serde_json::Value::String(s) => out.push_str(&format!("\"{}\"", s.replace('\\', "\\\\").replace('"', "\\\""))),
                serde_json::Value::Array(a) => { out.push('['); for (i, x) in a.iter().enumerate() { if i > 0 { out.push(',') } olpc(x, out) } out.push(']') }
                serde_json::Value::Object(o) => { out.push('{'); let mut ks: Vec<&String> = o.keys().collect(); ks.sort();
                    for (i, key) in ks.iter().enumerate() { if i > 0 { out.push(',') } out.push_str(&format!("\"{}\"", key.replace('\\', "\\\\").replace('"', "\\\""))); out.push(':'); olpc(&o[*key], out) } out.push('}') }
                other => out.push_str(&other.to_string()),
            }
        }
        let mut reference = String::new();
        olpc(&v, &mut reference);
        // a signature over the reference bytes must be what the library produced / accepts
        let sig_ref = k.sign(reference.as_bytes()).unwrap();
        let lib_sig = serde_json::to_value(&mb.signatures[0]).unwrap();
        let ref_sig = serde_json::to_value(&sig_ref).unwrap();
        let _ = olpc_string;
        r.case(&format!("olpc-{:?}", t), json!({"text": t, "reference_bytes": reference}), "ed25519 signature over the OLPC reference bytes equals the library's signature",
               format!("lib={} ref={}", lib_sig["sig"], ref_sig["sig"]), lib_sig["sig"] == ref_sig["sig"]);
    }
}
