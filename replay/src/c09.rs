//! C09 / C05 / C11 witnesses: sign -> wire -> verify round trip on the real code; negative cases.
use crate::fixture::*;
use crate::util::no_panic;
use crate::Report;
use in_toto::crypto::{PrivateKey, PublicKey, SignatureScheme};
use in_toto::models::{LinkMetadataBuilder, Metablock, MetablockBuilder, MetadataWrapper, byproducts::ByProducts};
use serde_json::json;

fn keys() -> Vec<(String, PrivateKey)> {
    let mut v = vec![];
    for n in 1..=3 { v.push((format!("ed25519-{}", n), key(n))); }
    let ec = std::fs::read("/repo/tests/ecdsa/ec.pk8.der").unwrap();
    v.push(("ecdsa-p256".into(), PrivateKey::from_pkcs8(&ec, SignatureScheme::EcdsaP256Sha256).unwrap()));
    for (f, s, n) in [("rsa-2048.pk8.der", SignatureScheme::RsaSsaPssSha256, "rsa2048-pss256"), ("rsa-2048.pk8.der", SignatureScheme::RsaSsaPssSha512, "rsa2048-pss512"),
                      ("rsa-4096.pk8.der", SignatureScheme::RsaSsaPssSha256, "rsa4096-pss256")] {
        if let Ok(der) = std::fs::read(format!("/repo/tests/rsa/{}", f)) {
            if let Ok(k) = PrivateKey::from_pkcs8(&der, s) { v.push((n.into(), k)); }
        }
    }
    for (f, s, n) in [("rsa-2048-e2147483651.pk8.der", SignatureScheme::RsaSsaPssSha256, "rsa2048-e80000003"), ("rsa-2048-e4294967297.pk8.der", SignatureScheme::RsaSsaPssSha512, "rsa2048-e100000001"),
                      ("rsa-3072.pk8.der", SignatureScheme::RsaSsaPssSha256, "rsa3072"), ("ec-2.pk8.der", SignatureScheme::EcdsaP256Sha256, "ecdsa-p256-2")] {
        if let Ok(der) = std::fs::read(format!("/verif/replay/fixtures/{}", f)) {
            if let Ok(k) = PrivateKey::from_pkcs8(&der, s) { v.push((n.into(), k)); }
        }
    }
    v
}

fn texts() -> Vec<&'static str> {
    vec!["plain", "", "line\nbreak", "back\\slash", "quote\"d", "tab\there", "nul\u{0}ctl\u{1f}", "\u{e9}\u{20ac}\u{1F600}", "mix \\n and \n", "\\\\n", "trailing\\",
         "crlf\r\nend", "cr\rend", "lfcr\n\rend", " lead and trail ", "MiXeD Case", ".dotfile", "a//b/./c/",
         // a line feed right after a backslash, and the other way round (escape sequences that touch)
         "bs-lf\\\nend", "lf-bs\n\\end", "bsbs-lf\\\\\nend", "quote-lf\"\nend",
         // a backslash followed by each letter that JSON uses in an escape (n is the subject of an open finding, see above)
         "C:\\temp\\report", "bs-r\\rx", "bs-b\\bx", "bs-f\\fx", "bs-u\\u0041x", "bs-solidus\\/x", "bs-quote\\\"x",
         // multi-byte characters BEFORE a character that is escaped (byte offsets and character positions differ from there on)
         "caf\u{e9} \"quoted\"", "unused variable \u{2018}x\u{2019}\nnext line", "C:\\Users\\Jos\u{e9}\\src", "\u{1F600}\"\u{1F600}\\\u{1F600}\n\u{1F600}", "\u{e9}\"", "\u{20ac}\u{20ac}\\x"]
}

fn meta(text: &str) -> MetadataWrapper {
    let bp = ByProducts::new().set_stdout(text.to_string()).set_stderr(format!("e:{}", text)).set_return_value(0);
    MetadataWrapper::Link(LinkMetadataBuilder::new().name(format!("n-{}", text)).byproducts(bp).build().unwrap())
}

/// the text in EVERY string-typed field of a link and of a layout (names, artifact paths built both through
/// `VirtualTargetPath::new` and through `From<&str>`, rule patterns and prefixes, command words, byproducts, environment, readme)
fn rich(text: &str, via_new: bool) -> Vec<(&'static str, MetadataWrapper)> {
    use in_toto::models::{rule::{Artifact, ArtifactRule}, step::Step, inspection::Inspection, LayoutMetadataBuilder, VirtualTargetPath};
    let vtp = |s: String| -> VirtualTargetPath { if via_new { VirtualTargetPath::new(s).unwrap() } else { VirtualTargetPath::from(s.as_str()) } };
    let mut mats = std::collections::BTreeMap::new();
    let mut td = in_toto::models::TargetDescription::new();
    td.insert(in_toto::crypto::HashAlgorithm::Sha256, in_toto::crypto::HashValue::new(vec![7; 32]));
    mats.insert(vtp(format!("m/{}", text)), td.clone());
    let mut prods = std::collections::BTreeMap::new();
    prods.insert(vtp(format!("{}/p", text)), td);
    let mut env = std::collections::BTreeMap::new();
    env.insert(format!("K{}", text), format!("V{}", text));
    let link = LinkMetadataBuilder::new().name(format!("n-{}", text)).materials(mats).products(prods).env(Some(env))
        .command(cmd(&["sh", text])).byproducts(ByProducts::new().set_stdout(text.to_string()).set_stderr(format!("e:{}", text)).set_return_value(0)
            .set_other_field(format!("o{}", text), text.to_string())).build().unwrap();
    let rules = vec![ArtifactRule::Create(vtp(format!("c{}", text))), ArtifactRule::Disallow(vtp(text.to_string())),
        ArtifactRule::Match { pattern: vtp(format!("{}*", text)), in_src: Some(format!("s{}", text)), with: Artifact::Products, in_dst: Some(format!("d{}", text)), from: format!("n-{}", text) }];
    let k = key(2);
    let step = Step::new(&format!("n-{}", text)).add_key(k.key_id().clone()).threshold(1)
        .add_expected_material(rules[0].clone()).add_expected_product(rules[2].clone()).expected_command(cmd(&["sh", text]));
    let insp = Inspection::new(&format!("i-{}", text)).run(cmd(&["sh", "-c", text])).add_expected_product(rules[1].clone());
    let layout = LayoutMetadataBuilder::new().expires(chrono::Utc::now() + chrono::Duration::days(3)).readme(text.to_string())
        .add_step(step).add_inspect(insp).add_key(k.public().clone()).build().unwrap();
    vec![("link", MetadataWrapper::Link(link)), ("layout", MetadataWrapper::Layout(layout))]
}

/// optional parts in each of their states: environment absent / empty / filled, byproducts with and without each member,
/// empty and filled collections, all seven rule kinds with all four IN-combinations of MATCH, thresholds 0/1/3, no keys
fn shapes() -> Vec<(String, MetadataWrapper)> {
    use in_toto::models::{rule::{Artifact, ArtifactRule}, step::Step, inspection::Inspection, LayoutMetadataBuilder, VirtualTargetPath};
    let mut out = vec![];
    let p = |s: &str| VirtualTargetPath::new(s.to_string()).unwrap();
    let envs: Vec<(&str, Option<std::collections::BTreeMap<String, String>>)> = vec![("env-absent", None), ("env-empty", Some(Default::default())),
        ("env-filled", Some([("A".to_string(), "1".to_string()), ("".to_string(), "".to_string())].into_iter().collect()))];
    let bps: Vec<(&str, ByProducts)> = vec![("bp-empty", ByProducts::new()), ("bp-rv-only", ByProducts::new().set_return_value(-1)),
        ("bp-streams-only", ByProducts::new().set_stdout(String::new()).set_stderr("e".into())),
        ("bp-all+other", ByProducts::new().set_return_value(255).set_stdout("o".into()).set_stderr(String::new()).set_other_field("k".into(), "v".into()))];
    for (en, env) in &envs { for (bn, bp) in &bps { for (cn, c) in [("cmd-empty", cmd(&[])), ("cmd-words", cmd(&["a", "", "b c"]))] {
        for (an, arts) in [("no-artifacts", vec![]), ("artifacts", vec![("a", 1u8), ("d/b", 2)])] {
            let l = LinkMetadataBuilder::new().name("s".into()).env(env.clone()).byproducts(bp.clone()).command(c.clone())
                .materials(artifacts(&arts)).products(artifacts(&arts)).build().unwrap();
            out.push((format!("link/{}/{}/{}/{}", en, bn, cn, an), MetadataWrapper::Link(l)));
        }
    } } }
    let mut rules = vec![ArtifactRule::Create(p("c")), ArtifactRule::Delete(p("d")), ArtifactRule::Modify(p("m")), ArtifactRule::Allow(p("*")), ArtifactRule::Require(p("r")), ArtifactRule::Disallow(p("**"))];
    for src in [None, Some("src".to_string()), Some(String::new())] { for dst in [None, Some("dst/".to_string())] { for with in [Artifact::Materials, Artifact::Products] {
        rules.push(ArtifactRule::Match { pattern: p("x/*"), in_src: src.clone(), with: with.clone(), in_dst: dst.clone(), from: "s".into() });
    } } }
    let k = key(2);
    // the format carries whole seconds
    let whole = { use chrono::TimeZone; chrono::Utc.timestamp_opt(chrono::Utc::now().timestamp() + 86400, 0).unwrap() };
    for th in [0u32, 1, 3] { for with_rules in [false, true] { for with_keys in [false, true] {
        let mut st = Step::new("s").threshold(th).expected_command(cmd(if with_rules { &["x"] } else { &[] }));
        let mut ins = Inspection::new("i").run(cmd(&["true"]));
        if with_keys { st = st.add_key(k.key_id().clone()); }
        if with_rules { for rl in &rules { st = st.add_expected_material(rl.clone()).add_expected_product(rl.clone()); ins = ins.add_expected_product(rl.clone()); } }
        let mut b = LayoutMetadataBuilder::new().expires(whole);
        if with_rules { b = b.readme("r".into()).add_step(st.clone()).add_step(Step::new("t")).add_inspect(ins); } else { b = b.add_step(st); }
        if with_keys { b = b.add_key(k.public().clone()); }
        out.push((format!("layout/threshold-{}/rules-{}/keys-{}", th, with_rules, with_keys), MetadataWrapper::Layout(b.build().unwrap())));
    } } }
    out.push(("layout/empty".into(), MetadataWrapper::Layout(LayoutMetadataBuilder::new().expires(whole).build().unwrap())));
    // key tables holding keys of every type built through every public constructor (with and without a hash-algorithm list)
    {
        use in_toto::crypto::PublicKey;
        let ed_raw = key(3).public().as_bytes().to_vec();
        let ec = PrivateKey::from_pkcs8(&std::fs::read("/repo/tests/ecdsa/ec.pk8.der").unwrap(), SignatureScheme::EcdsaP256Sha256).unwrap();
        let ec_raw = ec.public().as_bytes().to_vec();
        let rsa = PublicKey::from_spki(&std::fs::read("/repo/tests/rsa/rsa-2048.spki.der").unwrap(), SignatureScheme::RsaSsaPssSha256).unwrap();
        let tables: Vec<(&str, Vec<PublicKey>)> = vec![
            ("ed25519-raw-no-list", vec![PublicKey::from_ed25519(ed_raw.clone()).unwrap()]),
            ("ecdsa-raw-no-list", vec![PublicKey::from_ecdsa(ec_raw.clone()).unwrap()]),
            ("ecdsa-raw-with-list", vec![PublicKey::from_ecdsa_with_keyid_hash_algorithms(ec_raw.clone(), Some(vec!["sha256".into(), "sha512".into()])).unwrap()]),
            ("ed25519-raw-with-list", vec![PublicKey::from_ed25519_with_keyid_hash_algorithms(ed_raw.clone(), Some(vec!["sha256".into()])).unwrap()]),
            ("all-types-together", vec![PublicKey::from_ed25519(ed_raw).unwrap(), PublicKey::from_ecdsa(ec_raw).unwrap(), ec.public().clone(), rsa, key(4).public().clone()]),
        ];
        for (id, ks) in tables {
            let mut b = LayoutMetadataBuilder::new().expires(whole).add_step(Step::new("s"));
            for k in ks { b = b.add_key(k); }
            out.push((format!("layout/key-table/{}", id), MetadataWrapper::Layout(b.build().unwrap())));
        }
    }
    out
}

pub fn run_c09(r: &mut Report) {
    // every shape of optional content: signed, written, read back: verifies AND is the same metadata
    {
        let k = key(1);
        let mut n = 0; let mut bad = 0;
        for (id, md) in shapes() {
            for pretty in [false, true] {
                let mb = Metablock::new(md.clone(), &[&k]).unwrap();
                let wire = if pretty { serde_json::to_string_pretty(&mb).unwrap() } else { serde_json::to_string(&mb).unwrap() };
                let back: Result<Metablock, _> = serde_json::from_str(&wire);
                let verified = match &back { Ok(b) => matches!(no_panic(|| b.verify(1, [k.public()])), Ok(Ok(_))), Err(_) => false };
                let same = matches!(&back, Ok(b) if b.metadata == md);
                n += 1;
                if !(verified && same) {
                    bad += 1;
                    r.case("shape-sign-wire-verify", json!({"shape": id, "pretty": pretty}), "verifies with threshold 1 and carries the same metadata",
                           format!("verified={} same_metadata={} parse={:?}", verified, same, back.as_ref().map(|_| "ok").map_err(|e| e.to_string())), false);
                }
            }
        }
        r.case("shape-matrix", json!({"documents": n}), "all verify and are unchanged", format!("{} failures", bad), bad == 0 && n > 100);
    }
    // every kind of representable expiry instant survives the wire: a leap second (23:59:60), the first and the last year, the epoch
    {
        use chrono::{NaiveDate, TimeZone, Utc};
        use in_toto::interchange::{DataInterchange, Json, JsonPretty};
        let k = key(1);
        let leap = Utc.from_utc_datetime(&NaiveDate::from_ymd_opt(2016, 12, 31).unwrap().and_hms_nano_opt(23, 59, 59, 1_000_000_000).unwrap());
        for (what, t) in [("leap second 2016-12-31T23:59:60Z", leap), ("year 1", Utc.with_ymd_and_hms(1, 1, 1, 0, 0, 0).unwrap()), ("year 9999", Utc.with_ymd_and_hms(9999, 12, 31, 23, 59, 59).unwrap()),
                          ("epoch", Utc.with_ymd_and_hms(1970, 1, 1, 0, 0, 0).unwrap()), ("one second before the epoch", Utc.with_ymd_and_hms(1969, 12, 31, 23, 59, 59).unwrap())] {
            let l = in_toto::models::LayoutMetadataBuilder::new().expires(t).build().unwrap();
            let md = MetadataWrapper::Layout(l);
            for path in ["new", "builder"] {
                let mb = if path == "new" { Metablock::new(md.clone(), &[&k]).unwrap() } else { MetablockBuilder::from_metadata(md.clone().into_trait()).sign(&[&k]).unwrap().build() };
                for layout in ["serde-compact", "serde-pretty", "Json::to_writer", "JsonPretty::to_writer"] {
                    let wire: Result<Vec<u8>, String> = match layout {
                        "serde-compact" => serde_json::to_vec(&mb).map_err(|e| e.to_string()), "serde-pretty" => serde_json::to_vec_pretty(&mb).map_err(|e| e.to_string()),
                        "Json::to_writer" => { let mut w = vec![]; Json::to_writer(&mut w, &mb).map_err(|e| e.to_string()).map(|_| w) }
                        _ => { let mut w = vec![]; JsonPretty::to_writer(&mut w, &mb).map_err(|e| e.to_string()).map(|_| w) } };
                    let back: Result<Metablock, String> = wire.and_then(|w| serde_json::from_slice::<Metablock>(&w).map_err(|e| e.to_string()));
                    let ok = matches!(&back, Ok(b) if matches!(no_panic(|| b.verify(1, [k.public()])), Ok(Ok(_))) && b.metadata == md);
                    if !ok || (path == "new" && layout == "serde-compact") {
                        r.case("expiry-kinds-on-the-wire", json!({"expires": what, "path": path, "layout": layout}), "verifies after the wire and carries the same instant",
                               format!("{:?}", back.as_ref().map(|b| (b.verify(1, [k.public()]).is_ok(), b.metadata == md)).map_err(|e| e.clone())), ok);
                    }
                }
            }
        }
    }
    // every single control character, DEL and the two escapes, on its own, through the crate's own writers and back
    {
        use in_toto::interchange::{DataInterchange, Json, JsonPretty};
        let k = key(1);
        let mut bad: Vec<String> = vec![];
        let mut n = 0;
        for c in (0u32..0x20).chain([0x22, 0x5c, 0x7f, 0x80, 0x2028]) {
            let t = format!("c{}d", char::from_u32(c).unwrap());
            let md = rich(&t, false).into_iter().next().unwrap().1;
            let mb = Metablock::new(md, &[&k]).unwrap();
            for pretty in [false, true] {
                n += 1;
                let mut w = vec![];
                let wrote = if pretty { no_panic(|| JsonPretty::to_writer(&mut w, &mb)).map(|x| x.is_ok()) } else { no_panic(|| Json::to_writer(&mut w, &mb)).map(|x| x.is_ok()) };
                let back = if pretty { JsonPretty::from_slice::<Metablock>(&w).map_err(|e| e.to_string()) } else { Json::from_slice::<Metablock>(&w).map_err(|e| e.to_string()) };
                let ok = wrote == Ok(true) && matches!(&back, Ok(b) if b == &mb && matches!(no_panic(|| b.verify(1, [k.public()])), Ok(Ok(_))));
                if !ok && bad.len() < 6 { bad.push(format!("U+{:04X} pretty={} wrote={:?} back={:?}", c, pretty, wrote, back.as_ref().map(|_| "parsed").map_err(|e| e.chars().take(80).collect::<String>()))); }
            }
        }
        r.case("own-writers-every-control-character", json!({"documents": n}), "written, read back equal, verified", format!("{:?}", bad), bad.is_empty());
    }
    // every string field kind x every text class x both ways to build a path x both constructors x both JSON layouts (one key type)
    {
        let k = key(1);
        for t in texts() {
            for via_new in [true, false] {
                for (kind, md) in rich(t, via_new) {
                    for path in ["new", "builder"] {
                        let mb = if path == "new" { Metablock::new(md.clone(), &[&k]).unwrap() }
                                 else { MetablockBuilder::from_metadata(md.clone().into_trait()).sign(&[&k]).unwrap().build() };
                        // the four ways a block reaches the wire: serde_json compact / pretty, and the crate's own writers
                        for layout in ["serde-compact", "serde-pretty", "Json::to_writer", "JsonPretty::to_writer"] {
                            use in_toto::interchange::{DataInterchange, Json, JsonPretty};
                            let wire: Result<Vec<u8>, String> = match layout {
                                "serde-compact" => serde_json::to_vec(&mb).map_err(|e| e.to_string()),
                                "serde-pretty" => serde_json::to_vec_pretty(&mb).map_err(|e| e.to_string()),
                                "Json::to_writer" => { let mut w = vec![]; no_panic(|| Json::to_writer(&mut w, &mb)).and_then(|x| x.map_err(|e| e.to_string())).map(|_| w) }
                                _ => { let mut w = vec![]; no_panic(|| JsonPretty::to_writer(&mut w, &mb)).and_then(|x| x.map_err(|e| e.to_string())).map(|_| w) }
                            };
                            let back: Result<Metablock, String> = wire.and_then(|w| match layout {
                                "Json::to_writer" => Json::from_slice::<Metablock>(&w).map_err(|e| e.to_string()),
                                "JsonPretty::to_writer" => JsonPretty::from_slice::<Metablock>(&w).map_err(|e| e.to_string()),
                                _ => serde_json::from_slice::<Metablock>(&w).map_err(|e| e.to_string()) });
                            let ok = match &back { Ok(b) => matches!(no_panic(|| b.verify(1, [k.public()])), Ok(Ok(_))), Err(_) => false };
                            if !ok || (path == "new" && layout == "serde-compact") {
                                r.case("sign-wire-verify-all-fields", json!({"metadata": kind, "text": t, "paths_via": if via_new { "VirtualTargetPath::new" } else { "From<&str>" }, "path": path, "layout": layout}),
                                       "verifies with threshold 1",
                                       format!("{:?}", back.as_ref().map(|b| b.verify(1, [k.public()]).map(|_| "ok").map_err(|e| e.to_string())).map_err(|e| e.to_string())), ok);
                            }
                        }
                    }
                }
            }
        }
    }
    let ks = keys();
    for (kn, k) in &ks {
        for t in texts() {
            let md = meta(t);
            for path in ["new", "builder"] {
                let mb = if path == "new" { Metablock::new(md.clone(), &[k]).unwrap() }
                         else { MetablockBuilder::from_metadata(md.clone().into_trait()).sign(&[k]).unwrap().build() };
                for pretty in [false, true] {
                    let wire = if pretty { serde_json::to_string_pretty(&mb).unwrap() } else { serde_json::to_string(&mb).unwrap() };
                    let back: Result<Metablock, _> = serde_json::from_str(&wire);
                    let ok = match &back { Ok(b) => matches!(no_panic(|| b.verify(1, [k.public()])), Ok(Ok(_))), Err(_) => false };
                    r.case("sign-wire-verify", json!({"key": kn, "text": t, "path": path, "pretty": pretty}), "verifies with threshold 1",
                           format!("{:?}", back.as_ref().map(|b| b.verify(1, [k.public()]).map(|_| "ok").map_err(|e| e.to_string())).map_err(|e| e.to_string())), ok);
                }
            }
        }
    }
    // k signers, threshold k
    let md = meta("multi");
    let signers: Vec<&PrivateKey> = ks.iter().map(|x| &x.1).take(4).collect();
    let mb = Metablock::new(md.clone(), &signers).unwrap();
    let pubs: Vec<&PublicKey> = signers.iter().map(|k| k.public()).collect();
    let res = no_panic(|| mb.verify(signers.len() as u32, pubs.clone()));
    r.case("k-signers-threshold-k", json!({"k": signers.len()}), "Ok", format!("{:?}", res.as_ref().map(|v| v.is_ok())), matches!(res, Ok(Ok(_))));
    // a signature over a very large document (2 MiB of captured output) does not verify over a document that differs elsewhere
    {
        let k = key(1);
        let big = "o".repeat(2 << 20);
        let mk = |name: &str| MetadataWrapper::Link(LinkMetadataBuilder::new().name(name.to_string())
            .byproducts(ByProducts::new().set_stdout(big.clone()).set_stderr(String::new()).set_return_value(0)).build().unwrap());
        let honest = Metablock::new(mk("honest"), &[&k]).unwrap();
        let mut forged = Metablock::new(mk("zz-forged"), &[]).unwrap();
        forged.signatures = honest.signatures.clone();
        let ok_honest = matches!(no_panic(|| honest.verify(1, [k.public()])), Ok(Ok(_)));
        let forged_rejected = matches!(no_panic(|| forged.verify(1, [k.public()])), Ok(Err(_)));
        r.case("large-document-signature-binds-all-fields", json!({"stdout_bytes": 2 << 20}), "honest verifies, transplanted signature is rejected",
               format!("honest_ok={} forged_rejected={}", ok_honest, forged_rejected), ok_honest && forged_rejected);
    }
    // a layout that LISTS keys of every supported kind (functionaries need not be the signers): Ed25519, ECDSA P-256, RSA-PSS with
    // SHA-256 and with SHA-512, 2048 / 3072 / 4096 / 8192 bit, and the raw-pair flavour - signed, written by every writer, read back:
    // verifies, and the key table comes back equal
    {
        use in_toto::crypto::{PublicKey, SignatureScheme as S};
        use in_toto::interchange::{DataInterchange, Json, JsonPretty};
        let mut listed: Vec<(String, PublicKey)> = vec![];
        for (name, file, schemes) in [("ed25519", "/repo/tests/ed25519/ed25519-1.spki.der", vec![S::Ed25519]), ("ecdsa", "/repo/tests/ecdsa/ec.spki.der", vec![S::EcdsaP256Sha256]),
            ("rsa2048", "/repo/tests/rsa/rsa-2048.spki.der", vec![S::RsaSsaPssSha256, S::RsaSsaPssSha512]), ("rsa4096", "/repo/tests/rsa/rsa-4096.spki.der", vec![S::RsaSsaPssSha256, S::RsaSsaPssSha512]),
            ("rsa3072", "/verif/replay/fixtures/rsa-3072.spki.der", vec![S::RsaSsaPssSha512]), ("rsa8192", "/verif/replay/fixtures/rsa-8192.spki.der", vec![S::RsaSsaPssSha256, S::RsaSsaPssSha512])] {
            if let Ok(der) = std::fs::read(file) { for sc in schemes { if let Ok(k) = PublicKey::from_spki(&der, sc.clone()) { listed.push((format!("{} {:?}", name, sc), k)); } } }
        }
        listed.push(("ed25519 raw pair".into(), PublicKey::from_ed25519(key(1).public().as_bytes().to_vec()).unwrap()));
        let owner = key(1);
        for (what, k) in &listed {
            let st = in_toto::models::step::Step::new("s").threshold(1).add_key(k.key_id().clone());
            let l = in_toto::models::LayoutMetadataBuilder::new().expires(chrono::Utc::now() + chrono::Duration::days(3)).add_step(st).add_key(k.clone()).build().unwrap();
            let md = MetadataWrapper::Layout(l.clone());
            for via_new in [true, false] {
                let mb = if via_new { Metablock::new(md.clone(), &[&owner]).unwrap() } else { MetablockBuilder::from_metadata(md.clone().into_trait()).sign(&[&owner]).unwrap().build() };
                let mut texts: Vec<(&str, Vec<u8>)> = vec![("serde-compact", serde_json::to_vec(&mb).unwrap()), ("serde-pretty", serde_json::to_vec_pretty(&mb).unwrap())];
                let mut w = vec![]; if Json::to_writer(&mut w, &mb).is_ok() { texts.push(("Json::to_writer", w)); }
                let mut w = vec![]; if JsonPretty::to_writer(&mut w, &mb).is_ok() { texts.push(("JsonPretty::to_writer", w)); }
                let mut bad: Vec<String> = vec![];
                for (wname, bytes) in &texts {
                    match serde_json::from_slice::<Metablock>(bytes) {
                        Ok(back) => {
                            let same_keys = matches!(&back.metadata, MetadataWrapper::Layout(bl) if bl.keys == l.keys);
                            let verifies = matches!(no_panic(|| back.verify(1, [owner.public()])), Ok(Ok(_)));
                            if !(same_keys && verifies) { bad.push(format!("{}: read back, key table equal: {}, verifies: {}", wname, same_keys, verifies)); }
                        }
                        Err(e) => bad.push(format!("{}: cannot be read back: {}", wname, e.to_string().chars().take(90).collect::<String>())),
                    }
                }
                r.case("layout-listing-a-key-of-every-kind", json!({"listed_key": what, "via_new": via_new, "writers": texts.len()}), "read back by every writer's output, key table equal, verifies", format!("{:?}", bad), bad.is_empty() && texts.len() == 4);
            }
        }
    }
    // signer sets whose members are related: the same key material under two identifiers (imported from PKCS#8 and from its raw
    // pair: the hash-algorithm list differs), the same RSA key under both PSS schemes, alone and next to unrelated keys - k signers,
    // threshold k, both constructors, both layouts
    {
        use in_toto::crypto::{PrivateKey, SignatureScheme};
        let pk8 = std::fs::read("/repo/tests/ed25519/ed25519-1.pk8.der").unwrap();
        let raw: Vec<u8> = pk8[16..48].iter().chain(pk8[pk8.len() - 32..].iter()).cloned().collect();
        let e_pk8 = PrivateKey::from_pkcs8(&pk8, SignatureScheme::Ed25519).unwrap();
        let e_raw = PrivateKey::from_ed25519(&raw).unwrap();
        let rsa_der = std::fs::read("/repo/tests/rsa/rsa-2048.pk8.der").unwrap();
        let r256 = PrivateKey::from_pkcs8(&rsa_der, SignatureScheme::RsaSsaPssSha256).unwrap();
        let r512 = PrivateKey::from_pkcs8(&rsa_der, SignatureScheme::RsaSsaPssSha512).unwrap();
        let other = key(3);
        let sets: Vec<(&str, Vec<&PrivateKey>)> = vec![("ed25519 material under two ids", vec![&e_pk8, &e_raw]), ("the same plus an unrelated key", vec![&e_raw, &other, &e_pk8]),
            ("one RSA key under both PSS schemes", vec![&r256, &r512]), ("all related pairs and an unrelated key", vec![&r512, &e_pk8, &other, &r256, &e_raw])];
        for (what, signers) in sets {
            let ids: std::collections::BTreeSet<String> = signers.iter().map(|k| serde_json::to_value(k.key_id()).unwrap().to_string()).collect();
            for via_new in [true, false] { for pretty in [false, true] {
                let mb = if via_new { Metablock::new(md.clone(), &signers).unwrap() } else { MetablockBuilder::from_metadata(md.clone().into_trait()).sign(&signers).unwrap().build() };
                let text = if pretty { serde_json::to_string_pretty(&mb).unwrap() } else { serde_json::to_string(&mb).unwrap() };
                let back: Metablock = serde_json::from_str(&text).unwrap();
                let k = signers.len() as u32;
                let res = no_panic(|| back.verify(k, signers.iter().map(|s| s.public())).is_ok());
                let res_more = no_panic(|| back.verify(k + 1, signers.iter().map(|s| s.public())).is_ok());
                r.case("related-signers-threshold-k", json!({"signers": what, "k": k, "distinct_ids": ids.len(), "via_new": via_new, "pretty": pretty}), "verifies with threshold k, not with k+1",
                       format!("k: {:?}, k+1: {:?}", res, res_more), res == Ok(true) && res_more == Ok(false) && ids.len() == signers.len());
            } }
        }
    }
    // negatives: other key, flipped bit, other scheme
    let (_, k1) = &ks[0];
    let (_, k2) = &ks[1];
    let mb = Metablock::new(md.clone(), &[k1]).unwrap();
    let res = mb.verify(1, [k2.public()]);
    r.case("other-key-rejected", json!({}), "Err", format!("{:?}", res.as_ref().map(|_| "ok")), res.is_err());
    let mut v = serde_json::to_value(&mb).unwrap();
    let sig = v["signatures"][0]["sig"].as_str().unwrap().to_string();
    let flipped = format!("{}{}", if &sig[0..1] == "0" { "1" } else { "0" }, &sig[1..]);
    v["signatures"][0]["sig"] = json!(flipped);
    let mb2: Metablock = serde_json::from_str(&v.to_string()).unwrap();
    let res = mb2.verify(1, [k1.public()]);
    r.case("flipped-signature-bit-rejected", json!({}), "Err", format!("{:?}", res.as_ref().map(|_| "ok")), res.is_err());
}

pub fn run_c11(r: &mut Report) {
    // the signed bytes must equal the OLPC canonical JSON (only backslash and quote escaped)
    fn olpc_string(s: &str) -> String { format!("\"{}\"", s.replace('\\', "\\\\").replace('"', "\\\"")) }
    let k = key(1);
    // every printable ASCII character, DEL, and representatives of the Latin-1, BMP, line-separator and astral ranges on their own
    let mut sweep: Vec<String> = (0x20u32..=0x7f).filter_map(char::from_u32).map(|c| format!("x{}y", c)).collect();
    for c in ['\u{80}', '\u{85}', '\u{9f}', '\u{a0}', '\u{ad}', '\u{ff}', '\u{301}', '\u{378}', '\u{200b}', '\u{200d}', '\u{2028}', '\u{2029}', '\u{d7ff}', '\u{e000}', '\u{fe0f}', '\u{feff}', '\u{fffd}', '\u{ffff}', '\u{10000}', '\u{e0001}', '\u{10ffff}'] { sweep.push(format!("x{}y", c)); }
    let all: Vec<String> = texts().into_iter().map(|t| t.to_string()).chain(sweep.into_iter()).collect();
    for t in all.iter().map(|t| t.as_str()) {
        // reference bytes for the link built by meta(t): build them from the canonical JSON by re-encoding every string token
        let md = rich(t, false).into_iter().next().unwrap().1;   // the text in every string VALUE and in every object KEY (paths, env names, byproduct fields)
        let mb = Metablock::new(md.clone(), &[&k]).unwrap();
        let v = serde_json::to_value(&md).unwrap();
        fn olpc(v: &serde_json::Value, out: &mut String) {
            match v {
                serde_json::Value::String(s) => out.push_str(&format!("\"{}\"", s.replace('\\', "\\\\").replace('"', "\\\""))),
                serde_json::Value::Array(a) => { out.push('['); for (i, x) in a.iter().enumerate() { if i > 0 { out.push(',') } olpc(x, out) } out.push(']') }
                serde_json::Value::Object(o) => { out.push('{'); let mut ks: Vec<&String> = o.keys().collect(); ks.sort();
                    for (i, key) in ks.iter().enumerate() { if i > 0 { out.push(',') } out.push_str(&format!("\"{}\"", key.replace('\\', "\\\\").replace('"', "\\\""))); out.push(':'); olpc(&o[*key], out) } out.push('}') }
                other => out.push_str(&other.to_string()),
            }
        }
        let mut reference = String::new();
        olpc(&v, &mut reference);
        // a signature over the reference bytes must be what the library produced / accepts
        let sig_ref = k.sign(reference.as_bytes()).unwrap();
        let lib_sig = serde_json::to_value(&mb.signatures[0]).unwrap();
        let ref_sig = serde_json::to_value(&sig_ref).unwrap();
        let _ = olpc_string;
        // the other direction: a document produced OUTSIDE the library (the text substituted into the JSON tree, signed over its
        // reference bytes) is read and verified by the library.  Texts of the class the open C11 findings describe (control
        // characters, backslash followed by `n`) are left to the signing-direction cases, which report them as known findings.
        if !t.chars().any(|c| (c as u32) < 0x20) && !t.contains("\\n") {
            for (kind, skel_md) in rich("PLACEHOLDERQ", false) {
                let skel = serde_json::to_value(&Metablock::new(skel_md, &[&k]).unwrap()).unwrap();
                fn subst(v: &serde_json::Value, t: &str) -> serde_json::Value {
                    match v {
                        serde_json::Value::String(s) => serde_json::Value::String(s.replace("PLACEHOLDERQ", t)),
                        serde_json::Value::Array(a) => serde_json::Value::Array(a.iter().map(|x| subst(x, t)).collect()),
                        serde_json::Value::Object(o) => serde_json::Value::Object(o.iter().map(|(kk, x)| (kk.replace("PLACEHOLDERQ", t), subst(x, t))).collect()),
                        other => other.clone(),
                    }
                }
                let signed = subst(&skel["signed"], t);
                let mut refb = String::new();
                olpc(&signed, &mut refb);
                let sig = serde_json::to_value(&k.sign(refb.as_bytes()).unwrap()).unwrap();
                let doc = json!({"signatures": [sig], "signed": signed});
                let parsed: Result<Metablock, _> = serde_json::from_str(&doc.to_string());
                let obs = match &parsed { Ok(m) => match no_panic(|| m.verify(1, [k.public()])) { Ok(Ok(_)) => "verified".to_string(), Ok(Err(e)) => format!("verify: {}", e), Err(p) => format!("panic: {}", p) }, Err(e) => format!("parse: {}", e) };
                r.case(&format!("external-{}-{:?}", kind, t), json!({"text": t, "document": kind, "reference_bytes": refb.chars().take(400).collect::<String>()}),
                       "a document signed over its reference canonical bytes outside the library parses and verifies", obs.clone(), obs == "verified");
            }
        }
        r.case(&format!("olpc-{:?}", t), json!({"text": t, "reference_bytes": reference}), "ed25519 signature over the OLPC reference bytes equals the library's signature",
               format!("lib={} ref={}", lib_sig["sig"], ref_sig["sig"]), lib_sig["sig"] == ref_sig["sig"]);
    }
    // member ORDER: sibling names from every range (ASCII, Latin-1, BMP below and above the surrogate block, astral) side by side in
    // every map of a link (artifact paths, environment names, extra byproduct names): the reference orders members by code point
    {
        fn olpc2(v: &serde_json::Value, out: &mut String) {
            match v {
                serde_json::Value::String(s) => out.push_str(&format!("\"{}\"", s.replace('\\', "\\\\").replace('"', "\\\""))),
                serde_json::Value::Array(a) => { out.push('['); for (i, x) in a.iter().enumerate() { if i > 0 { out.push(',') } olpc2(x, out) } out.push(']') }
                serde_json::Value::Object(o) => { out.push('{'); let mut ks: Vec<&String> = o.keys().collect(); ks.sort_by(|a, b| a.chars().map(|c| c as u32).cmp(b.chars().map(|c| c as u32)));
                    for (i, key) in ks.iter().enumerate() { if i > 0 { out.push(',') } olpc2(&serde_json::Value::String((*key).clone()), out); out.push(':'); olpc2(&o[*key], out) } out.push('}') }
                other => out.push_str(&other.to_string()),
            }
        }
        let names = ["a", "Z", "~", "aa", "a~", "\u{80}", "\u{e9}", "\u{7ff}", "\u{800}", "\u{d7ff}", "\u{e000}", "\u{e000}x", "\u{ff21}", "\u{fffd}", "\u{ffff}",
                     "\u{10000}", "\u{1f600}", "\u{1f600}a", "\u{10ffff}", "a\u{1f600}", "a\u{fffd}", "a\u{e000}"];
        let mut td = in_toto::models::TargetDescription::new();
        td.insert(in_toto::crypto::HashAlgorithm::Sha256, in_toto::crypto::HashValue::new(vec![7; 32]));
        let mut arts = std::collections::BTreeMap::new();
        let mut env = std::collections::BTreeMap::new();
        let mut bp = ByProducts::new().set_return_value(0);
        for n in names {
            arts.insert(in_toto::models::VirtualTargetPath::from(n), td.clone());
            env.insert(n.to_string(), "v".to_string());
            bp = bp.set_other_field(n.to_string(), "o".to_string());
        }
        let link = LinkMetadataBuilder::new().name("siblings".into()).materials(arts.clone()).products(arts).env(Some(env)).byproducts(bp).build().unwrap();
        let md = MetadataWrapper::Link(link);
        let mb = Metablock::new(md.clone(), &[&k]).unwrap();
        let mut reference = String::new();
        olpc2(&serde_json::to_value(&md).unwrap(), &mut reference);
        let lib_sig = serde_json::to_value(&mb.signatures[0]).unwrap();
        let ref_sig = serde_json::to_value(&k.sign(reference.as_bytes()).unwrap()).unwrap();
        r.case("olpc-sibling-member-order", json!({"names": names.len()}), "ed25519 signature over the OLPC reference bytes (members in code-point order) equals the library's signature",
               format!("lib={} ref={}", lib_sig["sig"], ref_sig["sig"]), lib_sig["sig"] == ref_sig["sig"]);
        // and the other way round: the same document signed outside over the reference bytes verifies here
        let doc = json!({"signatures": [ref_sig], "signed": serde_json::to_value(&md).unwrap()});
        let parsed: Result<Metablock, _> = serde_json::from_str(&doc.to_string());
        let obs = match &parsed { Ok(m) => match no_panic(|| m.verify(1, [k.public()])) { Ok(Ok(_)) => "verified".to_string(), Ok(Err(e)) => format!("verify: {}", e), Err(p) => format!("panic: {}", p) }, Err(e) => format!("parse: {}", e) };
        r.case("external-sibling-member-order", json!({"names": names.len()}), "a document signed over its reference canonical bytes outside the library parses and verifies", obs.clone(), obs == "verified");
    }
}

/// C09 only: documents whose member names collide
pub fn collisions(r: &mut Report) {
    // member names that collide: an extra byproduct field named like a built-in one (with the built-in one set or not); whatever the
    // library makes of it, what it writes (either layout) it reads back and verifies, and both layouts carry the same document
    {
        use in_toto::interchange::{DataInterchange, Json, JsonPretty};
        let k = key(1);
        let mut bad: Vec<String> = vec![];
        let mut bad_rv: Vec<String> = vec![];
        let mut n = 0;
        for name in ["stdout", "stderr", "return-value", "Stdout", "other"] { for builtin_set in [true, false] { for via_new in [true, false] {
            let mut bp = ByProducts::new();
            if builtin_set { bp = bp.set_stdout("real out".into()).set_stderr("real err".into()).set_return_value(0); }
            bp = bp.set_other_field(name.to_string(), "extra".to_string());
            let link = LinkMetadataBuilder::new().name("n".into()).byproducts(bp).build().unwrap();
            let md = MetadataWrapper::Link(link);
            let mb = if via_new { Metablock::new(md, &[&k]).unwrap() } else { in_toto::models::MetablockBuilder::from_metadata(md.into_trait()).sign(&[&k]).unwrap().build() };
            let mut docs: Vec<serde_json::Value> = vec![];
            for pretty in [false, true] {
                n += 1;
                let mut w = vec![];
                let wrote = if pretty { no_panic(|| JsonPretty::to_writer(&mut w, &mb)).map(|x| x.is_ok()) } else { no_panic(|| Json::to_writer(&mut w, &mb)).map(|x| x.is_ok()) };
                let back = if pretty { JsonPretty::from_slice::<Metablock>(&w).map_err(|e| e.to_string()) } else { Json::from_slice::<Metablock>(&w).map_err(|e| e.to_string()) };
                let ok = wrote == Ok(true) && matches!(&back, Ok(b) if matches!(no_panic(|| b.verify(1, [k.public()])), Ok(Ok(_))));
                // (a text member named `return-value` replaces the numeric one on the wire: reported under its own id)
                let sink = if name == "return-value" { &mut bad_rv } else { &mut bad };
                if !ok && sink.len() < 6 { sink.push(format!("extra field {:?} (built-in members set: {}, via_new {}) pretty={} wrote={:?} back={:?}", name, builtin_set, via_new, pretty, wrote, back.as_ref().map(|_| "parsed").map_err(|e| e.chars().take(80).collect::<String>()))); }
                if let Ok(b) = &back { docs.push(serde_json::to_value(b).unwrap_or_default()); }
            }
            if docs.len() == 2 && docs[0] != docs[1] && bad.len() < 6 { bad.push(format!("extra field {:?} (built-in members set: {}): the two layouts carry different documents", name, builtin_set)); }
        } } }
        r.case("colliding-member-names", json!({"documents": n}), "written, read back, verified; both layouts agree", format!("{:?}", bad), bad.is_empty());
        r.case("extra-byproduct-named-return-value", json!({"extra_field": {"return-value": "extra"}, "documents": 8}), "written, read back, verified", format!("{:?}", bad_rv), bad_rv.is_empty());
    }
}
