//! C19 witnesses: statements / predicates are self-consistent and round-trip.
use crate::util::no_panic;
use crate::Report;
use in_toto::models::{PredicateVer, PredicateWrapper, StatementVer, StatementWrapper};
use serde_json::{json, Value};
use std::convert::TryFrom;

fn link_pred() -> Value { json!({"byproducts": {"return-value": 0, "stderr": "", "stdout": ""}, "command": [], "env": null, "materials": {}, "name": ""}) }
fn slsa01() -> Value { json!({"builder": {"id": "https://b"}, "materials": [{"uri": "u", "digest": {"sha256": "00"}}]}) }
fn slsa02() -> Value { json!({"builder": {"id": "https://b"}, "buildType": "https://t", "materials": []}) }

pub fn run(r: &mut Report) {
    // version string tables round-trip (exhaustive over the finite enums)
    for v in [StatementVer::Naive, StatementVer::V0_1] {
        let s: String = v.into();
        r.case("statement-ver-roundtrip", json!({"text": s}), "try_from(String::from(v)) == v", format!("{:?}", StatementVer::try_from(s.clone())), StatementVer::try_from(s).ok() == Some(v));
    }
    for v in [PredicateVer::LinkV0_2, PredicateVer::SLSAProvenanceV0_1, PredicateVer::SLSAProvenanceV0_2] {
        let s: String = v.into();
        r.case("predicate-ver-roundtrip", json!({"text": s}), "try_from(String::from(v)) == v", format!("{:?}", PredicateVer::try_from(s.clone())), PredicateVer::try_from(s).ok() == Some(v));
    }
    // each predicate document is recognised as exactly its own version and round-trips
    let preds = [("https://in-toto.io/Link/v0.2", link_pred()), ("https://slsa.dev/provenance/v0.1", slsa01()), ("https://slsa.dev/provenance/v0.2", slsa02())];
    for (ty, doc) in preds.iter() {
        let parsed: Result<PredicateWrapper, _> = serde_json::from_str(&doc.to_string());
        match &parsed {
            Ok(p) => {
                let ver: String = p.clone().into_trait().version().into();
                let again: Result<PredicateWrapper, _> = serde_json::from_str(&serde_json::to_string(p).unwrap());
                r.case("predicate-recognised", json!({"type": ty}), "recognised as its own version and round-trips", format!("version={} roundtrip_eq={}", ver, again.as_ref().ok() == Some(p)), &ver == ty && again.as_ref().ok() == Some(p));
            }
            Err(e) => r.case("predicate-recognised", json!({"type": ty, "doc": doc}), "parses", format!("Err({})", e), false),
        }
    }
    // building a naive statement carries name, artifacts, command, byproducts and environment over unchanged
    {
        use in_toto::models::{LinkMetadataBuilder, byproducts::ByProducts, step::Command};
        use std::collections::BTreeMap;
        let mut vars = BTreeMap::new();
        vars.insert("CC".to_string(), "clang".to_string());
        for (id, env) in [("env-none", None), ("env-empty", Some(BTreeMap::new())), ("env-populated", Some(vars))] {
            let meta = LinkMetadataBuilder::new().name("build".to_string()).env(env.clone())
                .materials(crate::fixture::artifacts(&[("m", 1)])).products(crate::fixture::artifacts(&[("p", 2)]))
                .byproducts(ByProducts::new().set_return_value(0).set_stdout("out".into())).command(Command::from("make all")).build().unwrap();
            let link_json = serde_json::to_value(&meta).unwrap();
            let st = no_panic(|| StatementWrapper::from_meta(meta.clone(), None, StatementVer::Naive));
            let got: Option<Value> = st.ok().and_then(|s| s.into_trait().to_bytes().ok()).and_then(|b| serde_json::from_slice(&b).ok());
            let ok = match &got { Some(g) => g["name"] == link_json["name"] && g["materials"] == link_json["materials"] && g["products"] == link_json["products"]
                && g["command"] == link_json["command"] && g["byproducts"] == link_json["byproducts"] && g["env"] == link_json["environment"], None => false };
            r.case(&format!("naive-statement-carries-link-{}", id), json!({"env": env}), "all link fields unchanged", format!("{:?}", got.map(|g| g["env"].clone())), ok);
        }
    }
    // a v0.1 statement whose declared predicateType does not name the predicate it contains must be rejected
    for (declared, _) in preds.iter() {
        for (actual, doc) in preds.iter() {
            let st = json!({"_type": "https://in-toto.io/Statement/v0.1", "subject": {}, "predicateType": declared, "predicate": doc});
            let parsed = no_panic(|| serde_json::from_str::<StatementWrapper>(&st.to_string()));
            let accepted = matches!(&parsed, Ok(Ok(_)));
            let consistent = declared == actual;
            r.case("predicate-type-consistency", json!({"declared": declared, "contained": actual}), if consistent { "accepted" } else { "rejected" },
                   format!("accepted={}", accepted), accepted == consistent);
        }
    }
}
