//! C19 witnesses: statements / predicates are self-consistent and round-trip.
use crate::util::no_panic;
use crate::Report;
use in_toto::models::{PredicateVer, PredicateWrapper, StatementVer, StatementWrapper};
use serde_json::{json, Value};
use std::convert::TryFrom;

fn link_pred() -> Value { json!({"byproducts": {"return-value": 0, "stderr": "", "stdout": ""}, "command": [], "env": null, "materials": {}, "name": ""}) }
fn slsa01() -> Value { json!({"builder": {"id": "https://b"}, "materials": [{"uri": "u", "digest": {"sha256": "00"}}]}) }
fn slsa02() -> Value { json!({"builder": {"id": "https://b"}, "buildType": "https://t", "materials": []}) }

pub fn run(r: &mut Report) {
    // version string tables round-trip (exhaustive over the finite enums)
    for v in [StatementVer::Naive, StatementVer::V0_1] {
        let s: String = v.into();
        r.case("statement-ver-roundtrip", json!({"text": s}), "try_from(String::from(v)) == v", format!("{:?}", StatementVer::try_from(s.clone())), StatementVer::try_from(s).ok() == Some(v));
    }
    for v in [PredicateVer::LinkV0_2, PredicateVer::SLSAProvenanceV0_1, PredicateVer::SLSAProvenanceV0_2] {
        let s: String = v.into();
        r.case("predicate-ver-roundtrip", json!({"text": s}), "try_from(String::from(v)) == v", format!("{:?}", PredicateVer::try_from(s.clone())), PredicateVer::try_from(s).ok() == Some(v));
    }
    // only the exact type strings name a version: every near-miss (extended, truncated, other case, blanks, fragment) is unknown, and a
    // v0.1 statement declaring a near-miss type is rejected rather than silently re-labelled
    {
        let known_p: Vec<String> = [PredicateVer::LinkV0_2, PredicateVer::SLSAProvenanceV0_1, PredicateVer::SLSAProvenanceV0_2].into_iter().map(String::from).collect();
        let known_s: Vec<String> = [StatementVer::Naive, StatementVer::V0_1].into_iter().map(String::from).collect();
        let near = |u: &str| -> Vec<String> { let mut v = vec![format!("{}1", u), format!("{}.1", u), format!("{}/", u), format!("{}#frag", u), format!("{} ", u), format!(" {}", u),
            u.to_uppercase(), u.to_lowercase(), format!("x{}", u), String::new()];
            if !u.is_empty() { v.push(u[..u.len() - 1].to_string()); v.push(u.replacen("https", "http", 1)); }
            v.retain(|x| x != u); v.sort(); v.dedup(); v };
        let (mut n, mut bad): (usize, Vec<String>) = (0, vec![]);
        for u in &known_p { for x in near(u) { if known_p.contains(&x) { continue; } n += 1;
            if let Ok(Ok(v)) = no_panic(|| PredicateVer::try_from(x.clone())) { bad.push(format!("predicate type {:?} read as {:?}", x, v)); } } }
        for u in &known_s { for x in near(u) { if known_s.contains(&x) { continue; } n += 1;
            if let Ok(Ok(v)) = no_panic(|| StatementVer::try_from(x.clone())) { bad.push(format!("statement type {:?} read as {:?}", x, v)); } } }
        r.case("type-string-near-misses", json!({"strings": n}), "none is accepted as a known version", format!("{:?}", bad.iter().take(6).collect::<Vec<_>>()), bad.is_empty());
        let (mut n, mut bad): (usize, Vec<String>) = (0, vec![]);
        for (u, doc) in [(known_p[0].clone(), link_pred()), (known_p[1].clone(), slsa01()), (known_p[2].clone(), slsa02())] {
            for x in near(&u) { if known_p.contains(&x) { continue; } n += 1;
                let st = json!({"_type": "https://in-toto.io/Statement/v0.1", "subject": {}, "predicateType": x, "predicate": doc});
                if let Ok(Ok(w)) = no_panic(|| serde_json::from_str::<StatementWrapper>(&st.to_string())) {
                    bad.push(format!("declared {:?} accepted, written back as {}", x, serde_json::to_string(&w).unwrap_or_default().chars().take(120).collect::<String>())); } } }
        r.case("statement-with-near-miss-predicate-type", json!({"documents": n}), "all rejected", format!("{:?}", bad.iter().take(4).collect::<Vec<_>>()), bad.is_empty());
    }
    // the canonical form (`to_bytes`) of every accepted document parses back to an equal value, whatever text its strings hold:
    // every control character on its own, quotes, backslashes, touching escapes, non-ASCII
    {
        let mut ts: Vec<String> = (0u32..0x20).chain([0x22, 0x5c, 0x7f, 0x80, 0x2028, 0x1f600]).map(|c| format!("c{}d", char::from_u32(c).unwrap())).collect();
        for t in ["", "plain", "bs-lf\\\nend", "lf-bs\n\\end", "\\n", "q\"\\\"q", "\u{e9}\u{20ac}"] { ts.push(t.to_string()); }
        // path-shaped texts (the text sits in artifact paths, subject names and URIs as well): nothing is normalised on the way
        for t in ["a//b", "a///b", "a////b/", "./a", "a/./b", "a/../b", "/abs", "dir/", "//", "///", "a\\b", " lead", "trail ", "..", "."] { ts.push(t.to_string()); }
        let (mut n, mut bad): (usize, Vec<String>) = (0, vec![]);
        for t in &ts {
            let preds = vec![json!({"byproducts": {"return-value": 0, "stderr": t, "stdout": t}, "command": [t], "env": {t.as_str(): t}, "materials": {format!("m{}", t): {"sha256": "00"}}, "name": t}),
                             json!({"builder": {"id": t}, "materials": [{"uri": t, "digest": {"sha256": "00"}}]}),
                             json!({"builder": {"id": t}, "buildType": t, "materials": []}),
                             // several list members in descending / mixed order, and members without the optional field: order is content
                             json!({"builder": {"id": t}, "materials": [{"uri": "z", "digest": {"sha256": "00"}}, {"uri": "a", "digest": {"sha512": "11", "sha256": "00"}}, {"digest": {"sha256": "22"}}, {"uri": t}]}),
                             json!({"builder": {"id": t}, "buildType": t, "materials": [{"uri": "z"}, {"uri": "a", "digest": {"sha256": "00"}}, {"digest": {"sha256": "22"}}, {"uri": "m"}]})];
            let ptypes = ["https://in-toto.io/Link/v0.2", "https://slsa.dev/provenance/v0.1", "https://slsa.dev/provenance/v0.2", "https://slsa.dev/provenance/v0.1", "https://slsa.dev/provenance/v0.2"];
            for (i, pd) in preds.iter().enumerate() {
                n += 1;
                let parsed: Result<PredicateWrapper, _> = serde_json::from_str(&pd.to_string());
                match parsed {
                    Ok(p) => {
                        // the Value-based entry points agree with the text parser: same value, and the version they name is the version of that value
                        let via_value = no_panic(|| PredicateWrapper::try_from_value(pd.clone()));
                        let judged = no_panic(|| PredicateWrapper::judge_from_value(pd));
                        let ver_of_p = p.clone().into_trait().version();
                        if !(matches!(&via_value, Ok(Ok(x)) if *x == p) && matches!(&judged, Ok(Ok(v)) if *v == ver_of_p)) && bad.len() < 5 {
                            bad.push(format!("predicate kind {} with text {:?}: try_from_value / judge_from_value disagree with the parser: {:?} / {:?} (parser: {:?})", i, t,
                                via_value.as_ref().map(|x| x.as_ref().map(|v| *v == p).map_err(|e| e.to_string())), judged.as_ref().map(|x| x.as_ref().map(|v| format!("{:?}", v)).map_err(|e| e.to_string())), ver_of_p)); }
                        let bytes = no_panic(|| p.clone().into_trait().to_bytes());
                        let back: Option<PredicateWrapper> = match &bytes { Ok(Ok(b)) => serde_json::from_slice(b).ok(), _ => None };
                        if back.as_ref() != Some(&p) && bad.len() < 5 { bad.push(format!("predicate kind {} with text {:?}: canonical form {:?} does not parse back equal", i, t, bytes.map(|b| b.map(|x| String::from_utf8_lossy(&x).chars().take(90).collect::<String>()).map_err(|e| e.to_string())))); } }
                    Err(e) => { if bad.len() < 5 { bad.push(format!("predicate kind {} with text {:?} rejected: {}", i, t, e)); } }
                }
                let st = json!({"_type": "https://in-toto.io/Statement/v0.1", "subject": {format!("s{}", t): {"sha256": "00"}}, "predicateType": ptypes[i], "predicate": pd});
                n += 1;
                let parsed: Result<StatementWrapper, _> = serde_json::from_str(&st.to_string());
                match parsed {
                    Ok(w) => { let w2: StatementWrapper = serde_json::from_str(&st.to_string()).unwrap();
                        let via_value = no_panic(|| StatementWrapper::try_from_value(st.clone()));
                        let judged = no_panic(|| StatementWrapper::judge_from_value(&st));
                        if !(matches!(&via_value, Ok(Ok(x)) if *x == w) && matches!(&judged, Ok(Ok(v)) if *v == StatementVer::V0_1)) && bad.len() < 5 {
                            bad.push(format!("statement with predicate kind {} and text {:?}: try_from_value / judge_from_value disagree with the parser: {:?} / {:?}", i, t,
                                via_value.as_ref().map(|x| x.as_ref().map(|v| *v == w).map_err(|e| e.to_string())), judged.as_ref().map(|x| x.as_ref().map(|v| format!("{:?}", v)).map_err(|e| e.to_string())))); }
                        let bytes = no_panic(|| w2.into_trait().to_bytes());
                        let back: Option<StatementWrapper> = match &bytes { Ok(Ok(b)) => serde_json::from_slice(b).ok(), _ => None };
                        if back.as_ref() != Some(&w) && bad.len() < 5 { bad.push(format!("statement with predicate kind {} and text {:?}: canonical form does not parse back equal", i, t)); } }
                    Err(e) => { if bad.len() < 5 { bad.push(format!("statement kind {} with text {:?} rejected: {}", i, t, e)); } }
                }
            }
        }
        r.case("canonical-form-parses-back", json!({"documents": n, "texts": ts.len()}), "every accepted document's canonical bytes parse back to an equal value", format!("{:?}", bad), bad.is_empty());
    }
    // timestamps of the SLSA metadata in every notation (whole seconds, fractions of every length, offsets, leap-second spelling):
    // a document is either refused or, if accepted, its canonical form parses back to an equal value
    {
        let mut bad: Vec<String> = vec![]; let mut n = 0; let mut accepted = 0;
        for ts in ["2020-08-19T08:38:00Z", "2020-08-19T08:38:00.5Z", "2020-08-19T08:38:00.000Z", "2020-08-19T08:38:00.123456789Z", "2020-08-19T08:38:00.999999999999Z", "2020-08-19T08:38:00+05:30",
                   "2020-08-19T08:38:00.25-11:00", "2020-08-19T23:59:60Z", "2020-08-19t08:38:00z", "2020-08-19 08:38:00Z", "0001-01-01T00:00:00Z", "9999-12-31T23:59:59.9Z", "", "yesterday"] {
            for (kind, pd) in [("slsa v0.1", json!({"builder": {"id": "b"}, "metadata": {"buildStartedOn": ts, "buildFinishedOn": ts, "completeness": {"arguments": true, "environment": false, "materials": true}, "reproducible": false}, "materials": [{"uri": "u"}]})),
                               ("slsa v0.2", json!({"builder": {"id": "b"}, "buildType": "t", "metadata": {"buildStartedOn": ts, "completeness": {"parameters": true, "environment": false, "materials": true}, "reproducible": true}, "materials": []}))] {
                n += 1;
                for via in ["text", "value"] {
                    let parsed: Option<PredicateWrapper> = if via == "text" { serde_json::from_str(&pd.to_string()).ok() } else { no_panic(|| PredicateWrapper::try_from_value(pd.clone())).ok().and_then(|x| x.ok()) };
                    if let Some(p) = parsed {
                        accepted += 1;
                        let bytes = no_panic(|| p.clone().into_trait().to_bytes());
                        let text = match &bytes { Ok(Ok(b)) => String::from_utf8_lossy(b).to_string(), _ => String::new() };
                        let back: Option<PredicateWrapper> = serde_json::from_str(&text).ok().or_else(|| serde_json::from_str::<Value>(&text).ok().and_then(|v| PredicateWrapper::try_from_value(v).ok()));
                        if back.as_ref() != Some(&p) && bad.len() < 6 { bad.push(format!("{} predicate with timestamp {:?} (read from {}): canonical form {:?} does not parse back equal", kind, ts, via, text.chars().take(160).collect::<String>())); }
                    }
                }
            }
        }
        r.case("timestamps-in-every-notation", json!({"documents": n, "accepted_readings": accepted}), "refused, or accepted and round-tripping", format!("{:?}", bad), bad.is_empty());
    }
    // the free-form members of the SLSA formats (parameters, environment, buildConfig, recipe arguments / environment) holding every
    // kind of JSON value - text, objects, lists, whole and fractional numbers at any depth: refused, or accepted WITH a canonical form
    // that parses back equal
    {
        let mut bad: Vec<String> = vec![]; let mut n = 0; let mut accepted = 0;
        let values = [json!("text"), json!(""), json!({"a": 1}), json!({"timeout_minutes": 1.5}), json!([1, 2.0, 3]), json!(1e3), json!(0.1), json!(-1), json!(null), json!(true), json!({"deep": [{"x": [1.25]}]}), json!([]), json!({})];
        for v in &values {
            let docs = [("slsa v0.2 parameters", json!({"builder": {"id": "b"}, "buildType": "t", "invocation": {"configSource": {"uri": "u", "digest": {"sha256": "00"}, "entryPoint": "e"}, "parameters": v, "environment": v}, "materials": []})),
                        ("slsa v0.2 buildConfig", json!({"builder": {"id": "b"}, "buildType": "t", "buildConfig": v, "materials": []})),
                        ("slsa v0.1 recipe", json!({"builder": {"id": "b"}, "recipe": {"type": "t", "arguments": v, "environment": v}, "materials": [{"uri": "u"}]}))];
            for (kind, pd) in &docs {
                n += 1;
                for via in ["text", "value"] {
                    let parsed: Option<PredicateWrapper> = if via == "text" { serde_json::from_str(&pd.to_string()).ok() } else { no_panic(|| PredicateWrapper::try_from_value(pd.clone())).ok().and_then(|x| x.ok()) };
                    if let Some(p) = parsed {
                        accepted += 1;
                        let bytes = no_panic(|| p.clone().into_trait().to_bytes());
                        let text = match &bytes { Ok(Ok(b)) => String::from_utf8_lossy(b).to_string(), other => format!("<no canonical form: {:?}>", other.as_ref().map(|x| x.as_ref().map(|_| ()).map_err(|e| e.to_string()))) };
                        let back: Option<PredicateWrapper> = serde_json::from_str(&text).ok().or_else(|| serde_json::from_str::<Value>(&text).ok().and_then(|v| PredicateWrapper::try_from_value(v).ok()));
                        if back.as_ref() != Some(&p) && bad.len() < 6 { bad.push(format!("{} = {} (read from {}): accepted, canonical form {:?} does not parse back equal", kind, v, via, text.chars().take(120).collect::<String>())); }
                    }
                }
            }
        }
        r.case("free-form-members-holding-every-kind-of-value", json!({"documents": n, "accepted_readings": accepted}), "refused, or accepted and round-tripping", format!("{:?}", bad), bad.is_empty());
    }
    // integer members at the extremes of their types (`definedInMaterial` is an unsigned machine word, `return-value` a signed
    // 32-bit number): the canonical form carries the same digits and parses back to an equal value, bare and inside a statement
    {
        let mut bad: Vec<String> = vec![]; let mut n = 0;
        let mut docs: Vec<(String, &str, Value)> = vec![];
        for v in [0u64, 1, (1 << 31) - 1, 1 << 31, (1u64 << 32) - 1, 1 << 32, 1 << 53, (1u64 << 63) - 1, 1u64 << 63, (1u64 << 63) + 1, u64::MAX - 1, u64::MAX] {
            docs.push((v.to_string(), "https://slsa.dev/provenance/v0.1", json!({"builder": {"id": "b"}, "recipe": {"type": "t", "definedInMaterial": v}, "materials": [{"uri": "u"}]})));
        }
        for v in [i32::MIN as i64, -256, -1, 0, 1, 255, i32::MAX as i64] {
            docs.push((v.to_string(), "https://in-toto.io/Link/v0.2", json!({"byproducts": {"return-value": v, "stderr": "", "stdout": ""}, "command": [], "env": null, "materials": {}, "name": "n"})));
        }
        for (digits, ptype, pd) in &docs {
            n += 2;
            match serde_json::from_str::<PredicateWrapper>(&pd.to_string()) {
                Ok(p) => {
                    let bytes = no_panic(|| p.clone().into_trait().to_bytes());
                    let text = match &bytes { Ok(Ok(b)) => String::from_utf8_lossy(b).to_string(), _ => String::new() };
                    let back: Option<PredicateWrapper> = serde_json::from_str(&text).ok();
                    if (back.as_ref() != Some(&p) || !text.contains(&format!(":{}", digits))) && bad.len() < 6 { bad.push(format!("predicate with integer {}: canonical form {:?} (parses back equal: {})", digits, text.chars().take(140).collect::<String>(), back.as_ref() == Some(&p))); }
                }
                Err(e) => { if bad.len() < 6 { bad.push(format!("predicate with integer {} rejected: {}", digits, e)); } }
            }
            let st = json!({"_type": "https://in-toto.io/Statement/v0.1", "subject": {"s": {"sha256": "00"}}, "predicateType": ptype, "predicate": pd});
            match serde_json::from_str::<StatementWrapper>(&st.to_string()) {
                Ok(w) => {
                    let w2: StatementWrapper = serde_json::from_str(&st.to_string()).unwrap();
                    let bytes = no_panic(|| w2.into_trait().to_bytes());
                    let text = match &bytes { Ok(Ok(b)) => String::from_utf8_lossy(b).to_string(), _ => String::new() };
                    let back: Option<StatementWrapper> = serde_json::from_str(&text).ok();
                    if (back.as_ref() != Some(&w) || !text.contains(&format!(":{}", digits))) && bad.len() < 6 { bad.push(format!("statement with integer {}: canonical form {:?} (parses back equal: {})", digits, text.chars().take(140).collect::<String>(), back.as_ref() == Some(&w))); }
                }
                Err(e) => { if bad.len() < 6 { bad.push(format!("statement with integer {} rejected: {}", digits, e)); } }
            }
        }
        r.case("integer-members-at-their-extremes", json!({"documents": n}), "accepted, written with the same digits, parsed back equal", format!("{:?}", bad), bad.is_empty());
    }
    // a statement's declared `_type` and its shape may disagree: whatever the parser then does (reject, or go by one of them), the value
    // it hands back reports ONE version - the wrapper variant, `judge_from_value` and the value's own `version()` all name the same one
    {
        let shapes = vec![("naive", json!({"name": "n", "materials": {}, "products": {}, "byproducts": {"return-value": 0, "stderr": "", "stdout": ""}, "command": [], "env": null})),
                          ("v0.1", json!({"subject": {}, "predicateType": "https://in-toto.io/Link/v0.2", "predicate": link_pred()}))];
        let types = ["link", "https://in-toto.io/Statement/v0.1", "Link", "https://in-toto.io/Statement/v0.2", "", "layout"];
        let mut bad: Vec<String> = vec![]; let mut n = 0;
        for (shape, body) in &shapes { for ty in types {
            n += 1;
            let mut doc = body.clone(); doc["_type"] = json!(ty);
            let parsed = no_panic(|| serde_json::from_str::<StatementWrapper>(&doc.to_string()));
            if let Ok(Ok(w)) = parsed {
                let variant = match &w { StatementWrapper::Naive(_) => StatementVer::Naive, StatementWrapper::V0_1(_) => StatementVer::V0_1 };
                let judged = no_panic(|| StatementWrapper::judge_from_value(&doc)).ok().and_then(|x| x.ok());
                let own = no_panic(|| w.into_trait().version()).ok();
                if !(judged == Some(variant) && own == Some(variant)) && bad.len() < 6 { bad.push(format!("shape {} declared {:?}: variant {:?}, judge_from_value {:?}, version() {:?}", shape, ty, variant, judged, own)); }
            }
        } }
        r.case("declared-type-and-shape-disagree", json!({"documents": n}), "an accepted statement has one version, however it is asked", format!("{:?}", bad), bad.is_empty());
    }
    // each predicate document is recognised as exactly its own version and round-trips
    let preds = [("https://in-toto.io/Link/v0.2", link_pred()), ("https://slsa.dev/provenance/v0.1", slsa01()), ("https://slsa.dev/provenance/v0.2", slsa02())];
    for (ty, doc) in preds.iter() {
        let parsed: Result<PredicateWrapper, _> = serde_json::from_str(&doc.to_string());
        match &parsed {
            Ok(p) => {
                let ver: String = p.clone().into_trait().version().into();
                let again: Result<PredicateWrapper, _> = serde_json::from_str(&serde_json::to_string(p).unwrap());
                r.case("predicate-recognised", json!({"type": ty}), "recognised as its own version and round-trips", format!("version={} roundtrip_eq={}", ver, again.as_ref().ok() == Some(p)), &ver == ty && again.as_ref().ok() == Some(p));
            }
            Err(e) => r.case("predicate-recognised", json!({"type": ty, "doc": doc}), "parses", format!("Err({})", e), false),
        }
    }
    // every optional field of the SLSA predicates in three states (absent / "falsy" value / ordinary value), one field at a time
    // and all together: whatever parses must serialise to something that parses back to an equal value, and re-serialise identically
    {
        fn set(doc: &mut Value, path: &[&str], v: Option<Value>) {
            let mut cur = doc;
            for k in &path[..path.len() - 1] {
                if !cur.get(*k).map(|x| x.is_object()).unwrap_or(false) { cur[*k] = json!({}); }
                cur = cur.get_mut(*k).unwrap();
            }
            let last = path[path.len() - 1];
            match v { Some(v) => { cur[last] = v; } None => { if let Some(o) = cur.as_object_mut() { o.remove(last); } } }
        }
        let ts = json!("2021-03-04T05:06:07Z");
        // (path, falsy, ordinary)
        let meta: Vec<(Vec<&str>, Value, Value)> = vec![
            (vec!["metadata", "buildInvocationId"], json!(""), json!("id-1")),
            (vec!["metadata", "buildStartedOn"], json!("1970-01-01T00:00:00Z"), ts.clone()),
            (vec!["metadata", "buildFinishedOn"], json!("2021-03-04T05:06:07+02:00"), ts.clone()),
            (vec!["metadata", "completeness", "arguments"], json!(false), json!(true)),
            (vec!["metadata", "completeness", "environment"], json!(false), json!(true)),
            (vec!["metadata", "completeness", "materials"], json!(false), json!(true)),
            (vec!["metadata", "reproducible"], json!(false), json!(true)),
            (vec!["materials"], json!([]), json!([{"uri": "u", "digest": {"sha256": "00"}}, {}, {"digest": {}}])),
        ];
        let mut v01 = meta.clone();
        v01.extend(vec![
            (vec!["recipe", "type"], json!(""), json!("https://r")),
            (vec!["recipe", "definedInMaterial"], json!(0), json!(3)),
            (vec!["recipe", "entryPoint"], json!(""), json!("build.sh")),
            (vec!["recipe", "arguments"], json!(""), json!("-x")),
            (vec!["recipe", "environment"], json!(""), json!("E=1")),
        ]);
        let mut v02 = meta.clone();
        v02.extend(vec![
            (vec!["invocation", "configSource", "uri"], Value::Null, json!("git+https://x")),
            (vec!["invocation", "configSource", "digest"], json!({}), json!({"sha1": "ab"})),
            (vec!["invocation", "configSource", "entryPoint"], json!(""), json!("ci.yml")),
            (vec!["invocation", "parameters"], json!(""), json!("p")),
            (vec!["invocation", "environment"], json!(""), json!("e")),
            (vec!["buildConfig"], json!(""), json!("cfg")),
        ]);
        let mut total = 0; let mut bad = 0;
        for (ty, base, fields) in [("slsa-v0.1", json!({"builder": {"id": "https://b"}}), v01), ("slsa-v0.2", json!({"builder": {"id": "https://b"}, "buildType": "https://t"}), v02)] {
            let mut docs: Vec<(String, Value)> = vec![("all-absent".into(), base.clone())];
            for state in 0..2 {
                let mut all = base.clone();
                for (path, falsy, ord) in &fields { set(&mut all, path, Some(if state == 0 { falsy.clone() } else { ord.clone() })); }
                docs.push((format!("all-{}", if state == 0 { "falsy" } else { "ordinary" }), all.clone()));
                for (path, falsy, ord) in &fields {
                    // one field differs from the rest
                    let mut d = all.clone();
                    set(&mut d, path, Some(if state == 0 { ord.clone() } else { falsy.clone() }));
                    docs.push((format!("{}-flipped-in-all-{}", path.join("."), state), d));
                    let mut d2 = all.clone();
                    set(&mut d2, path, None);
                    docs.push((format!("{}-absent-in-all-{}", path.join("."), state), d2));
                    let mut d3 = base.clone();
                    set(&mut d3, path, Some(if state == 0 { falsy.clone() } else { ord.clone() }));
                    docs.push((format!("only-{}-{}", path.join("."), state), d3));
                }
            }
            for (id, doc) in docs {
                let first: Result<PredicateWrapper, _> = serde_json::from_str(&doc.to_string());
                if let Ok(p) = &first {
                    total += 1;
                    let text = serde_json::to_string(p).unwrap();
                    let again: Result<PredicateWrapper, _> = serde_json::from_str(&text);
                    let text2 = again.as_ref().ok().map(|a| serde_json::to_string(a).unwrap());
                    let ok = again.as_ref().ok() == Some(p) && text2.as_deref() == Some(text.as_str());
                    if !ok {
                        bad += 1;
                        r.case("optional-field-roundtrip", json!({"format": ty, "variant": id, "doc": doc}), "parses back to an equal value, identical re-serialisation",
                               format!("serialised={} equal={}", text, again.as_ref().ok() == Some(p)), false);
                    }
                }
            }
        }
        r.case("optional-field-matrix", json!({"accepted_documents": total}), "all round-trip", format!("{} failures", bad), bad == 0 && total >= 30);
    }
    // building a naive statement carries name, artifacts, command, byproducts and environment over unchanged
    {
        use in_toto::models::{LinkMetadataBuilder, byproducts::ByProducts, step::Command};
        use std::collections::BTreeMap;
        let mut vars = BTreeMap::new();
        vars.insert("CC".to_string(), "clang".to_string());
        for (id, env) in [("env-none", None), ("env-empty", Some(BTreeMap::new())), ("env-populated", Some(vars))] {
            let meta = LinkMetadataBuilder::new().name("build".to_string()).env(env.clone())
                .materials(crate::fixture::artifacts(&[("m", 1)])).products(crate::fixture::artifacts(&[("p", 2)]))
                .byproducts(ByProducts::new().set_return_value(0).set_stdout("out".into())).command(Command::from("make all")).build().unwrap();
            let link_json = serde_json::to_value(&meta).unwrap();
            let st = no_panic(|| StatementWrapper::from_meta(meta.clone(), None, StatementVer::Naive));
            let got: Option<Value> = st.ok().and_then(|s| s.into_trait().to_bytes().ok()).and_then(|b| serde_json::from_slice(&b).ok());
            let ok = match &got { Some(g) => g["name"] == link_json["name"] && g["materials"] == link_json["materials"] && g["products"] == link_json["products"]
                && g["command"] == link_json["command"] && g["byproducts"] == link_json["byproducts"] && g["env"] == link_json["environment"], None => false };
            r.case(&format!("naive-statement-carries-link-{}", id), json!({"env": env}), "all link fields unchanged", format!("{:?}", got.map(|g| g["env"].clone())), ok);
        }
    }
    // the same for BOTH statement versions and for awkward artifact sets (no products, a product without any digest, two algorithms)
    {
        use in_toto::crypto::{HashAlgorithm, HashValue};
        use in_toto::models::{LinkMetadataBuilder, byproducts::ByProducts, step::Command, TargetDescription, VirtualTargetPath};
        let td = |v: Vec<(HashAlgorithm, u8, usize)>| -> TargetDescription { v.into_iter().map(|(a, b, n)| (a, HashValue::new(vec![b; n]))).collect() };
        let sets: Vec<(&str, Vec<(&str, TargetDescription)>)> = vec![
            ("no-products", vec![]),
            ("one-product", vec![("p", td(vec![(HashAlgorithm::Sha256, 2, 32)]))]),
            ("product-without-digest", vec![("p", td(vec![(HashAlgorithm::Sha256, 2, 32)])), ("nodigest", td(vec![]))]),
            ("two-algorithms", vec![("p", td(vec![(HashAlgorithm::Sha256, 2, 32), (HashAlgorithm::Sha512, 3, 64)]))]),
            ("odd-names", vec![("dir/sp ace", td(vec![(HashAlgorithm::Sha256, 1, 32)])), (".dot", td(vec![(HashAlgorithm::Sha256, 1, 32)])), ("\u{e9}", td(vec![(HashAlgorithm::Sha256, 1, 32)]))]),
        ];
        for (id, prods) in sets {
            let meta = LinkMetadataBuilder::new().name("build".to_string())
                .materials(prods.iter().map(|(p, t)| (VirtualTargetPath::new(format!("m-{}", p)).unwrap(), t.clone())).collect())
                .products(prods.iter().map(|(p, t)| (VirtualTargetPath::new(p.to_string()).unwrap(), t.clone())).collect())
                .byproducts(ByProducts::new().set_return_value(3).set_stderr("e".into())).command(Command::from("make all")).build().unwrap();
            let link_json = serde_json::to_value(&meta).unwrap();
            for ver in [StatementVer::Naive, StatementVer::V0_1] {
                let pred_json = json!({"name": link_json["name"], "materials": link_json["materials"], "env": link_json["environment"], "command": link_json["command"], "byproducts": link_json["byproducts"]});
                let mk = || -> Option<Box<dyn in_toto::models::PredicateLayout>> { match ver { StatementVer::Naive => None,
                    StatementVer::V0_1 => serde_json::from_str::<PredicateWrapper>(&pred_json.to_string()).ok().map(|p| p.into_trait()) } };
                let st = no_panic(|| StatementWrapper::from_meta(meta.clone(), mk(), ver));
                let got: Option<Value> = st.ok().and_then(|s| s.into_trait().to_bytes().ok()).and_then(|b| serde_json::from_slice(&b).ok());
                let ok = match (&got, ver) {
                    (Some(g), StatementVer::Naive) => g["name"] == link_json["name"] && g["materials"] == link_json["materials"] && g["products"] == link_json["products"]
                        && g["command"] == link_json["command"] && g["byproducts"] == link_json["byproducts"],
                    (Some(g), StatementVer::V0_1) => g["subject"] == link_json["products"] && g["predicate"] == pred_json,
                    _ => false };
                // and what was built parses back to an equal statement
                let reparse_ok = match &got { Some(g) => { let a: Result<StatementWrapper, _> = serde_json::from_str(&g.to_string());
                    matches!((&a, no_panic(|| StatementWrapper::from_meta(meta.clone(), mk(), ver))), (Ok(x), Ok(y)) if *x == y) }, None => false };
                r.case("statement-carries-link", json!({"artifacts": id, "version": format!("{:?}", ver)}), "name, materials, products/subject, command, byproducts unchanged; parses back equal",
                       format!("carried={} reparse_equal={} doc={}", ok, reparse_ok, got.map(|g| g.to_string()).unwrap_or_default().chars().take(300).collect::<String>()), ok && reparse_ok);
            }
        }
    }
    // a v0.1 statement whose declared predicateType does not name the predicate it contains must be rejected
    for (declared, _) in preds.iter() {
        for (actual, doc) in preds.iter() {
            let st = json!({"_type": "https://in-toto.io/Statement/v0.1", "subject": {}, "predicateType": declared, "predicate": doc});
            let parsed = no_panic(|| serde_json::from_str::<StatementWrapper>(&st.to_string()));
            let accepted = matches!(&parsed, Ok(Ok(_)));
            let consistent = declared == actual;
            r.case("predicate-type-consistency", json!({"declared": declared, "contained": actual}), if consistent { "accepted" } else { "rejected" },
                   format!("accepted={}", accepted), accepted == consistent);
        }
    }
}
