//! C02 witnesses: links count for a step only if signed by a functionary authorised for that step.
use crate::fixture::*;
use crate::util::no_panic;
use crate::Report;
use in_toto::verifylib::in_toto_verify;
use serde_json::json;

pub fn run(r: &mut Report) {
    crate::c01::signature_value_shapes(r);
    attributed_signature_only(r);
    functionary_listed_twice(r);
    let owner = key(1);
    let ka = key(2);
    let kb = key(3);
    let kc = key(4); // not in the layout at all
    // two steps, each with its own functionary
    let mk_layout = |ta: u32, tb: u32| {
        let l = layout(
            vec![step("a", ta, &[&ka], allow_all(), allow_all()), step("b", tb, &[&kb], allow_all(), allow_all())],
            vec![], &[&ka, &kb], 30);
        signed_layout(&l, &[&owner])
    };
    let la = link("a", &[], &[("x", 1)]);
    let lb = link("b", &[("x", 1)], &[("y", 2)]);
    struct Case { id: &'static str, expect_ok: bool, signer_a: usize, signer_b: usize, file_b: usize, tamper: bool }
    let ks = [&ka, &kb, &kc];
    let cases = [
        Case { id: "both-authorised", expect_ok: true, signer_a: 0, signer_b: 1, file_b: 1, tamper: false },
        Case { id: "b-signed-by-functionary-of-a", expect_ok: false, signer_a: 0, signer_b: 0, file_b: 0, tamper: false },
        Case { id: "b-signed-by-key-absent-from-layout", expect_ok: false, signer_a: 0, signer_b: 2, file_b: 2, tamper: false },
        Case { id: "b-filed-under-prefix-of-kb-but-signed-by-ka", expect_ok: false, signer_a: 0, signer_b: 0, file_b: 1, tamper: false },
        Case { id: "b-altered-after-signing", expect_ok: false, signer_a: 0, signer_b: 1, file_b: 1, tamper: true },
    ];
    for c in cases.iter() {
        let d = tmpdir();
        write_link(d.path(), "a", ks[c.signer_a].key_id(), &signed_link(&la, &[ks[c.signer_a]]));
        let mut mb = signed_link(&lb, &[ks[c.signer_b]]);
        if c.tamper {
            let sigs = mb.signatures.clone();
            mb = signed_link(&link("b", &[("x", 1)], &[("y", 3)]), &[]);
            mb.signatures = sigs;
        }
        write_link(d.path(), "b", ks[c.file_b].key_id(), &mb);
        let lay = mk_layout(1, 1);
        let res = no_panic(|| in_toto_verify(&lay, owner_keys(&[&owner]), d.path().to_str().unwrap(), None));
        let ok = match &res { Ok(v) => v.is_ok() == c.expect_ok, Err(_) => false };
        r.case(c.id, json!({"steps": {"a": "key2", "b": "key3"}, "link_a_signed_by": c.signer_a, "link_b_signed_by": c.signer_b, "link_b_file_prefix_of": c.file_b, "tampered": c.tamper}),
               if c.expect_ok { "Ok" } else { "Err" }, match &res { Ok(v) => verdict(v), Err(p) => format!("panic: {}", p) }, ok);
    }
    // evidence kind x signer authorisation: a step's slot can be filled with a link OR a sub-layout, and in both cases only by a
    // functionary the step itself authorises (table membership alone is not enough), with a valid signature
    {
        let kt = key(5); // in the layout's key table, authorised for no step
        let ki = key(6); // inner functionary of the sub-layout
        let all = [(&kb, "authorised-for-step", true), (&ka, "functionary-of-other-step", false), (&kt, "in-table-no-step", false), (&kc, "absent-from-layout", false)];
        for sub in [false, true] {
            for bad_sig in [false, true] {
                for (signer, who, authorised) in all.iter() {
                    let d = tmpdir();
                    write_link(d.path(), "a", ka.key_id(), &signed_link(&la, &[&ka]));
                    let mut ev = if sub {
                        let inner = layout(vec![step("inner", 1, &[&ki], allow_all(), allow_all())], vec![], &[&ki], 30);
                        let subdir = d.path().join(format!("b.{}", signer.key_id().prefix()));
                        std::fs::create_dir_all(&subdir).unwrap();
                        write_link(&subdir, "inner", ki.key_id(), &signed_link(&link("inner", &[("x", 1)], &[("y", 2)]), &[&ki]));
                        signed_layout(&inner, &[signer])
                    } else {
                        signed_link(&lb, &[signer])
                    };
                    if bad_sig {
                        // signature taken from a different document of the same signer
                        let other = signed_link(&link("b", &[("x", 1)], &[("other", 9)]), &[signer]);
                        ev.signatures = other.signatures.clone();
                    }
                    write_link(d.path(), "b", signer.key_id(), &ev);
                    let l = layout(vec![step("a", 1, &[&ka], allow_all(), allow_all()), step("b", 1, &[&kb], allow_all(), allow_all())],
                                   vec![], &[&ka, &kb, &kt], 30);
                    let lay = signed_layout(&l, &[&owner]);
                    let res = no_panic(|| in_toto_verify(&lay, owner_keys(&[&owner]), d.path().to_str().unwrap(), None));
                    let expect = *authorised && !bad_sig;
                    r.case("evidence-kind-x-signer", json!({"evidence_for_step_b": if sub { "sub-layout" } else { "link" }, "signer": who, "signature": if bad_sig { "of another document" } else { "valid" }}),
                           if expect { "Ok" } else { "Err" }, match &res { Ok(v) => verdict(v), Err(p) => format!("panic: {}", p) },
                           matches!(&res, Ok(v) if v.is_ok() == expect));
                }
            }
        }
    }
    // layouts may list two steps under one name (nothing rejects that): EVERY listed step must be satisfied by its own functionaries
    for (id, second_keys_are_bobs, threshold2, bob_link, expect) in [
        ("duplicate-step-name-second-needs-other-functionary", true, 1u32, false, false),
        ("duplicate-step-name-second-satisfied", true, 1, true, true),
        ("duplicate-step-name-second-has-higher-threshold", false, 2, false, false),
        ("duplicate-step-name-identical-steps", false, 1, false, true),
    ] {
        let d = tmpdir();
        write_link(d.path(), "a", ka.key_id(), &signed_link(&la, &[&ka]));
        if bob_link { write_link(d.path(), "a", kb.key_id(), &signed_link(&la, &[&kb])); }
        let s1 = step("a", 1, &[&ka], allow_all(), allow_all());
        let s2 = if second_keys_are_bobs { step("a", threshold2, &[&kb], allow_all(), allow_all()) } else { step("a", threshold2, &[&ka], allow_all(), allow_all()) };
        let l = layout(vec![s1, s2], vec![], &[&ka, &kb], 30);
        let lay = signed_layout(&l, &[&owner]);
        let res = no_panic(|| in_toto_verify(&lay, owner_keys(&[&owner]), d.path().to_str().unwrap(), None));
        r.case(id, json!({"steps": ["a (key2, threshold 1)", format!("a ({}, threshold {})", if second_keys_are_bobs { "key3" } else { "key2" }, threshold2)], "links": if bob_link { "key2, key3" } else { "key2" }}),
               if expect { "Ok" } else { "Err" }, match &res { Ok(v) => verdict(v), Err(p) => format!("panic: {}", p) }, matches!(&res, Ok(v) if v.is_ok() == expect));
    }
    // one functionary cannot fill a second functionary's slot with a bogus signature entry naming the other key
    {
        let d = tmpdir();
        let l2 = layout(vec![step("a", 2, &[&ka, &kb], allow_all(), allow_all())], vec![], &[&ka, &kb], 30);
        let lay = signed_layout(&l2, &[&owner]);
        let genuine = signed_link(&la, &[&kb]);
        write_link(d.path(), "a", kb.key_id(), &genuine);
        // same block plus an entry that merely names ka's key id (garbage bytes), filed under ka's prefix
        let mut v = serde_json::to_value(&genuine).unwrap();
        let ka_id = serde_json::to_value(ka.key_id()).unwrap();
        let bogus = json!({"keyid": ka_id, "sig": "00".repeat(64)});
        v["signatures"].as_array_mut().unwrap().insert(0, bogus);
        let forged: in_toto::models::Metablock = serde_json::from_str(&v.to_string()).unwrap();
        write_link(d.path(), "a", ka.key_id(), &forged);
        let res = no_panic(|| in_toto_verify(&lay, owner_keys(&[&owner]), d.path().to_str().unwrap(), None));
        r.case("bogus-entry-names-other-functionary", json!({"threshold": 2, "authorised": ["key2", "key3"], "genuine_signer": "key3 only", "file a.<key2>.link": "key3's link + entry {keyid: key2, sig: 00..}"}),
               "Err", match &res { Ok(v) => verdict(v), Err(p) => format!("panic: {}", p) }, matches!(&res, Ok(v) if v.is_err()));
    }
    // threshold 0 still needs one authorised link
    {
        let d = tmpdir();
        write_link(d.path(), "a", ka.key_id(), &signed_link(&la, &[&ka]));
        let lay = mk_layout(1, 0);
        let res = no_panic(|| in_toto_verify(&lay, owner_keys(&[&owner]), d.path().to_str().unwrap(), None));
        let ok = matches!(&res, Ok(v) if v.is_err());
        r.case("threshold-0-step-without-link", json!({"b": "no link file, threshold 0"}), "Err",
               match &res { Ok(v) => verdict(v), Err(p) => format!("panic: {}", p) }, ok);
    }

    // functionary keys the library cannot check a signature for (unknown scheme), each with a junk and a genuine-looking
    // signature entry attributed to it: such a link was not validly signed by an authorised functionary
    {
        use in_toto::crypto::{PublicKey, SignatureScheme};
        let sources: Vec<(&str, &str, String)> = vec![("rsa spki, scheme rsa-pkcs1v15-sha256", "rsa/rsa-2048.spki.der", "rsa-pkcs1v15-sha256".into()),
            ("ed25519 spki, scheme x", "ed25519/ed25519-1.spki.der", "x".into()), ("ecdsa spki, scheme ecdsa-sha2-nistp384", "ecdsa/ec.spki.der", "ecdsa-sha2-nistp384".into())];
        for (what, file, scheme) in sources {
            let unk = match std::fs::read(format!("/repo/tests/{}", file)).ok().and_then(|d| PublicKey::from_spki(&d, SignatureScheme::Unknown(scheme.clone())).ok()) { Some(k) => k, None => continue };
            for sig in ["00".repeat(64), "00".repeat(256), "ab".repeat(32), { let g = signed_link(&la, &[&ka]); serde_json::to_value(&g.signatures[0]).unwrap()["sig"].as_str().unwrap().to_string() }] {
                let d = tmpdir();
                let mut mb = signed_link(&la, &[]);
                mb.signatures = vec![serde_json::from_value(json!({"keyid": serde_json::to_value(unk.key_id()).unwrap(), "sig": sig})).unwrap()];
                write_link(d.path(), "a", unk.key_id(), &mb);
                let st = in_toto::models::step::Step::new("a").threshold(1).add_key(unk.key_id().clone());
                let l = in_toto::models::LayoutMetadataBuilder::new().expires(chrono::Utc::now() + chrono::Duration::days(30)).add_step(st).add_key(unk.clone()).build().unwrap();
                let lay = signed_layout(&l, &[&owner]);
                let res = no_panic(|| in_toto_verify(&lay, owner_keys(&[&owner]), d.path().to_str().unwrap(), None));
                r.case("uncheckable-functionary-key", json!({"key": what, "signature_hex_len": sig.len()}), "Err",
                       match &res { Ok(v) => verdict(v), Err(p) => format!("panic: {}", p) }, matches!(&res, Ok(v) if v.is_err()));
            }
        }
    }
    // two functionaries whose key ids share their first eight characters (the part a link file is named after): found by a
    // birthday search over the free-text hash-algorithm label that is part of a key's description.  Authorisation goes by the
    // FULL id: the functionary of one step never counts for the other, whoever's link file name it fits
    {
        use std::collections::HashMap;
        use in_toto::crypto::PublicKey;
        let (k2, k3) = (key(2), key(3));
        let (raw2, raw3) = (k2.public().as_bytes().to_vec(), k3.public().as_bytes().to_vec());
        let variant = |raw: &Vec<u8>, label: String| PublicKey::from_ed25519_with_keyid_hash_algorithms(raw.clone(), Some(vec![label])).unwrap();
        let mut seen: HashMap<String, u32> = HashMap::new();
        let budget = 260_000u32;
        for i in 0..budget { seen.insert(variant(&raw2, format!("sha256-a{}", i)).key_id().prefix(), i); }
        let mut found: Option<(PublicKey, PublicKey)> = None;
        for j in 0..budget { let pb = variant(&raw3, format!("sha256-b{}", j)); if let Some(i) = seen.get(&pb.key_id().prefix()) { found = Some((variant(&raw2, format!("sha256-a{}", i)), pb)); break; } }
        match found {
            None => r.case("functionaries-sharing-a-short-id", json!({"labels_tried_per_key": budget}), "a pair of key descriptions with a common 8-character id prefix is found", "none found".into(), false),
            Some((pa, pb)) => {
                let relabel = |mb: &in_toto::models::Metablock, p: &PublicKey| -> serde_json::Value { let mut v = serde_json::to_value(mb).unwrap(); v["signatures"][0]["keyid"] = serde_json::to_value(p.key_id()).unwrap(); v };
                let st = |name: &str, p: &PublicKey| in_toto::models::step::Step::new(name).threshold(1).add_key(p.key_id().clone());
                let l = in_toto::models::LayoutMetadataBuilder::new().expires(chrono::Utc::now() + chrono::Duration::days(30))
                    .add_step(st("build", &pa)).add_step(st("test", &pb)).add_key(pa.clone()).add_key(pb.clone()).build().unwrap();
                let lay = signed_layout(&l, &[&owner]);
                let prefix = pa.key_id().prefix();
                for (id, build_signer, test_signer, expect) in [("each-step-by-its-own-functionary", 2usize, 3usize, true), ("build-signed-by-the-functionary-of-test", 3, 3, false), ("test-signed-by-the-functionary-of-build", 2, 2, false), ("both-swapped", 3, 2, false)] {
                    let d = tmpdir();
                    for (name, signer) in [("build", build_signer), ("test", test_signer)] {
                        let (sk, p) = if signer == 2 { (&k2, &pa) } else { (&k3, &pb) };
                        let mb = signed_link(&link(name, &[], &[("x", 1)]), &[sk]);
                        std::fs::write(d.path().join(format!("{}.{}.link", name, prefix)), relabel(&mb, p).to_string()).unwrap();
                    }
                    let res = no_panic(|| in_toto_verify(&lay, owner_keys(&[&owner]), d.path().to_str().unwrap(), None).is_ok());
                    r.case("functionaries-sharing-a-short-id", json!({"scenario": id, "shared_prefix": prefix, "ids_differ": pa.key_id() != pb.key_id()}), if expect { "Ok" } else { "Err" }, format!("{:?}", res), res == Ok(expect) && pa.key_id() != pb.key_id());
                }
            }
        }
    }
}

/// C02: a key id listed several times among a step's functionaries is one functionary
pub fn functionary_listed_twice(r: &mut Report) {
    let owner = key(1); let (ka, kb, kc) = (key(2), key(3), key(4));
    for (listed, listed_id) in [(vec![&ka, &ka], "a,a"), (vec![&ka, &ka, &kb], "a,a,b"), (vec![&ka, &kb, &ka], "a,b,a"), (vec![&ka, &ka, &ka], "a,a,a")] {
        for (delivered, delivered_id) in [(vec![&ka], "a"), (vec![&ka, &kc], "a + stranger"), (vec![&ka, &kb], "a + b"), (vec![&ka, &kb, &kc], "a + b + stranger")] {
            for threshold in [1u32, 2, 3] {
                let d = tmpdir();
                for k in &delivered { write_link(d.path(), "s", k.key_id(), &signed_link(&link("s", &[], &[("x", 1)]), &[k])); }
                let lay = signed_layout(&layout(vec![step("s", threshold, &listed, allow_all(), allow_all())], vec![], &[&ka, &kb, &kc], 30), &[&owner]);
                let res = no_panic(|| in_toto_verify(&lay, owner_keys(&[&owner]), d.path().to_str().unwrap(), None).is_ok());
                let distinct_authorised = ["a", "b"].iter().filter(|x| listed_id.contains(**x) && delivered_id.contains(**x)).count() as u32;
                let expect = distinct_authorised >= threshold;
                r.case("functionary-listed-twice-is-one-functionary", json!({"step_lists": listed_id, "links_delivered_by": delivered_id, "threshold": threshold}), if expect { "Ok" } else { "Err" }, format!("{:?}", res), res == Ok(expect));
            }
        }
    }
}

/// C02 / C12: a link counts for the functionary it is attributed to only if THAT functionary's key made a valid signature on it
pub fn attributed_signature_only(r: &mut Report) {
    let owner = key(1); let ka = key(2); let kb = key(3);
    let la = link("s", &[], &[("x", 1)]);
    for (shape, junk_kind) in [("b-entry-junk-then-a-genuine", "junk"), ("b-entry-copy-of-a's-signature-then-a-genuine", "copy"), ("a-genuine-then-b-entry-junk", "junk-last"), ("only-b-entry-copy-of-a's-signature", "copy-only")] {
        for threshold in [1u32, 2] { for a_also_delivers in [true, false] {
            let d = tmpdir();
            let genuine = signed_link(&la, &[&ka]);
            let g = serde_json::to_value(&genuine.signatures[0]).unwrap();
            let b_id = serde_json::to_value(kb.key_id()).unwrap();
            let b_entry = json!({"keyid": b_id, "sig": if junk_kind.starts_with("junk") { json!("00".repeat(64)) } else { g["sig"].clone() }});
            let mut v = serde_json::to_value(&genuine).unwrap();
            v["signatures"] = match junk_kind { "junk" | "copy" => json!([b_entry, g]), "junk-last" => json!([g, b_entry]), _ => json!([b_entry]) };
            std::fs::write(d.path().join(format!("s.{}.link", kb.key_id().prefix())), v.to_string()).unwrap();
            if a_also_delivers { write_link(d.path(), "s", ka.key_id(), &genuine); }
            let lay = signed_layout(&layout(vec![step("s", threshold, &[&ka, &kb], allow_all(), allow_all())], vec![], &[&ka, &kb], 30), &[&owner]);
            let res = no_panic(|| in_toto_verify(&lay, owner_keys(&[&owner]), d.path().to_str().unwrap(), None).is_ok());
            // only a's own link can count: enough for threshold 1 when a delivers it, never for threshold 2
            let expect = threshold == 1 && a_also_delivers;
            r.case("link-filed-for-b-that-only-a-signed", json!({"signatures_in_b's_file": shape, "threshold": threshold, "a_delivers_its_own_link": a_also_delivers}), if expect { "Ok" } else { "Err" }, format!("{:?}", res), res == Ok(expect));
        } }
    }
}

