//! C14 bounded robustness harness: systematic, deterministic mutations of valid inputs offered to every parser / importer /
//! verification entry point of the real crate.  Every call must return (a value or an error); a panic is a failure.
//! This is bounded evidence (stated bounds below), never counted as proof.
use crate::fixture::*;
use crate::util::{no_panic, scale, thorough};
use crate::Report;
use in_toto::crypto::{KeyId, PrivateKey, PublicKey, SignatureScheme, SignatureValue};
use in_toto::models::{Metablock, PredicateWrapper, StatementWrapper};
use in_toto::verifylib::in_toto_verify;
use serde_json::{json, Value};
use std::str::FromStr;

fn byte_mutations(data: &[u8], stride: usize) -> Vec<Vec<u8>> {
    let mut out = vec![];
    let mut n = 0;
    while n <= data.len() { out.push(data[..n].to_vec()); n += stride.max(1); }        // truncations
    let mut i = 0;
    while i < data.len() {
        for v in [0x00u8, 0xff, data[i] ^ 0x01, data[i].wrapping_add(1), 0x80, 0x30] {
            if v != data[i] { let mut d = data.to_vec(); d[i] = v; out.push(d); }
        }
        i += stride.max(1);
    }
    // length-field style damage: duplicate / drop a chunk
    if data.len() > 8 { let mut d = data.to_vec(); d.extend_from_slice(&data[..8]); out.push(d); out.push(data[4..].to_vec()); }
    out
}

fn json_paths(v: &Value, cur: &mut Vec<String>, out: &mut Vec<Vec<String>>) {
    out.push(cur.clone());
    match v {
        Value::Object(o) => for (k, x) in o { cur.push(k.clone()); json_paths(x, cur, out); cur.pop(); },
        Value::Array(a) => for (i, x) in a.iter().enumerate() { cur.push(i.to_string()); json_paths(x, cur, out); cur.pop(); },
        _ => {}
    }
}
fn set_path(doc: &mut Value, path: &[String], new: Option<Value>) {
    if path.is_empty() { if let Some(n) = new { *doc = n; } return; }
    let mut cur = doc;
    for k in &path[..path.len() - 1] {
        cur = match cur { Value::Object(o) => o.get_mut(k).unwrap(), Value::Array(a) => a.get_mut(k.parse::<usize>().unwrap()).unwrap(), _ => return };
    }
    let last = &path[path.len() - 1];
    match cur {
        Value::Object(o) => match new { Some(n) => { o.insert(last.clone(), n); } None => { o.remove(last); } },
        Value::Array(a) => { let i = last.parse::<usize>().unwrap(); match new { Some(n) => a[i] = n, None => { a.remove(i); } } },
        _ => {}
    }
}
/// every node of the document replaced by each type-confused value, and removed
fn json_mutations(doc: &Value) -> Vec<Value> {
    let mut paths = vec![];
    json_paths(doc, &mut vec![], &mut paths);
    let mut deep = json!([]);
    for _ in 0..200 { deep = json!([deep]); }
    let repl = vec![Value::Null, json!(true), json!(0), json!(-1), json!(1.5), json!(18446744073709551615u64), json!(""), json!("x"),
        json!("\u{0}\u{e9}\u{1F600}"), json!("a".repeat(64)), json!("\u{e9}".repeat(32)), json!([]), json!([null]), json!({}), json!({"": {}}), deep];
    let mut out = vec![];
    for p in paths.iter().filter(|p| !p.is_empty()) {
        for rv in &repl { let mut d = doc.clone(); set_path(&mut d, p, Some(rv.clone())); out.push(d); }
        let mut d = doc.clone(); set_path(&mut d, p, None); out.push(d);
    }
    out
}

pub fn run(r: &mut Report) {
    // ---- 1. key material: DER (SPKI, PKCS#8), PEM, hex ----
    let stride_pub = scale(3, 1);
    let stride_priv = scale(17, 3);
    let mut n = 0u64; let mut panics: Vec<String> = vec![];
    for (file, schemes) in [("ed25519/ed25519-1.spki.der", vec![SignatureScheme::Ed25519]), ("ecdsa/ec.spki.der", vec![SignatureScheme::EcdsaP256Sha256]),
                            ("rsa/rsa-2048.spki.der", vec![SignatureScheme::RsaSsaPssSha256, SignatureScheme::RsaSsaPssSha512, SignatureScheme::Ed25519])] {
        let der = std::fs::read(format!("/repo/tests/{}", file)).unwrap();
        for m in byte_mutations(&der, stride_pub) {
            for s in &schemes {
                n += 1;
                let s2 = s.clone();
                if let Err(p) = no_panic(|| PublicKey::from_spki(&m, s2).map(|k| { let _ = k.as_spki(); let _ = serde_json::to_string(&k); })) {
                    if panics.len() < 5 { panics.push(format!("from_spki {} {:02x?}: {}", file, &m[..m.len().min(24)], p)); }
                }
                let pem = pem::encode(&pem::Pem::new("PUBLIC KEY", m.clone()));
                n += 1;
                let s3 = s.clone();
                if let Err(p) = no_panic(|| PublicKey::from_pem_spki(&pem, s3).map(|_| ())) { if panics.len() < 5 { panics.push(format!("from_pem_spki {}: {}", file, p)); } }
            }
        }
    }
    // structure-aware: WELL-FORMED SubjectPublicKeyInfo documents assembled from parts - every supported algorithm identifier x key
    // payloads of every awkward size (an empty bit string, one octet, every leading octet, off-by-one lengths, non-zero unused-bits
    // count) - through the DER, the PEM and the JSON entry points
    {
        fn tlv(tag: u8, content: &[u8]) -> Vec<u8> {
            let mut out = vec![tag];
            let l = content.len();
            if l < 128 { out.push(l as u8) } else if l < 256 { out.extend([0x81, l as u8]) } else { out.extend([0x82, (l >> 8) as u8, l as u8]) }
            out.extend_from_slice(content); out
        }
        let algs: Vec<(&str, Vec<u8>)> = vec![
            ("ed25519", tlv(0x30, &tlv(0x06, &[0x2b, 0x65, 0x70]))),
            ("ec-p256", tlv(0x30, &[tlv(0x06, &[0x2a, 0x86, 0x48, 0xce, 0x3d, 0x02, 0x01]), tlv(0x06, &[0x2a, 0x86, 0x48, 0xce, 0x3d, 0x03, 0x01, 0x07])].concat())),
            ("ec-no-curve", tlv(0x30, &tlv(0x06, &[0x2a, 0x86, 0x48, 0xce, 0x3d, 0x02, 0x01]))),
            ("rsa", tlv(0x30, &[tlv(0x06, &[0x2a, 0x86, 0x48, 0x86, 0xf7, 0x0d, 0x01, 0x01, 0x01]), vec![0x05, 0x00]].concat())),
            ("rsa-no-null", tlv(0x30, &tlv(0x06, &[0x2a, 0x86, 0x48, 0x86, 0xf7, 0x0d, 0x01, 0x01, 0x01]))),
            ("unknown-oid", tlv(0x30, &tlv(0x06, &[0x2a, 0x03]))),
            ("empty-algorithm", tlv(0x30, &[])),
        ];
        let mut payloads: Vec<Vec<u8>> = vec![vec![], vec![0], vec![4], vec![0, 0], vec![0, 4], vec![7, 0x80]];
        for first in 0u16..=255 { let mut p = vec![0u8, first as u8]; p.extend(vec![0x11; 64]); payloads.push(p); }
        for len in [1usize, 2, 31, 32, 33, 63, 64, 65, 66, 127, 128, 129, 255, 256, 270] { let mut p = vec![0u8]; p.extend(vec![0x22; len]); payloads.push(p.clone()); p[0] = 3; payloads.push(p); }
        // an RSA-shaped payload (SEQUENCE of two INTEGERs) with degenerate numbers
        for (nn, ee) in [(vec![], vec![]), (vec![0], vec![0]), (vec![0x00, 0x80], vec![1, 0, 1]), (vec![0x80], vec![0x80]), (vec![0; 256], vec![3])] {
            let mut p = vec![0u8]; p.extend(tlv(0x30, &[tlv(0x02, &nn), tlv(0x02, &ee)].concat())); payloads.push(p);
        }
        for (an, alg) in &algs { for pl in &payloads {
            let doc = tlv(0x30, &[alg.clone(), tlv(0x03, pl)].concat());
            for s in [SignatureScheme::Ed25519, SignatureScheme::EcdsaP256Sha256, SignatureScheme::RsaSsaPssSha256] {
                n += 3;
                let (d2, s2) = (doc.clone(), s.clone());
                if let Err(p) = no_panic(|| PublicKey::from_spki(&d2, s2).map(|k| { let _ = k.as_spki(); let _ = serde_json::to_string(&k); let _ = k.verify(b"m", &serde_json::from_value(json!({"keyid": "00".repeat(32), "sig": "00".repeat(64)})).unwrap()); })) {
                    if panics.len() < 5 { panics.push(format!("from_spki well-formed {} payload {:02x?}: {}", an, &pl[..pl.len().min(8)], p)); } }
                let pem = pem::encode(&pem::Pem::new("PUBLIC KEY", doc.clone()));
                let (p2, s3) = (pem.clone(), s.clone());
                if let Err(p) = no_panic(|| PublicKey::from_pem_spki(&p2, s3).map(|_| ())) { if panics.len() < 5 { panics.push(format!("from_pem_spki well-formed {} payload {:02x?}: {}", an, &pl[..pl.len().min(8)], p)); } }
                let scheme_name = serde_json::to_value(&s).unwrap();
                for kt in ["rsa", "ecdsa", "ed25519"] {
                    let kj = json!({"keytype": kt, "scheme": scheme_name, "keyid_hash_algorithms": ["sha256", "sha512"], "keyval": {"public": pem, "private": ""}});
                    if let Err(p) = no_panic(|| serde_json::from_value::<PublicKey>(kj.clone()).map(|_| ())) { if panics.len() < 5 { panics.push(format!("PublicKey JSON ({}) with well-formed {} payload {:02x?}: {}", kt, an, &pl[..pl.len().min(8)], p)); } }
                }
            }
        } }
    }
    r.case("fuzz-public-key-der-pem", json!({"inputs": n, "mutations": "truncation, byte substitution, chunk duplication (stride); well-formed SubjectPublicKeyInfo assembled from every algorithm identifier x awkward key payloads", "stride": stride_pub}), "no panic", format!("{:?}", panics), panics.is_empty());
    let mut n = 0u64; let mut panics: Vec<String> = vec![];
    for file in ["ed25519/ed25519-1.pk8.der", "ecdsa/ec.pk8.der", "rsa/rsa-2048.pk8.der"] {
        let der = std::fs::read(format!("/repo/tests/{}", file)).unwrap();
        for m in byte_mutations(&der, stride_priv) {
            for s in [SignatureScheme::Ed25519, SignatureScheme::EcdsaP256Sha256, SignatureScheme::RsaSsaPssSha256] {
                n += 1;
                if let Err(p) = no_panic(|| PrivateKey::from_pkcs8(&m, s).map(|k| { let _ = k.sign(b"m"); })) { if panics.len() < 5 { panics.push(format!("from_pkcs8 {}: {}", file, p)); } }
            }
        }
    }
    for m in byte_mutations(&std::fs::read("/repo/tests/ed25519/ed25519-1").unwrap_or(vec![1; 64]), 1) {
        n += 1;
        if let Err(p) = no_panic(|| PrivateKey::from_ed25519(&m).map(|_| ())) { if panics.len() < 5 { panics.push(format!("from_ed25519: {}", p)); } }
        let _ = no_panic(|| PublicKey::from_ed25519(m.clone()).map(|_| ())).map_err(|p| panics.push(format!("PublicKey::from_ed25519: {}", p)));
        let _ = no_panic(|| PublicKey::from_ecdsa(m.clone()).map(|k| { let _ = k.as_spki(); })).map_err(|p| panics.push(format!("PublicKey::from_ecdsa: {}", p)));
    }
    r.case("fuzz-private-key-der", json!({"inputs": n, "stride": stride_priv}), "no panic", format!("{:?}", panics), panics.is_empty());
    let mut panics: Vec<String> = vec![]; let mut n = 0u64;
    for s in ["", "0", "zz", "abc", "00ff", "\u{e9}\u{e9}", &"f".repeat(63), &"f".repeat(64), &"f".repeat(65), &format!("{}\u{e9}", "f".repeat(62)), "0x00", " 00", "00 "] {
        n += 3;
        if let Err(p) = no_panic(|| SignatureValue::from_hex(s).map(|_| ())) { panics.push(format!("SignatureValue::from_hex {:?}: {}", s, p)); }
        if let Err(p) = no_panic(|| KeyId::from_str(s).map(|k| k.prefix())) { panics.push(format!("KeyId {:?}: {}", s, p)); }
        if let Err(p) = no_panic(|| serde_json::from_value::<KeyId>(json!(s)).map(|k| k.prefix())) { panics.push(format!("KeyId json {:?}: {}", s, p)); }
    }
    r.case("fuzz-hex-forms", json!({"inputs": n}), "no panic", format!("{:?}", panics), panics.is_empty());

    // ---- 2. signed JSON documents: every node type-confused or removed; parse, then verify whatever parses ----
    let owner = key(1);
    let ka = key(2);
    let l = layout(vec![step("a", 1, &[&ka], allow_all(), allow_all())], vec![], &[&ka], 30);
    let lay = signed_layout(&l, &[&owner]);
    let lnk = signed_link(&link("a", &[("m", 1)], &[("p", 2)]), &[&ka]);
    let mut docs: Vec<(&str, Value)> = vec![("layout", serde_json::to_value(&lay).unwrap()), ("link", serde_json::to_value(&lnk).unwrap())];
    for f in ["demo.layout", "demo.link"] {
        if let Ok(t) = std::fs::read_to_string(format!("/repo/tests/test_metadata/{}", f)) { if let Ok(v) = serde_json::from_str::<Value>(&t) { docs.push((if f.ends_with("layout") { "demo.layout" } else { "demo.link" }, v)); } }
    }
    let mut n = 0u64; let mut parsed_ok = 0u64; let mut panics: Vec<String> = vec![];
    for (name, doc) in &docs {
        let muts = json_mutations(doc);
        let step_by = if thorough() { 1 } else { 1 + muts.len() / 1500 };
        for (i, m) in muts.iter().enumerate() {
            if i % step_by != 0 { continue; }
            n += 1;
            let text = m.to_string();
            let res = no_panic(|| serde_json::from_str::<Metablock>(&text));
            match res {
                Err(p) => { if panics.len() < 5 { panics.push(format!("parse {}: {} :: {}", name, p, &text[..text.len().min(160)])); } }
                Ok(Ok(mb)) => {
                    parsed_ok += 1;
                    if let Err(p) = no_panic(|| { let _ = mb.verify(1, [owner.public(), ka.public()]); let _ = serde_json::to_string(&mb); }) {
                        if panics.len() < 5 { panics.push(format!("verify {}: {} :: {}", name, p, &text[..text.len().min(160)])); }
                    }
                    let d = tmpdir();
                    write_link(d.path(), "a", ka.key_id(), &lnk);
                    if let Err(p) = no_panic(|| { let _ = in_toto_verify(&mb, owner_keys(&[&owner]), d.path().to_str().unwrap(), None); }) {
                        if panics.len() < 5 { panics.push(format!("in_toto_verify {}: {} :: {}", name, p, &text[..text.len().min(160)])); }
                    }
                }
                Ok(Err(_)) => {}
            }
        }
    }
    r.case("fuzz-metadata-json", json!({"inputs": n, "accepted_by_parser": parsed_ok, "mutation": "each JSON node replaced by 16 type-confused values or removed"}), "no panic",
           format!("{:?}", panics), panics.is_empty() && n > 500);

    // ---- 3. the link directory: whatever files an attacker puts there ----
    let mut n = 0u64; let mut panics: Vec<String> = vec![];
    let link_doc = serde_json::to_value(&lnk).unwrap();
    let mut payloads: Vec<Vec<u8>> = vec![vec![], b"{".to_vec(), b"null".to_vec(), vec![0xff, 0xfe, 0x00], b"[]".to_vec(), serde_json::to_vec(&lay).unwrap()];
    let lm = json_mutations(&link_doc);
    let stepl = if thorough() { 1 } else { 1 + lm.len() / 300 };
    for (i, m) in lm.iter().enumerate() { if i % stepl == 0 { payloads.push(m.to_string().into_bytes()); } }
    for pl in &payloads {
        for fname in [format!("a.{}.link", ka.key_id().prefix()), "a.\u{e9}\u{e9}\u{e9}\u{e9}.link".to_string(), "a.zzzzzzzz.link".to_string(), "a..link.link".to_string()] {
            n += 1;
            let d = tmpdir();
            std::fs::write(d.path().join(&fname), pl).unwrap();
            if let Err(p) = no_panic(|| { let _ = in_toto_verify(&lay, owner_keys(&[&owner]), d.path().to_str().unwrap(), None); }) {
                if panics.len() < 5 { panics.push(format!("link dir file {:?}: {} :: {}", fname, p, String::from_utf8_lossy(&pl[..pl.len().min(120)]))); }
            }
        }
    }
    {   // file names: every name the step's glob can match - the 8-character field holds multi-byte characters, dots, blanks and
        // ".link" repeats at every position, for plain, multi-byte and dotted step names; content is a well-formed signed link
        let mut fields: Vec<String> = vec!["xxx.link".into(), ".link.li".into(), "........".into(), "        ".into(), "link.lin".into()];
        for sp in ['\u{e9}', '\u{20ac}', '\u{1f600}', '.', ' ', '\u{301}'] {
            for pos in 0..8 { let mut f: Vec<char> = "0123abcd".chars().collect(); f[pos] = sp; fields.push(f.into_iter().collect()); }
            fields.push(std::iter::repeat(sp).take(8).collect());
        }
        for sname in ["a", "\u{e9}t\u{e9}", "a.b", "x.link", "0123abcd"] {
            let lay_n = signed_layout(&layout(vec![step(sname, 1, &[&ka], allow_all(), allow_all())], vec![], &[&ka], 30), &[&owner]);
            let good = serde_json::to_vec(&signed_link(&link(sname, &[], &[("x", 1)]), &[&ka])).unwrap();
            for f in &fields {
                n += 1;
                let d = tmpdir();
                let fname = format!("{}.{}.link", sname, f);
                if std::fs::write(d.path().join(&fname), &good).is_err() { continue; }
                if let Err(p) = no_panic(|| { let _ = in_toto_verify(&lay_n, owner_keys(&[&owner]), d.path().to_str().unwrap(), None); }) {
                    if panics.len() < 5 { panics.push(format!("link dir file name {:?}: {}", fname, p)); }
                }
            }
        }
    }
    {   // a directory where a link file is expected, and a sub-layout without its directory
        let d = tmpdir();
        std::fs::create_dir_all(d.path().join(format!("a.{}.link", ka.key_id().prefix()))).unwrap();
        n += 1;
        if let Err(p) = no_panic(|| { let _ = in_toto_verify(&lay, owner_keys(&[&owner]), d.path().to_str().unwrap(), None); }) { panics.push(format!("directory as link file: {}", p)); }
        let d = tmpdir();
        let sub = signed_layout(&layout(vec![step("inner", 1, &[&ka], allow_all(), allow_all())], vec![], &[&ka], 30), &[&ka]);
        write_link(d.path(), "a", ka.key_id(), &sub);
        n += 1;
        if let Err(p) = no_panic(|| { let _ = in_toto_verify(&lay, owner_keys(&[&owner]), d.path().to_str().unwrap(), None); }) { panics.push(format!("sub-layout without directory: {}", p)); }
    }
    r.case("fuzz-link-directory", json!({"inputs": n}), "no panic", format!("{:?}", panics), panics.is_empty());
    // a multi-party step (three functionaries, every listing order, thresholds 1..3) with every subset of their links present,
    // agreeing or with one dissenter: a verdict, and the right one
    {
        let ks = [key(2), key(3), key(4)];
        let mut bad4: Vec<String> = vec![]; let mut n4 = 0;
        for order in [[0usize, 1, 2], [2, 1, 0], [1, 2, 0]] { for threshold in 1u32..=3 { for present in 1u32..8 { for dissenter in [None, Some(0usize), Some(2)] {
            n4 += 1;
            let d = tmpdir();
            let listed: Vec<&in_toto::crypto::PrivateKey> = order.iter().map(|i| &ks[*i]).collect();
            let mut delivered = vec![];
            for i in 0..3 { if present & (1 << i) != 0 { let prod = if dissenter == Some(i) { 9 } else { 1 }; delivered.push((i, prod));
                let lm = in_toto::models::LinkMetadataBuilder::new().name("a".into()).products(artifacts(&[("x", prod)])).byproducts(in_toto::models::byproducts::ByProducts::new().set_return_value(if dissenter == Some(i) { 2 } else { 0 })).build().unwrap();
                write_link(d.path(), "a", ks[i].key_id(), &signed_link(&lm, &[&ks[i]])); } }
            let lay = signed_layout(&layout(vec![step("a", threshold, &listed, allow_all(), allow_all())], vec![], &listed, 30), &[&owner]);
            let res = no_panic(|| in_toto_verify(&lay, owner_keys(&[&owner]), d.path().to_str().unwrap(), None).is_ok());
            let all_agree = delivered.iter().all(|(_, p)| *p == delivered[0].1);
            // enough links, and (for a multi-party step) no dissent among them; threshold 1 needs no agreement
            let expect = delivered.len() as u32 >= threshold && (threshold < 2 || all_agree);
            if res != Ok(expect) && bad4.len() < 6 { bad4.push(format!("listed {:?} threshold {} delivered {:?}: {:?}, expected {}", order, threshold, delivered, res, expect)); }
        } } } }
        r.case("which-functionaries-delivered", json!({"inputs": n4}), "the right verdict from every combination (no panic)", format!("{:?}", bad4), bad4.is_empty());
    }
    // every shape of layout (no steps, inspections only, steps only, both; as root and as a delegated sub-layout): a verdict, no panic
    {
        let mut panics3: Vec<String> = vec![]; let mut n3 = 0;
        let _g = crate::c08::CWD_LOCK.lock().unwrap();
        for n_steps in 0..3usize { for n_insp in 0..3usize { for nested in [false, true] {
            n3 += 1;
            let d = tmpdir(); let work = tmpdir();
            let insps: Vec<in_toto::models::inspection::Inspection> = (0..n_insp).map(|i| in_toto::models::inspection::Inspection::new(&format!("i{}", i)).run(cmd(&["true"])).expected_materials(allow_all()).expected_products(allow_all())).collect();
            let names: Vec<String> = (0..n_steps).map(|i| format!("s{}", i)).collect();
            let steps: Vec<in_toto::models::step::Step> = names.iter().map(|nm| step(nm, 1, &[&ka], allow_all(), allow_all())).collect();
            let inner = layout(steps, insps, &[&ka], 30);
            let top = if nested {
                let sd = d.path().join(format!("a.{}", ka.key_id().prefix()));
                std::fs::create_dir_all(&sd).unwrap();
                for nm in &names { write_link(&sd, nm, ka.key_id(), &signed_link(&link(nm, &[], &[("x", 1)]), &[&ka])); }
                write_link(d.path(), "a", ka.key_id(), &signed_layout(&inner, &[&ka]));
                signed_layout(&layout(vec![step("a", 1, &[&ka], allow_all(), allow_all())], vec![], &[&ka], 30), &[&owner])
            } else {
                for nm in &names { write_link(d.path(), nm, ka.key_id(), &signed_link(&link(nm, &[], &[("x", 1)]), &[&ka])); }
                signed_layout(&inner, &[&owner])
            };
            let old = std::env::current_dir().unwrap();
            std::env::set_current_dir(work.path()).unwrap();
            let res = no_panic(|| in_toto_verify(&top, owner_keys(&[&owner]), d.path().to_str().unwrap(), None).is_ok());
            std::env::set_current_dir(old).unwrap();
            match res { Ok(true) => {}, Ok(false) => { if panics3.len() < 5 { panics3.push(format!("steps={} inspections={} nested={}: a healthy layout was rejected", n_steps, n_insp, nested)); } }
                        Err(p) => { if panics3.len() < 5 { panics3.push(format!("steps={} inspections={} nested={}: {}", n_steps, n_insp, nested, p)); } } }
        } } }
        r.case("every-layout-shape", json!({"inputs": n3}), "Ok from every healthy layout shape (no panic)", format!("{:?}", panics3), panics3.is_empty());
    }
    // recorded commands shorter than, equal to, longer than and different from the expected command (the comparison only warns)
    {
        let mut n2 = 0; let mut panics2: Vec<String> = vec![];
        let exp_cmds: Vec<Vec<&str>> = vec![vec![], vec!["tar"], vec!["tar", "zcvf", "out.tgz", "src"]];
        let rec_cmds: Vec<Vec<&str>> = vec![vec![], vec!["tar"], vec!["tar", "zcvf"], vec!["tar", "zcvf", "out.tgz"], vec!["tar", "zcvf", "out.tgz", "src"], vec!["tar", "zcvf", "out.tgz", "src", "extra"], vec!["gzip"], vec!["tar", "xf", "out.tgz", "src"]];
        for e in &exp_cmds { for c in &rec_cmds {
            n2 += 1;
            let d = tmpdir();
            let st = in_toto::models::step::Step::new("a").threshold(1).add_key(ka.key_id().clone()).expected_command(cmd(e));
            let l = in_toto::models::LayoutMetadataBuilder::new().expires(chrono::Utc::now() + chrono::Duration::days(3)).add_step(st).add_key(ka.public().clone()).build().unwrap();
            let lm = in_toto::models::LinkMetadataBuilder::new().name("a".into()).command(cmd(c)).build().unwrap();
            write_link(d.path(), "a", ka.key_id(), &signed_link(&lm, &[&ka]));
            let layn = signed_layout(&l, &[&owner]);
            match no_panic(|| in_toto_verify(&layn, owner_keys(&[&owner]), d.path().to_str().unwrap(), None).is_ok()) {
                Ok(true) => {}, Ok(false) => { if panics2.len() < 5 { panics2.push(format!("expected {:?} recorded {:?}: verification failed (the command check only warns)", e, c)); } }
                Err(p) => { if panics2.len() < 5 { panics2.push(format!("expected {:?} recorded {:?}: {}", e, c, p)); } }
            }
        } }
        r.case("expected-vs-recorded-command-lengths", json!({"inputs": n2}), "Ok from every call (a command mismatch is a warning, never a panic or a failure)", format!("{:?}", panics2), panics2.is_empty());
    }
    // delegations that name themselves (the sub-layout's only step is the delegated step again, same functionary), with and without
    // the dedicated sub-directory: verification must come back with a verdict.  Run in a child process, because the failure mode is
    // unbounded recursion (a stack overflow aborts the process and cannot be caught)
    {
        let out = std::process::Command::new(std::env::current_exe().unwrap()).arg("_SELF_DELEGATION").output();
        let (ok, obs) = match out { Ok(o) => (o.status.success(), format!("status {:?}; {}", o.status, String::from_utf8_lossy(&o.stderr).chars().take(200).collect::<String>())), Err(e) => (false, format!("cannot start child: {}", e)) };
        r.case("self-naming-delegation-terminates", json!({"scenarios": 4}), "a verdict (child process exits normally)", obs, ok);
    }

    // ---- 4. attestation statements and predicates ----
    let mut n = 0u64; let mut panics: Vec<String> = vec![];
    let st_naive = json!({"_type": "link", "name": "n", "materials": {}, "products": {"p": {"sha256": "00"}}, "command": ["x"], "byproducts": {"return-value": 0, "stdout": "", "stderr": ""}, "env": null});
    let st_v01 = json!({"_type": "https://in-toto.io/Statement/v0.1", "subject": [{"name": "p", "digest": {"sha256": "00"}}], "predicateType": "https://in-toto.io/Link/v0.2",
        "predicate": {"name": "n", "materials": {}, "command": [], "byproducts": {"return-value": 0, "stdout": "", "stderr": ""}, "env": null}});
    let pr = json!({"builder": {"id": "b"}, "buildType": "t", "invocation": {"configSource": {"uri": "u", "digest": {"sha1": "ab"}, "entryPoint": "e"}}, "metadata": {"completeness": {"materials": true}, "reproducible": false}, "materials": [{"uri": "u", "digest": {"sha256": "00"}}]});
    for doc in [&st_naive, &st_v01] {
        for m in json_mutations(doc) {
            n += 1;
            let t = m.to_string();
            if let Err(p) = no_panic(|| serde_json::from_str::<StatementWrapper>(&t).map(|s| { let _ = serde_json::to_string(&s); })) { if panics.len() < 5 { panics.push(format!("statement: {} :: {}", p, &t[..t.len().min(160)])); } }
        }
    }
    for m in json_mutations(&pr) {
        n += 1;
        let t = m.to_string();
        if let Err(p) = no_panic(|| serde_json::from_str::<PredicateWrapper>(&t).map(|s| { let _ = serde_json::to_string(&s); })) { if panics.len() < 5 { panics.push(format!("predicate: {} :: {}", p, &t[..t.len().min(160)])); } }
    }
    r.case("fuzz-attestations", json!({"inputs": n}), "no panic", format!("{:?}", panics), panics.is_empty());
}

/// child-process body of `self-naming-delegation-terminates`
pub fn self_delegation_child() {
    let owner = key(1); let ka = key(2);
    for (with_dir, depth_chain) in [(false, false), (true, false), (false, true), (true, true)] {
        let d = tmpdir();
        let inner_name = if depth_chain { "b" } else { "a" };
        let sub = signed_layout(&layout(vec![step(inner_name, 1, &[&ka], allow_all(), allow_all())], vec![], &[&ka], 30), &[&ka]);
        write_link(d.path(), "a", ka.key_id(), &sub);
        if depth_chain { write_link(d.path(), "b", ka.key_id(), &signed_layout(&layout(vec![step("a", 1, &[&ka], allow_all(), allow_all())], vec![], &[&ka], 30), &[&ka])); }
        if with_dir {
            let sd = d.path().join(format!("a.{}", ka.key_id().prefix()));
            std::fs::create_dir_all(&sd).unwrap();
            write_link(&sd, inner_name, ka.key_id(), &sub);       // the sub-directory again holds a delegation, without a directory of its own
        }
        let lay = signed_layout(&layout(vec![step("a", 1, &[&ka], allow_all(), allow_all())], vec![], &[&ka], 30), &[&owner]);
        let _ = no_panic(|| in_toto_verify(&lay, owner_keys(&[&owner]), d.path().to_str().unwrap(), None));
    }
}
