//! C15 witnesses: sub-layouts are verified as strictly as the top level; summary link content.
use crate::fixture::*;
use crate::util::no_panic;
use crate::Report;
use in_toto::models::{Metablock, MetadataWrapper};
use in_toto::verifylib::in_toto_verify;
use serde_json::json;

fn summary_name(r: &in_toto::Result<Metablock>) -> String {
    match r { Ok(mb) => match &mb.metadata { MetadataWrapper::Link(l) => format!("Ok(name={:?})", l.name), _ => "Ok(layout)".into() }, Err(e) => format!("Err({})", e) }
}

pub fn run(r: &mut Report) {
    surplus_failing_sublayout(r);
    let owner = key(1);
    // summary name, with and without steps
    {
        let d = tmpdir();
        let l = layout(vec![], vec![], &[], 30);
        let lay = signed_layout(&l, &[&owner]);
        let res = no_panic(|| in_toto_verify(&lay, owner_keys(&[&owner]), d.path().to_str().unwrap(), Some("delegated")));
        let ok = matches!(&res, Ok(Ok(mb)) if matches!(&mb.metadata, MetadataWrapper::Link(l) if l.name == "delegated"));
        r.case("summary-name-empty-layout", json!({"steps": 0, "step_name": "delegated"}), "Ok(name=\"delegated\")",
               match &res { Ok(v) => summary_name(v), Err(p) => format!("panic: {}", p) }, ok);
    }
    let ka = key(2);
    let kb = key(3);
    let kc = key(4);
    {
        let d = tmpdir();
        write_link(d.path(), "a", ka.key_id(), &signed_link(&link("a", &[("m", 1)], &[("x", 2)]), &[&ka]));
        write_link(d.path(), "b", kb.key_id(), &signed_link(&link("b", &[("x", 2)], &[("y", 3)]), &[&kb]));
        let l = layout(vec![step("a", 1, &[&ka], allow_all(), allow_all()), step("b", 1, &[&kb], allow_all(), allow_all())], vec![], &[&ka, &kb], 30);
        let lay = signed_layout(&l, &[&owner]);
        let res = no_panic(|| in_toto_verify(&lay, owner_keys(&[&owner]), d.path().to_str().unwrap(), Some("top")));
        let ok = matches!(&res, Ok(Ok(mb)) if matches!(&mb.metadata, MetadataWrapper::Link(l)
            if l.name == "top" && l.materials.keys().map(|k| k.value().to_string()).collect::<Vec<_>>() == vec!["m".to_string()]
               && l.products.keys().map(|k| k.value().to_string()).collect::<Vec<_>>() == vec!["y".to_string()]));
        r.case("summary-first-materials-last-products", json!({"steps": ["a","b"]}), "name top, materials [m], products [y]",
               match &res { Ok(v) => format!("{} {}", summary_name(v), verdict(v)), Err(p) => format!("panic: {}", p) }, ok);
    }
    // every field of the summary: materials of the FIRST step, products / byproducts / command of the LAST step (3 steps, all different),
    // for step names in and out of alphabetical order ("first" and "last" are positions in the layout, not in the alphabet)
    for names in [["a", "b", "c"], ["zeta", "mid", "alpha"], ["b", "c", "a"], ["2", "10", "1"]] {
        use in_toto::models::{byproducts::ByProducts, LinkMetadataBuilder};
        let d = tmpdir();
        let mk = |name: &str, m: (&str, u8), p: (&str, u8), c: &str, out: &str| LinkMetadataBuilder::new().name(name.to_string())
            .materials(artifacts(&[m])).products(artifacts(&[p])).command(cmd(&[c, name]))
            .byproducts(ByProducts::new().set_stdout(out.to_string()).set_stderr(String::new()).set_return_value(0).set_other_field("extra".into(), out.to_string()))
            .env(Some([("RECORDED_BY".to_string(), name.to_string())].into_iter().collect())).build().unwrap();
        let (n0, n1, n2) = (names[0], names[1], names[2]);
        write_link(d.path(), n0, ka.key_id(), &signed_link(&mk(n0, ("m", 1), ("x", 2), "fetch", "out-first"), &[&ka]));
        write_link(d.path(), n1, kb.key_id(), &signed_link(&mk(n1, ("x", 2), ("y", 3), "build", "out-middle"), &[&kb]));
        write_link(d.path(), n2, kc.key_id(), &signed_link(&mk(n2, ("y", 3), ("z", 4), "pack", "out-last"), &[&kc]));
        let l = layout(vec![step(n0, 1, &[&ka], allow_all(), allow_all()), step(n1, 1, &[&kb], allow_all(), allow_all()), step(n2, 1, &[&kc], allow_all(), allow_all())], vec![], &[&ka, &kb, &kc], 30);
        let lay = signed_layout(&l, &[&owner]);
        let res = no_panic(|| in_toto_verify(&lay, owner_keys(&[&owner]), d.path().to_str().unwrap(), Some("top")));
        let obs = match &res {
            Ok(Ok(mb)) => match &mb.metadata { MetadataWrapper::Link(l) => format!("name={} materials={:?} products={:?} command={:?} stdout={:?}", l.name,
                l.materials.keys().map(|k| k.value().to_string()).collect::<Vec<_>>(), l.products.keys().map(|k| k.value().to_string()).collect::<Vec<_>>(),
                l.command, l.byproducts.stdout()), _ => "Ok(layout)".into() },
            Ok(Err(e)) => format!("Err({})", e), Err(p) => format!("panic: {}", p) };
        let exp = format!("name=top materials=[\"m\"] products=[\"z\"] command={:?} stdout={:?}", cmd(&["pack", n2]), Some("out-last".to_string()));
        r.case("summary-all-fields-three-steps", json!({"steps": names}), &exp, obs.clone(), obs == exp);
        // .. and nothing else: the summary equals, as a value, a link built from exactly those parts (no environment, no other member
        // of any step finds its way in)
        let last = mk(n2, ("y", 3), ("z", 4), "pack", "out-last");
        let first = mk(n0, ("m", 1), ("x", 2), "fetch", "out-first");
        let want = LinkMetadataBuilder::new().name("top".to_string()).materials(first.materials.clone()).products(last.products.clone()).byproducts(last.byproducts.clone()).command(last.command.clone()).build().unwrap();
        let same = matches!(&res, Ok(Ok(mb)) if matches!(&mb.metadata, MetadataWrapper::Link(l) if *l == want));
        r.case("summary-is-exactly-its-parts", json!({"steps": names}), &serde_json::to_string(&want).unwrap_or_default(),
               match &res { Ok(Ok(mb)) => serde_json::to_string(&mb.metadata).unwrap_or_default(), other => format!("{:?}", other.as_ref().map(|x| x.as_ref().map(|_| ()).map_err(|e| e.to_string()))) }, same);
    }
    // delegation: step "a" of the parent is satisfied by a sub-layout signed by ka, with inner links in <dir>/a.<prefix(ka)>/
    #[derive(Clone, Copy, Debug)]
    enum Fault { None, InnerLinksInParentDir, SubSignedByOther, SubExpired, SubExpiredCenturiesAgo, SubExpiredMillenniaAgo, InnerUnauthorised, InnerMissing }
    for f in [Fault::None, Fault::InnerLinksInParentDir, Fault::SubSignedByOther, Fault::SubExpired, Fault::SubExpiredCenturiesAgo, Fault::SubExpiredMillenniaAgo, Fault::InnerUnauthorised, Fault::InnerMissing] {
        let d = tmpdir();
        let inner_signer = if let Fault::InnerUnauthorised = f { &kc } else { &kb };
        let sub = layout(vec![step("inner", 1, &[&kb], allow_all(), allow_all())], vec![], &[&kb], match f { Fault::SubExpired => -1, Fault::SubExpiredCenturiesAgo => -365 * 400, Fault::SubExpiredMillenniaAgo => -365 * 2020, _ => 30 });
        let sub_signer = if let Fault::SubSignedByOther = f { &kc } else { &ka };
        let sub_mb = signed_layout(&sub, &[sub_signer]);
        // the sub-layout is filed as the link of step a under ka's prefix
        write_link(d.path(), "a", ka.key_id(), &sub_mb);
        let subdir = d.path().join(format!("a.{}", ka.key_id().prefix()));
        std::fs::create_dir_all(&subdir).unwrap();
        let inner_link = signed_link(&link("inner", &[], &[("z", 7)]), &[inner_signer]);
        match f {
            Fault::InnerMissing => {}
            Fault::InnerLinksInParentDir => write_link(d.path(), "inner", inner_signer.key_id(), &inner_link),
            _ => write_link(&subdir, "inner", inner_signer.key_id(), &inner_link),
        }
        let parent = layout(vec![step("a", 1, &[&ka], allow_all(), allow_all())], vec![], &[&ka, &kc], 30);
        let lay = signed_layout(&parent, &[&owner]);
        let res = no_panic(|| in_toto_verify(&lay, owner_keys(&[&owner]), d.path().to_str().unwrap(), None));
        let expect = matches!(f, Fault::None);
        r.case("delegation", json!({"fault": format!("{:?}", f)}), if expect { "Ok" } else { "Err" },
               match &res { Ok(v) => verdict(v), Err(p) => format!("panic: {}", p) }, matches!(&res, Ok(v) if v.is_ok() == expect));
    }

    // the dedicated sub-directory is the ONLY place inner links are read from: when it is absent, a regular file or a dangling link,
    // inner links lying in the parent directory (or anywhere else) do not count
    for state in ["absent", "regular-file", "dangling-symlink", "empty-directory"] { for inner_elsewhere in ["parent-directory", "nowhere"] {
        let d = tmpdir();
        let sub = layout(vec![step("inner", 1, &[&kb], allow_all(), allow_all())], vec![], &[&kb], 30);
        write_link(d.path(), "a", ka.key_id(), &signed_layout(&sub, &[&ka]));
        let subdir = d.path().join(format!("a.{}", ka.key_id().prefix()));
        match state { "regular-file" => std::fs::write(&subdir, b"x").unwrap(), "dangling-symlink" => std::os::unix::fs::symlink("does-not-exist", &subdir).unwrap(),
            "empty-directory" => std::fs::create_dir_all(&subdir).unwrap(), _ => {} }
        if inner_elsewhere == "parent-directory" { write_link(d.path(), "inner", kb.key_id(), &signed_link(&link("inner", &[], &[("z", 7)]), &[&kb])); }
        let lay = signed_layout(&layout(vec![step("a", 1, &[&ka], allow_all(), allow_all())], vec![], &[&ka, &kc], 30), &[&owner]);
        let res = no_panic(|| in_toto_verify(&lay, owner_keys(&[&owner]), d.path().to_str().unwrap(), None));
        r.case("delegation-without-a-usable-sub-directory", json!({"dedicated_sub_directory": state, "inner_links_in": inner_elsewhere}), "Err",
               match &res { Ok(v) => verdict(v), Err(p) => format!("panic: {}", p) }, matches!(&res, Ok(v) if v.is_err()));
    } }

    // the dedicated sub-directory is named "<step name>.<key id prefix>" whatever the step name looks like
    for sname in ["package.rpm", "a.b.c", "with space", "\u{e9}tape", ".hidden", "trailing.", "a"] {
        for place in ["own-directory", "name-with-last-extension-replaced", "name-without-prefix", "prefix-only"] {
            let d = tmpdir();
            let sub = layout(vec![step("inner", 1, &[&kb], allow_all(), allow_all())], vec![], &[&kb], 30);
            write_link(d.path(), sname, ka.key_id(), &signed_layout(&sub, &[&ka]));
            let pre = ka.key_id().prefix();
            let dirname = match place { "own-directory" => format!("{}.{}", sname, pre),
                "name-with-last-extension-replaced" => match sname.rfind('.') { Some(i) if i > 0 => format!("{}.{}", &sname[..i], pre), _ => format!("{}x.{}", sname, pre) },
                "name-without-prefix" => sname.to_string(), _ => pre.clone() };
            let expect = dirname == format!("{}.{}", sname, pre);
            let subdir = d.path().join(&dirname);
            if subdir.exists() { continue; }      // the name collides with the evidence file itself
            std::fs::create_dir_all(&subdir).unwrap();
            write_link(&subdir, "inner", kb.key_id(), &signed_link(&link("inner", &[], &[("z", 7)]), &[&kb]));
            let parent = layout(vec![step(sname, 1, &[&ka], allow_all(), allow_all())], vec![], &[&ka], 30);
            let lay = signed_layout(&parent, &[&owner]);
            let res = no_panic(|| in_toto_verify(&lay, owner_keys(&[&owner]), d.path().to_str().unwrap(), None));
            r.case("delegation-directory-name", json!({"step": sname, "inner_links_in": dirname}), if expect { "Ok" } else { "Err" },
                   match &res { Ok(v) => verdict(v), Err(p) => format!("panic: {}", p) }, matches!(&res, Ok(v) if v.is_ok() == expect));
        }
    }
    // inner step names that look like paths or globs never let a link from OUTSIDE the dedicated sub-directory count for the sub-layout
    for inner_name in ["../package", "../a", "./inner", "sub/inner", "x/../inner", "*", "inn?r", "inner.link", "..", "a.b"] {
        for place in ["own-directory", "parent-directory"] {
            let d = tmpdir();
            let sub = layout(vec![step(inner_name, 1, &[&kb], allow_all(), allow_all())], vec![], &[&kb], 30);
            write_link(d.path(), "a", ka.key_id(), &signed_layout(&sub, &[&ka]));
            let subdir = d.path().join(format!("a.{}", ka.key_id().prefix()));
            std::fs::create_dir_all(&subdir).unwrap();
            let inner_link = signed_link(&link(inner_name, &[], &[("z", 7)]), &[&kb]);
            // file the inner link under its base name (what a path-like step name globs for) in the chosen directory
            let base = inner_name.rsplit('/').next().unwrap_or(inner_name);
            let target_dir = if place == "own-directory" { subdir.clone() } else { d.path().to_path_buf() };
            let fname = format!("{}.{}.link", if base.is_empty() || base == ".." || base == "*" || base == "inn?r" { "inner" } else { base }, kb.key_id().prefix());
            let _ = std::fs::write(target_dir.join(&fname), serde_json::to_vec(&inner_link).unwrap());
            let parent = layout(vec![step("a", 1, &[&ka], allow_all(), allow_all())], vec![], &[&ka], 30);
            let lay = signed_layout(&parent, &[&owner]);
            let res = no_panic(|| in_toto_verify(&lay, owner_keys(&[&owner]), d.path().to_str().unwrap(), None));
            if place == "parent-directory" {
                r.case("inner-step-name-cannot-reach-outside", json!({"inner_step": inner_name, "inner_link_file": format!("<link dir>/{}", fname)}), "Err (nothing in the dedicated sub-directory)",
                       match &res { Ok(v) => verdict(v), Err(p) => format!("panic: {}", p) }, matches!(&res, Ok(v) if v.is_err()));
            } else if let Err(p) = &res {
                r.case("inner-step-name-cannot-reach-outside", json!({"inner_step": inner_name, "inner_link_file": format!("<sub dir>/{}", fname)}), "a verdict", format!("panic: {}", p), false);
            }
        }
    }
    // several functionaries of one step file the SAME delegated layout (threshold 2): each one's own sub-directory must pass on its own
    #[derive(Clone, Copy, Debug)]
    enum Second { Complete, InnerMissing, InnerUnauthorised, InnerInParentDir, InnerOnlyInFirstDir, InnerFailsRule, InnerDissent, Expired }
    for which in [0usize, 1] {
        for f in [Second::Complete, Second::InnerMissing, Second::InnerUnauthorised, Second::InnerInParentDir, Second::InnerOnlyInFirstDir, Second::InnerFailsRule, Second::InnerDissent, Second::Expired] {
            let d = tmpdir();
            let inner_rule = vec![in_toto::models::rule::ArtifactRule::Create("z".into()), in_toto::models::rule::ArtifactRule::Disallow("*".into())];
            let sub = layout(vec![step("inner", 1, &[&kb], allow_all(), inner_rule.clone())], vec![], &[&kb], 30);
            // (C06) the faulty functionary's copy of the delegated layout expired yesterday, everything else about it is in order
            let sub_expired = layout(vec![step("inner", 1, &[&kb], allow_all(), inner_rule)], vec![], &[&kb], -1);
            let filers = [&ka, &kc];
            for (i, k) in filers.iter().enumerate() {
                let sub_mb = signed_layout(if i == which && matches!(f, Second::Expired) { &sub_expired } else { &sub }, &[k]);
                write_link(d.path(), "a", k.key_id(), &sub_mb);
                let subdir = d.path().join(format!("a.{}", k.key_id().prefix()));
                std::fs::create_dir_all(&subdir).unwrap();
                let faulty = i == which;
                let good = signed_link(&link("inner", &[], &[("z", 7)]), &[&kb]);
                match (faulty, f) {
                    (false, _) | (true, Second::Complete) | (true, Second::Expired) => write_link(&subdir, "inner", kb.key_id(), &good),
                    (true, Second::InnerMissing) | (true, Second::InnerOnlyInFirstDir) => {}
                    (true, Second::InnerUnauthorised) => write_link(&subdir, "inner", kc.key_id(), &signed_link(&link("inner", &[], &[("z", 7)]), &[&kc])),
                    (true, Second::InnerInParentDir) => write_link(d.path(), "inner", kb.key_id(), &good),
                    // rule-conforming evidence that differs from the other functionary's: the two summaries disagree (C07)
                    (true, Second::InnerDissent) => write_link(&subdir, "inner", kb.key_id(), &signed_link(&link("inner", &[], &[("z", 9)]), &[&kb])),
                    (true, Second::InnerFailsRule) => write_link(&subdir, "inner", kb.key_id(), &signed_link(&link("inner", &[], &[("z", 7), ("stray", 8)]), &[&kb])),
                }
            }
            let parent = layout(vec![step("a", 2, &[&ka, &kc], allow_all(), allow_all())], vec![], &[&ka, &kc], 30);
            let lay = signed_layout(&parent, &[&owner]);
            let res = no_panic(|| in_toto_verify(&lay, owner_keys(&[&owner]), d.path().to_str().unwrap(), None));
            let expect = matches!(f, Second::Complete);
            r.case("delegation-same-sublayout-threshold-2", json!({"faulty_functionary": which, "fault": format!("{:?}", f)}), if expect { "Ok" } else { "Err" },
                   match &res { Ok(v) => verdict(v), Err(p) => format!("panic: {}", p) }, matches!(&res, Ok(v) if v.is_ok() == expect));
        }
    }
}

/// C15 / C08: a step with MORE evidence than its threshold needs, one piece of which is a sub-layout that does not verify: the failing
/// delegation is fatal (it is not dropped like a badly signed link), and no inspection of the parent runs
pub fn surplus_failing_sublayout(r: &mut Report) {
    use in_toto::models::inspection::Inspection;
    let owner = key(1); let (ka, kb, kc) = (key(2), key(3), key(4));
    for fault in ["inner-link-missing", "inner-link-unauthorised", "sub-layout-expired", "inner-inspection-fails", "none"] {
        let _g = crate::c08::CWD_LOCK.lock().unwrap();
        let d = tmpdir(); let work = tmpdir();
        // ka: a plain, valid link; kc: a delegation
        write_link(d.path(), "a", ka.key_id(), &signed_link(&link("a", &[], &[("z", 7)]), &[&ka]));
        let inner_insp = if fault == "inner-inspection-fails" { vec![Inspection::new("inner-check").run(cmd(&["false"])).expected_materials(allow_all()).expected_products(allow_all())] } else { vec![] };
        let sub = layout(vec![step("inner", 1, &[&kb], allow_all(), allow_all())], inner_insp, &[&kb], if fault == "sub-layout-expired" { -1 } else { 30 });
        write_link(d.path(), "a", kc.key_id(), &signed_layout(&sub, &[&kc]));
        let subdir = d.path().join(format!("a.{}", kc.key_id().prefix()));
        std::fs::create_dir_all(&subdir).unwrap();
        match fault { "inner-link-missing" => {},
            "inner-link-unauthorised" => write_link(&subdir, "inner", ka.key_id(), &signed_link(&link("inner", &[], &[("z", 7)]), &[&ka])),
            _ => write_link(&subdir, "inner", kb.key_id(), &signed_link(&link("inner", &[], &[("z", 7)]), &[&kb])) }
        let marker = Inspection::new("root-check").run(cmd(&["touch", "marker"])).expected_materials(allow_all()).expected_products(allow_all());
        let parent = layout(vec![step("a", 1, &[&ka, &kc], allow_all(), allow_all())], vec![marker], &[&ka, &kc], 30);
        let lay = signed_layout(&parent, &[&owner]);
        let old = std::env::current_dir().unwrap();
        std::env::set_current_dir(work.path()).unwrap();
        let res = no_panic(|| in_toto_verify(&lay, owner_keys(&[&owner]), d.path().to_str().unwrap(), None));
        let ran = work.path().join("marker").exists();
        std::env::set_current_dir(old).unwrap();
        let expect_ok = fault == "none";
        r.case("surplus-evidence-with-a-failing-delegation", json!({"step": "a, threshold 1, two functionaries", "key2": "valid plain link", "key4": format!("sub-layout, {}", fault)}),
               if expect_ok { "Ok, root inspection ran" } else { "Err, root inspection did not run" },
               format!("{} root_inspection_ran={}", match &res { Ok(v) => verdict(v), Err(p) => format!("panic: {}", p) }, ran), matches!(&res, Ok(v) if v.is_ok() == expect_ok) && ran == expect_ok);
    }
}

/// C15 / C08: an inspection that bears the name of a step never shields that step's evidence from the step's rules - in the root
/// layout, inside a sub-layout, and in the parent of a delegated step (whose evidence is the sub-layout's summary)
pub fn inspection_named_like_a_step(r: &mut Report) {
    use in_toto::models::inspection::Inspection;
    use in_toto::models::rule::ArtifactRule;
    use in_toto::models::VirtualTargetPath;
    let owner = key(1); let (ka, kb) = (key(2), key(3));
    let vp = |s: &str| VirtualTargetPath::new(s.into()).unwrap();
    let strict = || vec![ArtifactRule::Allow(vp("good")), ArtifactRule::Disallow(vp("*"))];
    let insp = |name: &str| Inspection::new(name).run(cmd(&["true"])).expected_materials(allow_all()).expected_products(allow_all());
    for level in ["root", "inside-sub-layout", "parent-of-delegation"] { for violating in [true, false] { for collide in [true, false] {
        let _g = crate::c08::CWD_LOCK.lock().unwrap();
        let d = tmpdir(); let work = tmpdir();
        let prod = if violating { "bad" } else { "good" };
        let lay = match level {
            "root" => {
                write_link(d.path(), "s", ka.key_id(), &signed_link(&link("s", &[], &[(prod, 7)]), &[&ka]));
                layout(vec![step("s", 1, &[&ka], allow_all(), strict())], vec![insp(if collide { "s" } else { "other" })], &[&ka], 30)
            }
            "inside-sub-layout" => {
                let sub = layout(vec![step("inner", 1, &[&kb], allow_all(), strict())], vec![insp(if collide { "inner" } else { "other" })], &[&kb], 30);
                write_link(d.path(), "s", ka.key_id(), &signed_layout(&sub, &[&ka]));
                let subdir = d.path().join(format!("s.{}", ka.key_id().prefix()));
                std::fs::create_dir_all(&subdir).unwrap();
                write_link(&subdir, "inner", kb.key_id(), &signed_link(&link("inner", &[], &[(prod, 7)]), &[&kb]));
                layout(vec![step("s", 1, &[&ka], allow_all(), allow_all())], vec![], &[&ka], 30)
            }
            _ => {
                let sub = layout(vec![step("inner", 1, &[&kb], allow_all(), allow_all())], vec![], &[&kb], 30);
                write_link(d.path(), "s", ka.key_id(), &signed_layout(&sub, &[&ka]));
                let subdir = d.path().join(format!("s.{}", ka.key_id().prefix()));
                std::fs::create_dir_all(&subdir).unwrap();
                write_link(&subdir, "inner", kb.key_id(), &signed_link(&link("inner", &[], &[(prod, 7)]), &[&kb]));
                // the parent's rules judge the summary of the delegation
                layout(vec![step("s", 1, &[&ka], allow_all(), strict())], vec![insp(if collide { "s" } else { "other" })], &[&ka], 30)
            }
        };
        let lay = signed_layout(&lay, &[&owner]);
        let old = std::env::current_dir().unwrap();
        std::env::set_current_dir(work.path()).unwrap();
        let res = no_panic(|| in_toto_verify(&lay, owner_keys(&[&owner]), d.path().to_str().unwrap(), None).is_ok());
        std::env::set_current_dir(old).unwrap();
        r.case("inspection-named-like-a-step-shields-nothing", json!({"level": level, "step_evidence_violates_its_rules": violating, "inspection_bears_the_step_name": collide}), if violating { "Err" } else { "Ok" },
               format!("{:?}", res), res == Ok(!violating));
    } } }
}

