use std::panic::{self, AssertUnwindSafe};

/// Run `f`, reporting whether it panicked.
pub fn no_panic<T, F: FnOnce() -> T>(f: F) -> Result<T, String> {
    match panic::catch_unwind(AssertUnwindSafe(f)) {
        Ok(v) => Ok(v),
        Err(e) => {
            let msg = if let Some(s) = e.downcast_ref::<&str>() {
                s.to_string()
            } else if let Some(s) = e.downcast_ref::<String>() {
                s.clone()
            } else {
                "panic".to_string()
            };
            Err(msg)
        }
    }
}
