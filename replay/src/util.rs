use std::panic::{self, AssertUnwindSafe};

/// Run `f`, reporting whether it panicked.
pub fn no_panic<T, F: FnOnce() -> T>(f: F) -> Result<T, String> {
    match panic::catch_unwind(AssertUnwindSafe(f)) {
        Ok(v) => Ok(v),
        Err(e) => {
            let msg = if let Some(s) = e.downcast_ref::<&str>() {
                s.to_string()
            } else if let Some(s) = e.downcast_ref::<String>() {
                s.clone()
            } else {
                "panic".to_string()
            };
            Err(msg)
        }
    }
}

/// `VERIF_TIER=thorough` deepens the witness exploration (more repetitions, larger grids, exhaustive small scopes)
pub fn thorough() -> bool {
    std::env::var("VERIF_TIER").map(|v| v == "thorough").unwrap_or(false)
}
pub fn scale(quick: usize, thorough_n: usize) -> usize { if thorough() { thorough_n } else { quick } }
