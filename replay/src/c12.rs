//! C12 witnesses: key identity across construction paths; key table filtering; SPKI round trips.
use crate::fixture::*;
use crate::util::no_panic;
use crate::Report;
use in_toto::crypto::{KeyId, PrivateKey, PublicKey, SignatureScheme};
use in_toto::models::{Metablock, MetadataWrapper};
use serde_json::json;
use std::str::FromStr;

pub fn run(r: &mut Report) {
    // same id however the key was obtained
    let mut pubs: Vec<(String, PublicKey, SignatureScheme)> = vec![];
    for (name, spki, pk8, scheme) in [
        ("ed25519", "/repo/tests/ed25519/ed25519-1.spki.der", "/repo/tests/ed25519/ed25519-1.pk8.der", SignatureScheme::Ed25519),
        ("ecdsa", "/repo/tests/ecdsa/ec.spki.der", "/repo/tests/ecdsa/ec.pk8.der", SignatureScheme::EcdsaP256Sha256),
        ("rsa2048", "/repo/tests/rsa/rsa-2048.spki.der", "/repo/tests/rsa/rsa-2048.pk8.der", SignatureScheme::RsaSsaPssSha256),
        ("rsa4096", "/repo/tests/rsa/rsa-4096.spki.der", "/repo/tests/rsa/rsa-4096.pk8.der", SignatureScheme::RsaSsaPssSha256),
        // keys generated for this harness (openssl): unusual public exponents (high bit set -> DER sign padding; 33 bits), 3072 bits, a second P-256 key
        ("rsa2048-e80000003", "/verif/replay/fixtures/rsa-2048-e2147483651.spki.der", "/verif/replay/fixtures/rsa-2048-e2147483651.pk8.der", SignatureScheme::RsaSsaPssSha256),
        ("rsa2048-e100000001", "/verif/replay/fixtures/rsa-2048-e4294967297.spki.der", "/verif/replay/fixtures/rsa-2048-e4294967297.pk8.der", SignatureScheme::RsaSsaPssSha512),
        ("rsa2048-e65539", "/verif/replay/fixtures/rsa-2048-e65539.spki.der", "/verif/replay/fixtures/rsa-2048-e65539.pk8.der", SignatureScheme::RsaSsaPssSha256),
        ("rsa3072", "/verif/replay/fixtures/rsa-3072.spki.der", "/verif/replay/fixtures/rsa-3072.pk8.der", SignatureScheme::RsaSsaPssSha256),
        // moduli whose SubjectPublicKeyInfo is a multiple of 48 bytes long (the PEM body then ends exactly at a line boundary)
        ("rsa2384", "/verif/replay/fixtures/rsa-2384.spki.der", "/verif/replay/fixtures/rsa-2384.pk8.der", SignatureScheme::RsaSsaPssSha256),
        ("rsa2768", "/verif/replay/fixtures/rsa-2768.spki.der", "/verif/replay/fixtures/rsa-2768.pk8.der", SignatureScheme::RsaSsaPssSha512),
        ("ecdsa-2", "/verif/replay/fixtures/ec-2.spki.der", "/verif/replay/fixtures/ec-2.pk8.der", SignatureScheme::EcdsaP256Sha256),
        // large moduli (the verifying side supports up to 8192 bits; their PEM text is well over a kilobyte)
        ("rsa5120", "/verif/replay/fixtures/rsa-5120.spki.der", "/verif/replay/fixtures/rsa-5120.pk8.der", SignatureScheme::RsaSsaPssSha256),
        ("rsa8192", "/verif/replay/fixtures/rsa-8192.spki.der", "/verif/replay/fixtures/rsa-8192.pk8.der", SignatureScheme::RsaSsaPssSha512),
    ] {
        let der = std::fs::read(spki).unwrap();
        let from_spki = no_panic(|| PublicKey::from_spki(&der, scheme.clone()));
        let pem = pem::encode(&pem::Pem::new("PUBLIC KEY", der.clone()));
        let from_pem = no_panic(|| PublicKey::from_pem_spki(&pem, scheme.clone()));
        let pk = std::fs::read(pk8).unwrap();
        let from_priv = no_panic(|| PrivateKey::from_pkcs8(&pk, scheme.clone()).map(|k| k.public().clone()));
        // ring signs only with certain modulus sizes: for the two boundary-size keys the private half is not importable (an error, not
        // a different id), and the comparison is between the public paths
        let public_only = name == "rsa2384" || name == "rsa2768" || name == "rsa5120" || name == "rsa8192";
        let from_priv = if public_only && matches!(&from_priv, Ok(Err(_))) { no_panic(|| PublicKey::from_spki(&der, scheme.clone())) } else { from_priv };
        let ids: Vec<String> = [&from_spki, &from_pem, &from_priv].iter().map(|x| match x { Ok(Ok(k)) => format!("{:?}", k.key_id()), Ok(Err(e)) => format!("Err({})", e), Err(p) => format!("panic {}", p) }).collect();
        let ok = ids.iter().all(|i| i == &ids[0]) && !ids[0].starts_with("Err") && !ids[0].starts_with("panic");
        r.case("same-id-all-paths", json!({"key": name}), "equal key ids from SPKI DER, SPKI PEM, private key", format!("{:?}", ids), ok);
        if let Ok(Ok(k)) = from_spki {
            // JSON round trip keeps the id and the key
            let js = serde_json::to_string(&k).unwrap();
            let back: Result<PublicKey, _> = serde_json::from_str(&js);
            r.case("json-roundtrip", json!({"key": name}), "same key and id", format!("{:?}", back.as_ref().map(|b| b.key_id().clone())), matches!(&back, Ok(b) if b == &k && b.key_id() == k.key_id()));
            // SPKI export re-imports to the same key and re-exports to the same bytes
            let exported = no_panic(|| k.as_spki());
            match exported {
                Ok(Ok(bytes)) => {
                    let again = no_panic(|| PublicKey::from_spki(&bytes, scheme.clone()));
                    let ok = matches!(&again, Ok(Ok(k2)) if k2.key_id() == k.key_id());
                    // the repository's ed25519 test file carries NULL parameters, which RFC 8410 forbids: it is not a
                    // standards-conformant SPKI, so byte identity is required only for the conformant encodings
                    let conformant = name != "ed25519";
                    r.case("spki-export-reimport", json!({"key": name, "exported_equals_original": bytes == der, "input_conformant": conformant}), "re-import succeeds with the same id; export of a conformant SPKI is byte-identical",
                           format!("{:?}", again.map(|x| x.map(|k2| k2.key_id().clone()).map_err(|e| e.to_string()))), ok && (bytes == der || !conformant));
                }
                other => r.case("spki-export", json!({"key": name}), "Ok", format!("{:?}", other.map(|x| x.map(|_| ()).map_err(|e| e.to_string()))), false),
            }
            pubs.push((name.to_string(), k, scheme.clone()));
        }
    }
    // a raw Ed25519 pair whose second half is NOT the public key of its seed: refused - or, if taken, identified by the key the
    // seed really has (never by the foreign half), and what it signs verifies under the key it names
    {
        let pk8 = |i: usize| std::fs::read(format!("/repo/tests/ed25519/ed25519-{}.pk8.der", i)).unwrap();
        for (a, b) in [(1usize, 2usize), (2, 1), (3, 3)] {
            let (da, db) = (pk8(a), pk8(b));
            let raw: Vec<u8> = da[16..48].iter().chain(db[db.len() - 32..].iter()).cloned().collect();
            let res = no_panic(|| PrivateKey::from_ed25519(&raw));
            let seed_owner = PrivateKey::from_ed25519(&da[16..48].iter().chain(da[da.len() - 32..].iter()).cloned().collect::<Vec<u8>>()).unwrap();
            let (ok, obs) = match &res {
                Ok(Err(e)) => (a != b, format!("refused: {}", e)),
                Ok(Ok(k)) => { let sig = k.sign(b"msg"); let names_itself = k.key_id() == seed_owner.key_id() && k.public().as_bytes() == seed_owner.public().as_bytes();
                    let verifies = matches!(&sig, Ok(s) if k.public().verify(b"msg", s).is_ok());
                    (names_itself && verifies, format!("accepted: identified as the seed's key: {}, its signature verifies under its public half: {}", names_itself, verifies)) }
                Err(p) => (false, format!("panic: {}", p)) };
            r.case("ed25519-pair-halves", json!({"seed_of_key": a, "public_half_of_key": b}), if a == b { "accepted, identified by its own key" } else { "refused (or identified by the seed's key)" }, obs, ok);
        }
    }
    // the hash-algorithm list is part of a key's description AS GIVEN (order, repeats, spelling): a key constructed with it, or read
    // from a document carrying it, writes the same list back, and its id is the hash of the description with that very list -
    // computed here from the inputs, not from anything the library wrote
    {
        let raw = key(1).public().as_bytes().to_vec();
        let hex: String = raw.iter().map(|b| format!("{:02x}", b)).collect();
        let lists: Vec<Vec<&str>> = vec![vec!["sha256", "sha512"], vec!["sha512", "sha256"], vec!["sha256", "sha256"], vec!["sha512"], vec!["b", "a"], vec!["SHA256"], vec!["sha256", "sha512", "sha1"], vec!["sha512", "sha256", "sha512"], vec![""]];
        for l in &lists {
            let want_list = serde_json::to_string(l).unwrap();
            let description = format!("{{\"keyid_hash_algorithms\":{},\"keytype\":\"ed25519\",\"keyval\":{{\"public\":\"{}\"}},\"scheme\":\"ed25519\"}}", want_list, hex);
            let want_id: String = ring::digest::digest(&ring::digest::SHA256, description.as_bytes()).as_ref().iter().map(|b| format!("{:02x}", b)).collect();
            let built = PublicKey::from_ed25519_with_keyid_hash_algorithms(raw.clone(), Some(l.iter().map(|x| x.to_string()).collect()));
            let doc = json!({"keytype": "ed25519", "scheme": "ed25519", "keyid_hash_algorithms": l, "keyval": {"public": hex, "private": ""}});
            let read: Result<PublicKey, _> = serde_json::from_str(&doc.to_string());
            for (how, k) in [("constructed", built.map_err(|e| e.to_string())), ("read from a document", read.map_err(|e| e.to_string()))] {
                match k {
                    Ok(k) => {
                        let got_id = serde_json::to_value(k.key_id()).unwrap().as_str().unwrap().to_string();
                        let got_list = serde_json::to_value(&k).unwrap()["keyid_hash_algorithms"].to_string();
                        r.case("hash-algorithm-list-as-given", json!({"list": l, "key": how}), &format!("list {} id {}", want_list, want_id), format!("list {} id {}", got_list, got_id), got_id == want_id && got_list == want_list);
                    }
                    Err(e) => r.case("hash-algorithm-list-as-given", json!({"list": l, "key": how}), "accepted", format!("rejected: {}", e), false),
                }
            }
        }
    }
    // hash-algorithm-list variants: a key built from raw bytes (no list) and with an explicit list survives a JSON round trip
    // unchanged (same id, equal key), and so does its re-serialisation (byte-identical JSON)
    {
        let lists: Vec<Option<Vec<String>>> = vec![None, Some(vec!["sha256".into(), "sha512".into()]), Some(vec!["sha256".into()]), Some(vec![])];
        let ed_raw = key(1).public().as_bytes().to_vec();
        let ec_raw = pubs.iter().find(|p| p.0 == "ecdsa").map(|p| p.1.as_bytes().to_vec());
        for l in &lists {
            let mut made: Vec<(&str, in_toto::Result<PublicKey>)> = vec![("ed25519", PublicKey::from_ed25519_with_keyid_hash_algorithms(ed_raw.clone(), l.clone()))];
            if let Some(ec) = &ec_raw { made.push(("ecdsa", PublicKey::from_ecdsa_with_keyid_hash_algorithms(ec.clone(), l.clone()))); }
            for (name, k) in made {
                match k {
                    Ok(k) => {
                        let js = serde_json::to_string(&k).unwrap();
                        let back: Result<PublicKey, _> = serde_json::from_str(&js);
                        let js2 = back.as_ref().ok().map(|b| serde_json::to_string(b).unwrap());
                        let ok = matches!(&back, Ok(b) if b == &k && b.key_id() == k.key_id()) && js2.as_deref() == Some(js.as_str());
                        r.case("json-roundtrip-hash-alg-list", json!({"key": name, "keyid_hash_algorithms": l}), "equal key, same id, identical JSON",
                               format!("{:?} json_identical={}", back.as_ref().map(|b| b.key_id().clone()).map_err(|e| e.to_string()), js2.as_deref() == Some(js.as_str())), ok);
                    }
                    Err(e) => r.case("raw-constructor", json!({"key": name, "keyid_hash_algorithms": l}), "Ok", format!("Err({})", e), false),
                }
            }
        }
    }
    // interoperability: key ids computed by the reference implementation (the demo layout shipped with the repository was written by it)
    // are exactly the ids this library computes, so no entry of that key table may be dropped; and every id equals an independent
    // computation: hex(sha256(OLPC canonical JSON of {keyid_hash_algorithms?, keytype, keyval: {public}, scheme}))
    {
        let text = std::fs::read_to_string("/repo/tests/test_metadata/demo.layout").unwrap();
        let doc: serde_json::Value = serde_json::from_str(&text).unwrap();
        let listed: Vec<String> = doc["signed"]["keys"].as_object().unwrap().keys().cloned().collect();
        let parsed: Result<Metablock, _> = serde_json::from_str(&text);
        let kept: Vec<String> = match &parsed { Ok(mb) => match &mb.metadata { MetadataWrapper::Layout(l) => l.keys.keys().map(|k| serde_json::to_value(k).unwrap().as_str().unwrap().to_string()).collect(), _ => vec![] }, Err(_) => vec![] };
        let mut a = listed.clone(); a.sort(); let mut b = kept.clone(); b.sort();
        r.case("reference-key-ids", json!({"document": "tests/test_metadata/demo.layout", "listed": listed}), "every listed key is kept under its listed id", format!("{:?}", kept), a == b && !a.is_empty());
        fn olpc(v: &serde_json::Value, out: &mut String) {
            match v {
                serde_json::Value::String(s) => { out.push('"'); out.push_str(&s.replace('\\', "\\\\").replace('"', "\\\"")); out.push('"'); }
                serde_json::Value::Array(a) => { out.push('['); for (i, x) in a.iter().enumerate() { if i > 0 { out.push(',') } olpc(x, out) } out.push(']') }
                serde_json::Value::Object(o) => { out.push('{'); let mut ks: Vec<&String> = o.keys().collect(); ks.sort(); for (i, k) in ks.iter().enumerate() { if i > 0 { out.push(',') } olpc(&serde_json::Value::String((*k).clone()), out); out.push(':'); olpc(&o[*k], out) } out.push('}') }
                other => out.push_str(&other.to_string()),
            }
        }
        let reference_id = |k: &PublicKey| -> String {
            let js = serde_json::to_value(k).unwrap();
            let mut pre = serde_json::Map::new();
            if let Some(h) = js.get("keyid_hash_algorithms") { if !h.is_null() { pre.insert("keyid_hash_algorithms".into(), h.clone()); } }
            pre.insert("keytype".into(), js["keytype"].clone());
            pre.insert("keyval".into(), json!({"public": js["keyval"]["public"]}));
            pre.insert("scheme".into(), js["scheme"].clone());
            let mut text = String::new();
            olpc(&serde_json::Value::Object(pre), &mut text);
            ring::digest::digest(&ring::digest::SHA256, text.as_bytes()).as_ref().iter().map(|b| format!("{:02x}", b)).collect() };
        for (name, k, _) in pubs.iter() {
            let want = reference_id(k);
            let got = serde_json::to_value(k.key_id()).unwrap().as_str().unwrap().to_string();
            r.case("key-id-is-sha256-of-canonical-description", json!({"key": name}), &want, got.clone(), got == want);
        }
        // the same key material declared under every scheme, and with every hash-algorithm list, one after the other in this
        // process: each construction's id is the hash of ITS OWN description (the id is intrinsic, not remembered)
        for (mat, spki) in [("ed25519", "/repo/tests/ed25519/ed25519-1.spki.der"), ("ecdsa", "/repo/tests/ecdsa/ec.spki.der"), ("rsa2048", "/repo/tests/rsa/rsa-2048.spki.der"), ("rsa3072", "/verif/replay/fixtures/rsa-3072.spki.der")] {
            let der = match std::fs::read(spki) { Ok(d) => d, Err(_) => continue };
            let mut seen: Vec<(String, String)> = vec![];
            let mut bad: Vec<String> = vec![];
            for round in 0..2 {
                let mut schemes = vec![SignatureScheme::RsaSsaPssSha256, SignatureScheme::RsaSsaPssSha512, SignatureScheme::Ed25519, SignatureScheme::EcdsaP256Sha256, SignatureScheme::Unknown("x".into())];
                if round == 1 { schemes.reverse(); }
                for sch in schemes {
                    let base = no_panic(|| PublicKey::from_spki(&der, sch.clone())).ok().and_then(|x| x.ok());
                    let via_json = |edit: &dyn Fn(&mut serde_json::Value)| -> Option<PublicKey> { base.as_ref().and_then(|k| { let mut js = serde_json::to_value(k).ok()?; edit(&mut js);
                        no_panic(|| serde_json::from_str::<PublicKey>(&js.to_string())).ok().and_then(|x| x.ok()) }) };
                    let pem_text = pem::encode(&pem::Pem::new("PUBLIC KEY", der.clone()));
                    let built = vec![("from_spki", base.clone()), ("from_pem_spki", no_panic(|| PublicKey::from_pem_spki(&pem_text, sch.clone())).ok().and_then(|x| x.ok())),
                        ("json", via_json(&|_js| {})), ("json, keyid_hash_algorithms [sha512]", via_json(&|js| { js["keyid_hash_algorithms"] = json!(["sha512"]); })),
                        ("json, no keyid_hash_algorithms", via_json(&|js| { js.as_object_mut().unwrap().remove("keyid_hash_algorithms"); }))];
                    for (how, k) in built {
                        if let Some(k) = k {
                            let (want, got) = (reference_id(&k), serde_json::to_value(k.key_id()).unwrap().as_str().unwrap().to_string());
                            if want != got && bad.len() < 4 { bad.push(format!("{:?} via {}: id {} but its description hashes to {}", sch, how, got, want)); }
                            let mut d = serde_json::to_value(&k).unwrap(); d.as_object_mut().unwrap().remove("keyid");
                            let _ = how; seen.push((d.to_string(), got));
                        }
                    }
                }
            }
            // different descriptions never share an id
            let mut by_id: std::collections::HashMap<String, String> = std::collections::HashMap::new();
            for (d, id) in &seen { if let Some(prev) = by_id.get(id) { if prev != d && bad.len() < 6 { bad.push(format!("{} and {} share id {}", prev, d, id)); } } else { by_id.insert(id.clone(), d.clone()); } }
            r.case("same-material-every-scheme-in-sequence", json!({"material": mat, "constructions": seen.len()}), "every id is the hash of its own description; different descriptions, different ids", format!("{:?}", bad), bad.is_empty() && !seen.is_empty());
        }
    }
    // freshly generated Ed25519 keys whose material begins or ends with 0x00 / 0xff (a reader that "skips padding" would damage them):
    // the SPKI form, the raw form, the private key and JSON all give the same key and id, and the SPKI re-exports unchanged
    {
        let mut wanted: Vec<(&str, Box<dyn Fn(&[u8]) -> bool>)> = vec![("first byte 0x00", Box::new(|b: &[u8]| b[0] == 0)), ("last byte 0x00", Box::new(|b: &[u8]| b[31] == 0)),
            ("first byte 0xff", Box::new(|b: &[u8]| b[0] == 0xff)), ("first byte 0x30 (looks like DER)", Box::new(|b: &[u8]| b[0] == 0x30)), ("first byte 0x04", Box::new(|b: &[u8]| b[0] == 0x04)), ("any", Box::new(|_b: &[u8]| true))];
        let mut tries = 0;
        while !wanted.is_empty() && tries < 20000 {
            tries += 1;
            let pk8 = match PrivateKey::new(in_toto::crypto::KeyType::Ed25519) { Ok(b) => b, Err(_) => break };
            let sk = match PrivateKey::from_pkcs8(&pk8, SignatureScheme::Ed25519) { Ok(k) => k, Err(_) => continue };
            let raw = sk.public().as_bytes().to_vec();
            if raw.len() != 32 { continue; }
            let hit = wanted.iter().position(|(_, f)| f(&raw));
            if let Some(i) = hit {
                let (what, _) = wanted.remove(i);
                let mut der = vec![0x30, 0x2a, 0x30, 0x05, 0x06, 0x03, 0x2b, 0x65, 0x70, 0x03, 0x21, 0x00];
                der.extend_from_slice(&raw);
                let from_spki = no_panic(|| PublicKey::from_spki(&der, SignatureScheme::Ed25519)).ok().and_then(|x| x.ok());
                let pem_text = pem::encode(&pem::Pem::new("PUBLIC KEY", der.clone()));
                let from_pem = no_panic(|| PublicKey::from_pem_spki(&pem_text, SignatureScheme::Ed25519)).ok().and_then(|x| x.ok());
                let from_json = from_spki.as_ref().and_then(|k| serde_json::to_string(k).ok()).and_then(|j| serde_json::from_str::<PublicKey>(&j).ok());
                let ids: Vec<String> = [&from_spki, &from_pem, &from_json, &Some(sk.public().clone())].iter().map(|k| k.as_ref().map(|k| format!("{:?}", k.key_id())).unwrap_or_else(|| "none".into())).collect();
                let same = ids.iter().all(|i| i == &ids[0] && i != "none") && from_spki.as_ref().map(|k| k.as_bytes() == &raw[..]).unwrap_or(false);
                let reexport = from_spki.as_ref().and_then(|k| k.as_spki().ok());
                let msg = b"message";
                let sig_ok = match (&from_spki, sk.sign(msg)) { (Some(k), Ok(sig)) => k.verify(msg, &sig).is_ok(), _ => false };
                r.case("generated-ed25519-keys-with-special-bytes", json!({"material": what, "first_bytes": format!("{:02x}{:02x}..{:02x}", raw[0], raw[1], raw[31])}), "one key and id from SPKI DER, SPKI PEM, private key and JSON; SPKI re-exported unchanged; verifies its own signature",
                       format!("ids={:?} reexport_equal={} verifies={}", ids, reexport.as_deref() == Some(&der[..]), sig_ok), same && reexport.as_deref() == Some(&der[..]) && sig_ok);
            }
        }
        r.case("generated-ed25519-keys-coverage", json!({"keys_generated": tries}), "a key of every wanted shape was found", format!("not found: {:?}", wanted.iter().map(|(n, _)| *n).collect::<Vec<_>>()), wanted.is_empty());
    }
    // RFC 8410 ed25519 SPKI (AlgorithmIdentifier without parameters) must be importable
    let raw = key(1).public().as_bytes().to_vec();
    let mut rfc8410 = vec![0x30, 0x2a, 0x30, 0x05, 0x06, 0x03, 0x2b, 0x65, 0x70, 0x03, 0x21, 0x00];
    rfc8410.extend_from_slice(&raw);
    let res = no_panic(|| PublicKey::from_spki(&rfc8410, SignatureScheme::Ed25519));
    let reexport = match &res { Ok(Ok(k)) => k.as_spki().ok(), _ => None };
    r.case("rfc8410-ed25519-spki", json!({"der_prefix": "302a300506032b6570032100"}), "imports, same id as the raw key, re-exports unchanged",
           format!("{:?} reexport_identical={}", res.as_ref().map(|x| x.as_ref().map(|k| k.key_id().clone()).map_err(|e| e.to_string())), reexport.as_deref() == Some(&rfc8410[..])),
           matches!(&res, Ok(Ok(k)) if k.key_id() == key(1).key_id()) && reexport.as_deref() == Some(&rfc8410[..]));
    // a key read from JSON always carries its intrinsic id, whatever "keyid" the document lists
    for with_algs in [true, false] {
        let k = key(1);
        let mut v = serde_json::to_value(k.public()).unwrap();
        v["keyid"] = json!("ab".repeat(32));
        if !with_algs { if let Some(o) = v.as_object_mut() { o.remove("keyid_hash_algorithms"); } }
        let parsed: Result<PublicKey, _> = serde_json::from_str(&v.to_string());
        // the intrinsic id of the same material obtained without any JSON
        let intrinsic = if with_algs { k.public().key_id().clone() }
                        else { PublicKey::from_ed25519(k.public().as_bytes().to_vec()).unwrap().key_id().clone() };
        let ok = match &parsed { Ok(p) => p.key_id() == &intrinsic, Err(_) => true };
        r.case("json-listed-keyid-is-ignored", json!({"listed_keyid": "abab..", "keyid_hash_algorithms_present": with_algs}), "key id == intrinsic id (or document rejected)",
               format!("{:?}", parsed.as_ref().map(|p| p.key_id().clone()).map_err(|e| e.to_string())), ok);
    }
    // a layout key table entry filed under another identifier is never used under that identifier
    let owner = key(1);
    let ka = key(2);
    let kb = key(3);
    let l = layout(vec![step("a", 1, &[&ka], allow_all(), allow_all())], vec![], &[&ka], 30);
    let mut v = serde_json::to_value(&signed_layout(&l, &[&owner])).unwrap();
    // file a key under an identifier that is not its own: another key's id, and every near-variant of its own id
    let kb_json = serde_json::to_value(kb.public()).unwrap();
    let ka_id = serde_json::to_value(ka.key_id()).unwrap().as_str().unwrap().to_string();
    let kb_id = serde_json::to_value(kb.key_id()).unwrap().as_str().unwrap().to_string();
    let flip = |s: &str, i: usize| -> String { s.chars().enumerate().map(|(j, c)| if j == i { if c == '0' { '1' } else { '0' } } else { c }).collect() };
    let mixed: String = kb_id.chars().enumerate().map(|(j, c)| if j % 2 == 0 { c.to_ascii_uppercase() } else { c }).collect();
    let variants: Vec<(&str, String)> = vec![("id of another key", ka_id.clone()), ("own id in upper case", kb_id.to_ascii_uppercase()), ("own id in mixed case", mixed),
        ("own id, first digit changed", flip(&kb_id, 0)), ("own id, last digit changed", flip(&kb_id, 63)), ("all zeros", "0".repeat(64)),
        ("own id reversed", kb_id.chars().rev().collect())];
    for (what, listed) in variants {
        if listed == kb_id { continue; }
        for keep_genuine in [false, true] {
            let mut v = v.clone();
            v["signed"]["keys"][&listed] = kb_json.clone();
            if keep_genuine { v["signed"]["keys"][&kb_id] = kb_json.clone(); }
            let parsed: Result<Metablock, _> = serde_json::from_str(&v.to_string());
            match parsed {
                Ok(mb) => {
                    let bad: Vec<String> = match &mb.metadata { MetadataWrapper::Layout(l) => l.keys.iter().filter(|(id, k)| *id != k.key_id()).map(|(id, _)| format!("{:?}", id)).collect(), _ => vec!["not a layout".into()] };
                    r.case("aliased-table-entry-dropped", json!({"entry": format!("key3 filed under: {}", what), "genuine_entry_also_listed": keep_genuine}), "no entry whose id differs from the key's own id", format!("bad entries: {:?}", bad), bad.is_empty());
                }
                Err(e) => r.case("aliased-table-entry-dropped", json!({"entry": what}), "parses (entry dropped) or is rejected", format!("rejected: {}", e), true),
            }
        }
    }
    // entries filed under the id of ANOTHER key of the same table (swapped, rotated, one key under the other's id while the owner of
    // that id sits elsewhere): never kept, and a link signed by the stranger never counts for the id it was filed under
    {
        let kc = key(4);
        let ka_json = serde_json::to_value(ka.public()).unwrap();
        let kc_json = serde_json::to_value(kc.public()).unwrap();
        let kc_id = serde_json::to_value(kc.key_id()).unwrap().as_str().unwrap().to_string();
        let zeros = "0".repeat(64);
        let tables: Vec<(&str, Vec<(&String, &serde_json::Value)>)> = vec![
            ("swapped", vec![(&ka_id, &kb_json), (&kb_id, &ka_json)]),
            ("rotated", vec![(&ka_id, &kb_json), (&kb_id, &kc_json), (&kc_id, &ka_json)]),
            ("stranger under a's id, a under an unowned id", vec![(&ka_id, &kb_json), (&zeros, &ka_json)]),
            ("stranger under a's id and under its own, a under an unowned id", vec![(&ka_id, &kb_json), (&kb_id, &kb_json), (&zeros, &ka_json)]),
            ("stranger under a's id, a under the stranger's", vec![(&ka_id, &kb_json), (&kb_id, &ka_json), (&kc_id, &kc_json)]),
        ];
        // (control: the reading path used below accepts the untouched table)
        let control: Result<in_toto::models::LayoutMetadata, _> = serde_json::from_str(&v["signed"].to_string());
        r.case("table-entries-under-each-others-ids-control", json!({}), "the untouched layout parses with its one key", format!("{:?}", control.as_ref().map(|l| l.keys.len()).map_err(|e| e.to_string())), matches!(&control, Ok(l) if l.keys.len() == 1));
        for (what, entries) in tables {
            let mut v = v.clone();
            v["signed"]["keys"] = json!({});
            for (id, kj) in &entries { v["signed"]["keys"][id.as_str()] = (*kj).clone(); }
            // re-sign: the owner publishes this table
            let parsed_layout: Result<in_toto::models::LayoutMetadata, _> = serde_json::from_str(&v["signed"].to_string());
            match parsed_layout {
                Ok(lm) => {
                    let bad: Vec<String> = lm.keys.iter().filter(|(id, k)| *id != k.key_id()).map(|(id, _)| format!("{:?}", id)).collect();
                    r.case("table-entries-under-each-others-ids", json!({"table": what}), "no entry whose id differs from the key's own id", format!("bad entries: {:?}", bad), bad.is_empty());
                    // end to end: the owner signs the layout as read; step a is authorised for a's id; only the stranger (key3) delivers a link, filed under a's id prefix
                    let d = tmpdir();
                    let lay = signed_layout(&lm, &[&owner]);
                    let mut link_v = serde_json::to_value(&signed_link(&link("a", &[], &[("x", 1)]), &[&kb])).unwrap();
                    std::fs::write(d.path().join(format!("a.{}.link", ka.key_id().prefix())), link_v.to_string()).unwrap();
                    let res1 = no_panic(|| in_toto::verifylib::in_toto_verify(&lay, owner_keys(&[&owner]), d.path().to_str().unwrap(), None).is_ok());
                    // .. and with the signature entry relabelled with a's id
                    link_v["signatures"][0]["keyid"] = json!(ka_id);
                    std::fs::write(d.path().join(format!("a.{}.link", ka.key_id().prefix())), link_v.to_string()).unwrap();
                    let res2 = no_panic(|| in_toto::verifylib::in_toto_verify(&lay, owner_keys(&[&owner]), d.path().to_str().unwrap(), None).is_ok());
                    r.case("stranger-never-counts-for-the-id-it-was-filed-under", json!({"table": what}), "Err, Err", format!("{:?}, {:?}", res1, res2), res1 == Ok(false) && res2 == Ok(false));
                }
                Err(e) => r.case("table-entries-under-each-others-ids", json!({"table": what}), "parses (entries dropped) or is rejected", format!("rejected: {}", e), true),
            }
        }
    }
    let _ = KeyId::from_str;
}
