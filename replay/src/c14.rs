//! C14 witnesses: attacker-controlled inputs must yield a value or an error, never a panic.
use crate::util::no_panic;
use crate::Report;
use in_toto::crypto::{KeyId, KeyType, PrivateKey, PublicKey, SignatureScheme};
use serde_json::json;
use std::str::FromStr;

pub fn run(r: &mut Report) {
    // KeyId::prefix on every 64-byte id shape: ASCII, multi-byte char straddling byte 8, all non-ASCII
    let ids: Vec<String> = vec![
        "a".repeat(64),
        format!("aaaaaaa\u{e9}{}", "a".repeat(55)),
        format!("aaaaaa\u{20ac}{}", "a".repeat(55)),
        "\u{e9}".repeat(32),
        format!("aaaaa\u{1F600}{}", "a".repeat(55)),
    ];
    for id in ids {
        let res = no_panic(|| KeyId::from_str(&id).map(|k| k.prefix()));
        r.case("keyid-prefix", json!({"key_id": id}), "Ok(prefix) or Err, no panic",
               format!("{:?}", res), res.is_ok());
    }
    for pem in ["garbage", "", "-----BEGIN PUBLIC KEY-----\nAAAA\n-----END PUBLIC KEY-----\n"] {
        let res = no_panic(|| PublicKey::from_pem_spki(pem, SignatureScheme::Ed25519).map(|_| ()));
        r.case("from-pem-spki", json!({"pem": pem}), "Ok or Err, no panic", format!("{:?}", res), res.is_ok());
    }
    for der in [&b"garbage"[..], &b""[..], &[0x30u8, 0x00][..]] {
        for scheme in [SignatureScheme::EcdsaP256Sha256, SignatureScheme::Ed25519, SignatureScheme::RsaSsaPssSha256] {
            let s2 = scheme.clone();
            let res = no_panic(|| PrivateKey::from_pkcs8(der, s2).map(|_| ()));
            r.case("from-pkcs8", json!({"der": der, "scheme": format!("{:?}", scheme)}), "Ok or Err, no panic",
                   format!("{:?}", res), res.is_ok());
        }
    }
    let _ = KeyType::Ed25519;
}
