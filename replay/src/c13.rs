//! C13 witnesses: the verdict and the summary are a function of the inputs (no dependence on hash-map order).
use crate::fixture::*;
use crate::util::no_panic;
use crate::Report;
use in_toto::models::rule::ArtifactRule;
use in_toto::models::VirtualTargetPath;
use in_toto::verifylib::in_toto_verify;
use serde_json::json;
use std::collections::BTreeSet;

pub fn run(r: &mut Report) {
    crate::c01::agreement_matrix(r, crate::util::scale(12, 40), "order-independence");
    crate::c03::multi_alg(r, crate::util::scale(24, 100), "order-independence-multi-algorithm");
    let owner = key(1);
    let ks = [key(2), key(3), key(4), key(5)];
    // threshold 1, four valid authorised links that differ in their products
    for (id, rules) in [("summary", allow_all()),
                        ("verdict", vec![ArtifactRule::Create(VirtualTargetPath::new("p2".into()).unwrap()),
                                         ArtifactRule::Disallow(VirtualTargetPath::new("*".into()).unwrap())])] {
        let d = tmpdir();
        for (i, k) in ks.iter().enumerate() {
            let prod = format!("p{}", i);
            write_link(d.path(), "a", k.key_id(), &signed_link(&link("a", &[], &[(prod.as_str(), i as u8)]), &[k]));
        }
        let refs: Vec<&in_toto::crypto::PrivateKey> = ks.iter().collect();
        let l = layout(vec![step("a", 1, &refs, allow_all(), rules)], vec![], &refs, 30);
        let lay = signed_layout(&l, &[&owner]);
        let mut seen = BTreeSet::new();
        for _ in 0..crate::util::scale(40, 200) {
            let res = no_panic(|| in_toto_verify(&lay, owner_keys(&[&owner]), d.path().to_str().unwrap(), None));
            seen.insert(match &res { Ok(v) => verdict(v), Err(p) => format!("panic: {}", p) });
        }
        r.case(id, json!({"step": "a threshold 1", "links": "4 valid authorised links with different products", "repetitions": crate::util::scale(40, 200)}),
               "one outcome", format!("{} distinct outcomes: {:?}", seen.len(), seen), seen.len() == 1);
    }
}
