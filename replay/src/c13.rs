//! C13 witnesses: the verdict and the summary are a function of the inputs (no dependence on hash-map order).
use crate::fixture::*;
use crate::util::no_panic;
use crate::Report;
use in_toto::models::rule::ArtifactRule;
use in_toto::models::VirtualTargetPath;
use in_toto::verifylib::in_toto_verify;
use serde_json::json;
use std::collections::BTreeSet;

pub fn run(r: &mut Report) {
    crate::c01::agreement_matrix(r, crate::util::scale(12, 40), "order-independence");
    crate::c03::multi_alg(r, crate::util::scale(24, 100), "order-independence-multi-algorithm");
    crate::c03::multi_alg_states(r, crate::util::scale(16, 60), "order-independence-two-algorithm-states");
    crate::c01::digest_shape_dissent(r, crate::util::scale(8, 40), "order-independence-digest-shapes");
    crate::c08::inspection_order(r);
    // a link file carrying a second signature entry whose (made-up) key id shares the file's 8-character prefix: which entry decides
    // is a matter of file order, never of hash order
    for junk_first in [false, true] {
        let owner = key(1); let ka = key(2);
        let d = tmpdir();
        let genuine = signed_link(&link("a", &[], &[("p", 1)]), &[&ka]);
        let mut v = serde_json::to_value(&genuine).unwrap();
        let junk_id = format!("{}{}", ka.key_id().prefix(), "0".repeat(56));
        let junk = json!({"keyid": junk_id, "sig": v["signatures"][0]["sig"]});
        if junk_first { v["signatures"].as_array_mut().unwrap().insert(0, junk); } else { v["signatures"].as_array_mut().unwrap().push(junk); }
        std::fs::write(d.path().join(format!("a.{}.link", ka.key_id().prefix())), v.to_string()).unwrap();
        let lay = signed_layout(&layout(vec![step("a", 1, &[&ka], allow_all(), allow_all())], vec![], &[&ka], 30), &[&owner]);
        let mut seen = BTreeSet::new();
        let reps = crate::util::scale(40, 200);
        for _ in 0..reps {
            let res = no_panic(|| in_toto_verify(&lay, owner_keys(&[&owner]), d.path().to_str().unwrap(), None));
            seen.insert(match &res { Ok(v) => if v.is_ok() { "Ok".to_string() } else { "Err".to_string() }, Err(p) => format!("panic: {}", p) });
        }
        // the first entry with the file's prefix decides (C02): junk first -> filed under an unauthorised id -> Err; genuine first -> Ok
        let want = if junk_first { "Err" } else { "Ok" };
        r.case("two-signature-entries-sharing-the-prefix", json!({"junk_entry_first": junk_first, "repetitions": reps}), &format!("{} on every run", want), format!("{:?}", seen), seen.len() == 1 && seen.contains(want));
    }
    // one key MATERIAL listed under several identifiers (the identifier covers the hash-algorithm list, so the same Ed25519 key
    // imported from PKCS#8 and from its raw pair has two ids), each id with its own, different link: still one outcome
    {
        let owner = key(1);
        let mut variants: Vec<in_toto::crypto::PrivateKey> = vec![];
        for i in [2usize, 3] {
            let pk8 = std::fs::read(format!("/repo/tests/ed25519/ed25519-{}.pk8.der", i)).unwrap();
            let raw: Vec<u8> = pk8[16..48].iter().chain(pk8[pk8.len() - 32..].iter()).cloned().collect();
            variants.push(in_toto::crypto::PrivateKey::from_pkcs8(&pk8, in_toto::crypto::SignatureScheme::Ed25519).unwrap());
            variants.push(in_toto::crypto::PrivateKey::from_ed25519(&raw).unwrap());
        }
        let distinct_ids: BTreeSet<String> = variants.iter().map(|k| serde_json::to_value(k.key_id()).unwrap().to_string()).collect();
        for (id, rules) in [("summary", allow_all()), ("verdict", vec![ArtifactRule::Create(VirtualTargetPath::new("p1".into()).unwrap()), ArtifactRule::Disallow(VirtualTargetPath::new("*".into()).unwrap())])] {
            for subset in [vec![0usize, 1], vec![2, 3], vec![0, 1, 2, 3]] {
                let d = tmpdir();
                let refs: Vec<&in_toto::crypto::PrivateKey> = subset.iter().map(|i| &variants[*i]).collect();
                for (j, k) in refs.iter().enumerate() {
                    let prod = format!("p{}", j);
                    write_link(d.path(), "a", k.key_id(), &signed_link(&link("a", &[], &[(prod.as_str(), j as u8)]), &[k]));
                }
                let lay = signed_layout(&layout(vec![step("a", 1, &refs, allow_all(), rules.clone())], vec![], &refs, 30), &[&owner]);
                let mut seen = BTreeSet::new();
                let reps = crate::util::scale(40, 200);
                for _ in 0..reps {
                    let res = no_panic(|| in_toto_verify(&lay, owner_keys(&[&owner]), d.path().to_str().unwrap(), None));
                    seen.insert(match &res { Ok(v) => verdict(v), Err(p) => format!("panic: {}", p) });
                }
                r.case(&format!("one-key-material-under-several-ids-{}", id), json!({"ids_listed": subset.len(), "distinct_ids_overall": distinct_ids.len(), "repetitions": reps}),
                       "one outcome", format!("{} distinct outcomes: {:?}", seen.len(), seen.iter().map(|x| x.chars().take(160).collect::<String>()).collect::<Vec<_>>()), seen.len() == 1 && distinct_ids.len() == 4);
            }
        }
    }
    // a step's links are the files named exactly "<step>.<short id>.link": the link of a sibling step whose name merely BEGINS
    // with this step's name (same functionary) is never read for it, wherever the file system lists it
    {
        let owner = key(1); let ka = key(2);
        let strict = || vec![ArtifactRule::Allow(VirtualTargetPath::new("good".into()).unwrap()), ArtifactRule::Disallow(VirtualTargetPath::new("*".into()).unwrap())];
        let mut outcomes: std::collections::BTreeMap<String, Vec<String>> = Default::default();
        let siblings = ["build-a", "build-b", "build-m", "build-z", "build.x", "buildx", "build-", "build0", "build_", "buildZ", "build-arm", "build~", "build.", "build-p"];
        for sib in siblings { for base_present in [true, false] {
            let d = tmpdir();
            if base_present { write_link(d.path(), "build", ka.key_id(), &signed_link(&link("build", &[], &[("good", 1)]), &[&ka])); }
            write_link(d.path(), sib, ka.key_id(), &signed_link(&link(sib, &[], &[("other", 2)]), &[&ka]));
            let lay = signed_layout(&layout(vec![step("build", 1, &[&ka], allow_all(), strict()), step(sib, 1, &[&ka], allow_all(), allow_all())], vec![], &[&ka], 30), &[&owner]);
            let res = no_panic(|| in_toto_verify(&lay, owner_keys(&[&owner]), d.path().to_str().unwrap(), None).is_ok());
            outcomes.entry(format!("link of step build {}: {:?}", if base_present { "present" } else { "missing" }, res)).or_default().push(sib.to_string());
        } }
        let ok = outcomes.len() == 2 && outcomes.contains_key("link of step build present: Ok(true)") && outcomes.contains_key("link of step build missing: Ok(false)");
        r.case("sibling-step-whose-name-begins-with-this-one", json!({"siblings": siblings}), "Ok with the step's own link, Err without it, for every sibling name",
               format!("{:?}", outcomes.iter().map(|(k, v)| format!("{} x{} {:?}", k, v.len(), if v.len() < 14 { v.clone() } else { vec![] })).collect::<Vec<_>>()), ok);
    }
    // only the link directory itself is read for a step: a same-named link file lying in a sub-directory (an archived run, a
    // delegation's directory) never replaces or joins the top-level one, whatever the sub-directory is called and wherever the
    // file system lists it
    {
        let owner = key(1); let ka = key(2);
        let strict = vec![ArtifactRule::Allow(VirtualTargetPath::new("good".into()).unwrap()), ArtifactRule::Disallow(VirtualTargetPath::new("*".into()).unwrap())];
        let lay = signed_layout(&layout(vec![step("a", 1, &[&ka], allow_all(), strict)], vec![], &[&ka], 30), &[&owner]);
        let good = signed_link(&link("a", &[], &[("good", 1)]), &[&ka]);
        let bad = signed_link(&link("a", &[], &[("leftover", 2)]), &[&ka]);
        let mut seen: std::collections::BTreeMap<String, Vec<String>> = Default::default();
        let names = ["Z", "0", "archive", "old", "zz", ".hidden", "A", "a", "b", "_", "~", "a.0000", "link", "sub/deeper"];
        for top_is_good in [true, false] { for sub in names { for sub_first in [false, true] {
            let d = tmpdir();
            let subdir = d.path().join(sub);
            if sub_first { std::fs::create_dir_all(&subdir).unwrap(); write_link(&subdir, "a", ka.key_id(), if top_is_good { &bad } else { &good }); }
            write_link(d.path(), "a", ka.key_id(), if top_is_good { &good } else { &bad });
            if !sub_first { std::fs::create_dir_all(&subdir).unwrap(); write_link(&subdir, "a", ka.key_id(), if top_is_good { &bad } else { &good }); }
            let res = no_panic(|| in_toto_verify(&lay, owner_keys(&[&owner]), d.path().to_str().unwrap(), None).is_ok());
            seen.entry(format!("top-level link {}: {:?}", if top_is_good { "conforming" } else { "violating" }, res)).or_default().push(sub.to_string());
        } } }
        let ok = seen.len() == 2 && seen.contains_key("top-level link conforming: Ok(true)") && seen.contains_key("top-level link violating: Ok(false)");
        r.case("same-named-link-in-a-sub-directory", json!({"sub_directories": names, "creation_orders": 2}), "the verdict is that of the top-level link, for every sub-directory name",
               format!("{:?}", seen.iter().map(|(k, v)| format!("{} x{}", k, v.len())).collect::<Vec<_>>()), ok);
    }
    let owner = key(1);
    let ks = [key(2), key(3), key(4), key(5)];
    // threshold 1, four valid authorised links that differ in their products
    for (id, rules) in [("summary", allow_all()),
                        ("verdict", vec![ArtifactRule::Create(VirtualTargetPath::new("p2".into()).unwrap()),
                                         ArtifactRule::Disallow(VirtualTargetPath::new("*".into()).unwrap())])] {
        let d = tmpdir();
        for (i, k) in ks.iter().enumerate() {
            let prod = format!("p{}", i);
            write_link(d.path(), "a", k.key_id(), &signed_link(&link("a", &[], &[(prod.as_str(), i as u8)]), &[k]));
        }
        let refs: Vec<&in_toto::crypto::PrivateKey> = ks.iter().collect();
        let l = layout(vec![step("a", 1, &refs, allow_all(), rules)], vec![], &refs, 30);
        let lay = signed_layout(&l, &[&owner]);
        let mut seen = BTreeSet::new();
        for _ in 0..crate::util::scale(40, 200) {
            let res = no_panic(|| in_toto_verify(&lay, owner_keys(&[&owner]), d.path().to_str().unwrap(), None));
            seen.insert(match &res { Ok(v) => verdict(v), Err(p) => format!("panic: {}", p) });
        }
        r.case(id, json!({"step": "a threshold 1", "links": "4 valid authorised links with different products", "repetitions": crate::util::scale(40, 200)}),
               "one outcome", format!("{} distinct outcomes: {:?}", seen.len(), seen), seen.len() == 1);
    }

    // the same co-signed link filed under both of its signers, plus a differing link of a third functionary whose key id lies between
    // theirs (threshold 1: no agreement is required, but the representative link and the verdict must not vary)
    {
        let owner = key(1);
        let mut pool: Vec<_> = (0..5).map(|_| fresh_key()).collect();
        pool.sort_by(|a, b| a.key_id().cmp(b.key_id()));
        for (x, z, y) in [(0usize, 1usize, 2usize), (0, 2, 4), (1, 2, 3)] {
            for strict_products in [false, true] {
                let d = tmpdir();
                let cosigned = signed_link(&link("a", &[], &[("p", 1)]), &[&pool[x], &pool[y]]);
                write_link(d.path(), "a", pool[x].key_id(), &cosigned);
                write_link(d.path(), "a", pool[y].key_id(), &cosigned);
                write_link(d.path(), "a", pool[z].key_id(), &signed_link(&link("a", &[], &[("q", 2)]), &[&pool[z]]));
                let prules = if strict_products { vec![ArtifactRule::Allow(VirtualTargetPath::new("p".into()).unwrap()), ArtifactRule::Disallow(VirtualTargetPath::new("*".into()).unwrap())] } else { allow_all() };
                let ks = [&pool[x], &pool[z], &pool[y]];
                let lay = signed_layout(&layout(vec![step("a", 1, &ks, allow_all(), prules)], vec![], &ks, 30), &[&owner]);
                let mut seen = BTreeSet::new();
                let reps = crate::util::scale(40, 200);
                for _ in 0..reps {
                    let res = no_panic(|| in_toto_verify(&lay, owner_keys(&[&owner]), d.path().to_str().unwrap(), None));
                    seen.insert(match &res { Ok(v) => verdict(v), Err(p) => format!("panic: {}", p) });
                }
                r.case("co-signed-link-under-both-signers-plus-a-third", json!({"key_ranks": [x, z, y], "product_rules": if strict_products { "ALLOW p; DISALLOW *" } else { "ALLOW *" }, "repetitions": reps}),
                       "one outcome", format!("{} distinct outcomes: {:?}", seen.len(), seen), seen.len() == 1);
            }
        }
    }
    // links whose recorded `name` is another step's name (the verifier goes by the file a link is filed in): a MATCH .. FROM that
    // other step must keep reading that step's own link, on every run
    for (id, audit_records) in [("misnamed-link-of-another-step", "build"), ("all-links-record-one-name", "final"), ("honest-names", "audit")] {
        use in_toto::models::{rule::Artifact, LinkMetadataBuilder};
        let owner = key(1); let (kb, ka, kf) = (key(2), key(3), key(4));
        let d = tmpdir();
        let mk = |name: &str, prods: &[(&str, u8)]| LinkMetadataBuilder::new().name(name.to_string()).products(artifacts(prods)).build().unwrap();
        let all_final = audit_records == "final";
        write_link(d.path(), "build", kb.key_id(), &signed_link(&mk(if all_final { "final" } else { "build" }, &[("x", 1)]), &[&kb]));
        write_link(d.path(), "audit", ka.key_id(), &signed_link(&mk(audit_records, &[("x", 2)]), &[&ka]));
        let fin = LinkMetadataBuilder::new().name("final".to_string()).materials(artifacts(&[("x", 1)])).build().unwrap();
        write_link(d.path(), "final", kf.key_id(), &signed_link(&fin, &[&kf]));
        let rules = vec![ArtifactRule::Match { pattern: VirtualTargetPath::new("x".into()).unwrap(), in_src: None, with: Artifact::Products, in_dst: None, from: "build".into() },
                         ArtifactRule::Disallow(VirtualTargetPath::new("*".into()).unwrap())];
        let lay = signed_layout(&layout(vec![step("build", 1, &[&kb], allow_all(), allow_all()), step("audit", 1, &[&ka], allow_all(), allow_all()),
                                             step("final", 1, &[&kf], rules, allow_all())], vec![], &[&kb, &ka, &kf], 30), &[&owner]);
        let mut seen = BTreeSet::new();
        let reps = crate::util::scale(40, 200);
        for _ in 0..reps {
            let res = no_panic(|| in_toto_verify(&lay, owner_keys(&[&owner]), d.path().to_str().unwrap(), None));
            seen.insert(match &res { Ok(v) => if v.is_ok() { "Ok".to_string() } else { "Err".to_string() }, Err(p) => format!("panic: {}", p) });
        }
        r.case(id, json!({"build.link": "x=1", "audit.link": format!("records name {:?}, x=2", audit_records), "final": "MATCH x WITH PRODUCTS FROM build; DISALLOW *", "repetitions": reps}),
               "Ok on every run (build's own link has the matching x)", format!("{:?}", seen), seen.len() == 1 && seen.contains("Ok"));
    }
}
