//! C08 witnesses: inspections run only after all step checks pass; a failing inspection is fatal.
use crate::fixture::*;
use crate::util::no_panic;
use crate::Report;
use in_toto::models::inspection::Inspection;
use in_toto::models::rule::ArtifactRule;
use in_toto::models::VirtualTargetPath;
use in_toto::verifylib::in_toto_verify;
use serde_json::json;
use std::sync::Mutex;

pub static CWD_LOCK: Mutex<()> = Mutex::new(());

fn inspection(name: &str, run: &[&str], mats: Vec<ArtifactRule>, prods: Vec<ArtifactRule>) -> Inspection {
    Inspection::new(name).run(cmd(run)).expected_materials(mats).expected_products(prods)
}

/// run a verification inside a fresh working directory (inspections run in the cwd);
/// returns (verdict, marker file created?, inspection link file written?)
fn run_case(steps_ok: StepFault, insp: Inspection) -> (Result<bool, String>, bool, bool) { run_case_n(steps_ok, vec![insp]) }
fn run_case_n(steps_ok: StepFault, insps: Vec<Inspection>) -> (Result<bool, String>, bool, bool) {
    let _g = CWD_LOCK.lock().unwrap();
    let owner = key(1);
    let ka = key(2);
    let work = tmpdir();
    let links = tmpdir();
    let la = link("a", &[], &[("x", 1)]);
    let signer = if let StepFault::WrongSigner = steps_ok { key(3) } else { key(2) };
    if !matches!(steps_ok, StepFault::MissingLink) {
        write_link(links.path(), "a", signer.key_id(), &signed_link(&la, &[&signer]));
    }
    let name = insps[0].name.clone();
    let vp = |s: &str| VirtualTargetPath::new(s.into()).unwrap();
    let step_rules = match steps_ok {
        StepFault::RuleFails => vec![ArtifactRule::Disallow(vp("*"))],
        // rules that mention the inspection (or another item) and then fail: still a failed step stage
        StepFault::RuleFailsAfterMatchFromInspection => vec![
            ArtifactRule::Match { pattern: vp("x"), in_src: None, with: in_toto::models::rule::Artifact::Products, in_dst: None, from: name.clone() },
            ArtifactRule::Disallow(vp("*"))],
        StepFault::RuleFailsAfterMatchFromItself => vec![
            ArtifactRule::Match { pattern: vp("nothing"), in_src: None, with: in_toto::models::rule::Artifact::Materials, in_dst: None, from: "a".into() },
            ArtifactRule::Disallow(vp("*"))],
        StepFault::RequireMissing => vec![ArtifactRule::Require(vp("absent")), ArtifactRule::Allow(vp("*"))],
        _ => allow_all() };
    let expiry = if let StepFault::Expired = steps_ok { -1 } else { 30 };
    // multi-party variants: threshold 2 with two functionaries whose links disagree, or with only one of the two links present
    let kb2 = key(6);
    let multi = matches!(steps_ok, StepFault::LinksDisagree | StepFault::TooFewLinks);
    if let StepFault::LinksDisagree = steps_ok { write_link(links.path(), "a", kb2.key_id(), &signed_link(&link("a", &[], &[("x", 2)]), &[&kb2])); }
    let l = if multi { layout(vec![step("a", 2, &[&ka, &kb2], allow_all(), step_rules)], insps, &[&ka, &kb2], expiry) }
            else { layout(vec![step("a", 1, &[&ka], allow_all(), step_rules)], insps, &[&ka], expiry) };
    let owners: Vec<&in_toto::crypto::PrivateKey> = if let StepFault::BadOwnerSig = steps_ok { vec![&ka] } else { vec![&owner] };
    let lay = signed_layout(&l, &owners);
    let old = std::env::current_dir().unwrap();
    std::env::set_current_dir(work.path()).unwrap();
    let res = no_panic(|| in_toto_verify(&lay, owner_keys(&[&owner]), links.path().to_str().unwrap(), None));
    let marker = work.path().join("marker").exists();
    let linkfile = work.path().join(format!("{}.link", name)).exists();
    std::env::set_current_dir(old).unwrap();
    (res.map(|r| r.is_ok()), marker, linkfile)
}

#[derive(Clone, Copy, Debug)]
enum StepFault { None, MissingLink, WrongSigner, RuleFails, RuleFailsAfterMatchFromInspection, RuleFailsAfterMatchFromItself, RequireMissing, Expired, BadOwnerSig, LinksDisagree, TooFewLinks }

pub fn run(r: &mut Report) {
    // 1. whenever an earlier stage fails, the inspection command must not have run
    for f in [StepFault::MissingLink, StepFault::WrongSigner, StepFault::RuleFails, StepFault::RuleFailsAfterMatchFromInspection, StepFault::RuleFailsAfterMatchFromItself, StepFault::RequireMissing, StepFault::Expired, StepFault::BadOwnerSig, StepFault::LinksDisagree, StepFault::TooFewLinks] {
        let (res, marker, linkfile) = run_case(f, inspection("insp", &["touch", "marker"], allow_all(), allow_all()));
        let ok = matches!(res, Ok(false)) && !marker && !linkfile;
        r.case("no-inspection-after-failed-stage", json!({"fault": format!("{:?}", f)}), "Err, command not run, no link file",
               format!("verdict_ok={:?} marker={} linkfile={}", res, marker, linkfile), ok);
    }
    // 2. healthy layout: inspection runs and verification succeeds
    let (res, marker, _) = run_case(StepFault::None, inspection("insp", &["touch", "marker"], allow_all(), allow_all()));
    r.case("inspection-runs-when-steps-verify", json!({}), "Ok and command ran", format!("verdict_ok={:?} marker={}", res, marker), matches!(res, Ok(true)) && marker);
    // 3. non-zero exit status is fatal
    for c in [vec!["false"], vec!["sh", "-c", "false"]] {
        let (res, _, _) = run_case(StepFault::None, inspection("insp", &c, allow_all(), allow_all()));
        r.case("nonzero-exit-is-fatal", json!({"run": c}), "Err", format!("verdict_ok={:?}", res), matches!(res, Ok(false)));
    }
    // a command killed by a signal has no zero exit status either
    std::fs::write("/tmp/verif_kill_self.sh", "#!/bin/sh\nkill -KILL $$\n").unwrap();
    let (res, _, _) = run_case(StepFault::None, inspection("insp", &["sh", "/tmp/verif_kill_self.sh"], allow_all(), allow_all()));
    let _ = std::fs::remove_file("/tmp/verif_kill_self.sh");
    r.case("killed-inspection-is-fatal", json!({"run": "sh script: kill -KILL $$"}), "Err", format!("verdict_ok={:?}", res), matches!(res, Ok(false)));
    let (res, _, _) = run_case(StepFault::None, inspection("insp", &["true"], allow_all(), allow_all()));
    r.case("zero-exit-is-accepted", json!({"run": ["true"]}), "Ok", format!("verdict_ok={:?}", res), matches!(res, Ok(true)));
    // 4. the inspection's own artifact rules are enforced on what it recorded
    let dis = vec![ArtifactRule::Disallow(VirtualTargetPath::new("*".into()).unwrap())];
    let (res, _, _) = run_case(StepFault::None, inspection("insp", &["touch", "marker"], allow_all(), dis.clone()));
    r.case("inspection-product-rule-enforced", json!({"expected_products": "DISALLOW *", "run": "touch marker"}), "Err", format!("verdict_ok={:?}", res), matches!(res, Ok(false)));
    // .. also when the inspection shares its name with a step (rules are looked up by name: the inspection's own recording must be what is checked)
    let allow_x_only = vec![ArtifactRule::Allow(VirtualTargetPath::new("x".into()).unwrap()), ArtifactRule::Disallow(VirtualTargetPath::new("*".into()).unwrap())];
    let (res, _, _) = run_case(StepFault::None, inspection("a", &["touch", "marker"], allow_all(), allow_x_only));
    r.case("inspection-rule-enforced-when-named-like-a-step", json!({"inspection": "a", "step": "a (its link records product x)", "expected_products": "ALLOW x; DISALLOW *", "run": "touch marker"}), "Err",
           format!("verdict_ok={:?}", res), matches!(res, Ok(false)));
    let (res, _, _) = run_case(StepFault::None, inspection("a", &["false"], allow_all(), allow_all()));
    r.case("nonzero-exit-is-fatal-when-named-like-a-step", json!({"inspection": "a", "step": "a", "run": ["false"]}), "Err", format!("verdict_ok={:?}", res), matches!(res, Ok(false)));
    // .. and its MATCH rules compare what it recorded (sha256 of the file it finds) with what the step recorded, whatever
    // algorithms the step used: only a step recording with exactly the same digest map lets the artifact through
    {
        use in_toto::crypto::{HashAlgorithm, HashValue};
        use in_toto::models::{LinkMetadataBuilder, TargetDescription, rule::Artifact};
        let dig = |alg: &HashAlgorithm, data: &[u8]| -> HashValue { HashValue::new(match alg {
            HashAlgorithm::Sha256 => ring::digest::digest(&ring::digest::SHA256, data).as_ref().to_vec(),
            _ => ring::digest::digest(&ring::digest::SHA512, data).as_ref().to_vec() }) };
        for (algs, algs_id) in [(vec![HashAlgorithm::Sha256], "sha256"), (vec![HashAlgorithm::Sha512], "sha512"), (vec![HashAlgorithm::Sha256, HashAlgorithm::Sha512], "sha256+sha512")] {
            for same_content in [true, false] {
                let _g = CWD_LOCK.lock().unwrap();
                let owner = key(1); let ka = key(2);
                let work = tmpdir(); let links = tmpdir();
                let recorded: &[u8] = if same_content { b"final" } else { b"other" };
                let td: TargetDescription = algs.iter().map(|a| (a.clone(), dig(a, recorded))).collect();
                let la = LinkMetadataBuilder::new().name("a".into()).products([(VirtualTargetPath::new("x".into()).unwrap(), td)].into_iter().collect()).build().unwrap();
                write_link(links.path(), "a", ka.key_id(), &signed_link(&la, &[&ka]));
                let src = links.path().join("final.src");
                std::fs::write(&src, b"final").unwrap();
                let insp = inspection("insp", &["cp", src.to_str().unwrap(), "x"], allow_all(),
                    vec![ArtifactRule::Match { pattern: VirtualTargetPath::new("x".into()).unwrap(), in_src: None, with: Artifact::Products, in_dst: None, from: "a".into() },
                         ArtifactRule::Disallow(VirtualTargetPath::new("*".into()).unwrap())]);
                let l = layout(vec![step("a", 1, &[&ka], allow_all(), allow_all())], vec![insp], &[&ka], 30);
                let lay = signed_layout(&l, &[&owner]);
                let old = std::env::current_dir().unwrap();
                std::env::set_current_dir(work.path()).unwrap();
                let res = no_panic(|| in_toto_verify(&lay, owner_keys(&[&owner]), links.path().to_str().unwrap(), None)).map(|v| v.is_ok());
                std::env::set_current_dir(old).unwrap();
                let expect = same_content && algs_id == "sha256";
                r.case("inspection-match-against-step-digests", json!({"step_recorded_with": algs_id, "file_found_equals_recorded": same_content}), if expect { "Ok" } else { "Err" },
                       format!("verdict_ok={:?}", res), res == Ok(expect));
            }
        }
    }
    // what an inspection records does not depend on what (or whether) it runs: a record-only inspection (empty command) and
    // inspections with commands see the same working directory, and their rules decide on it
    {
        use in_toto::crypto::{HashAlgorithm, HashValue};
        use in_toto::models::{LinkMetadataBuilder, TargetDescription, rule::Artifact};
        for (run_id, run) in [("no-command", vec![]), ("true", vec!["true".to_string()]), ("touch-existing", vec!["touch".to_string(), "x".to_string()])] {
            for (state, expect) in [("as-recorded", true), ("tampered", false), ("extra-file", false), ("missing", false)] {
                if state == "missing" && run_id == "touch-existing" { continue; }
                for (side, with_require) in [("materials", true), ("products", true), ("materials", false), ("products", false)] {
                    let _g = CWD_LOCK.lock().unwrap();
                    let owner = key(1); let ka = key(2);
                    let work = tmpdir(); let links = tmpdir();
                    let td: TargetDescription = [(HashAlgorithm::Sha256, HashValue::new(ring::digest::digest(&ring::digest::SHA256, b"final").as_ref().to_vec()))].into_iter().collect();
                    let la = LinkMetadataBuilder::new().name("a".into()).products([(VirtualTargetPath::new("x".into()).unwrap(), td)].into_iter().collect()).build().unwrap();
                    write_link(links.path(), "a", ka.key_id(), &signed_link(&la, &[&ka]));
                    match state { "as-recorded" => std::fs::write(work.path().join("x"), b"final").unwrap(), "tampered" => std::fs::write(work.path().join("x"), b"evil!").unwrap(),
                        "extra-file" => { std::fs::write(work.path().join("x"), b"final").unwrap(); std::fs::write(work.path().join("z"), b"more").unwrap() } _ => {} }
                    let args: Vec<&str> = run.iter().map(|s| s.as_str()).collect();
                    if !with_require && state == "missing" { continue; }   // (nothing demands the file then)
                    let rules = || vec![if with_require { ArtifactRule::Require(VirtualTargetPath::new("x".into()).unwrap()) } else { ArtifactRule::Allow(VirtualTargetPath::new("nothing-of-this-name".into()).unwrap()) },
                             ArtifactRule::Match { pattern: VirtualTargetPath::new("x".into()).unwrap(), in_src: None, with: Artifact::Products, in_dst: None, from: "a".into() },
                             ArtifactRule::Disallow(VirtualTargetPath::new("*".into()).unwrap())];
                    let insp = if side == "materials" { inspection("insp", &args, rules(), allow_all()) } else { inspection("insp", &args, allow_all(), rules()) };
                    let l = layout(vec![step("a", 1, &[&ka], allow_all(), allow_all())], vec![insp], &[&ka], 30);
                    let lay = signed_layout(&l, &[&owner]);
                    let old = std::env::current_dir().unwrap();
                    std::env::set_current_dir(work.path()).unwrap();
                    let full = no_panic(|| in_toto_verify(&lay, owner_keys(&[&owner]), links.path().to_str().unwrap(), None));
                    let res = full.as_ref().map(|v| v.is_ok()).map_err(|e| e.clone());
                    std::env::set_current_dir(old).unwrap();
                    r.case("inspection-records-whatever-it-runs", json!({"run": run_id, "working_directory": state, "rules_on": side, "require_rule": with_require}), if expect { "Ok" } else { "Err" },
                           format!("verdict_ok={:?} {}", res, full.as_ref().ok().and_then(|v| v.as_ref().err().map(|e| e.to_string())).unwrap_or_default()), res == Ok(expect));
                }
            }
        }
    }
    inspection_order(r);
    crate::c15::surplus_failing_sublayout(r);
    // several inspections: EVERY one of them must have exited with 0, also when two of them share a name, in either order
    for (id, runs, expect) in [("two-inspections-second-fails", vec![("i1", "true"), ("i2", "false")], false), ("two-inspections-first-fails", vec![("i1", "false"), ("i2", "true")], false),
                               ("same-name-first-fails", vec![("dup", "false"), ("dup", "true")], false), ("same-name-second-fails", vec![("dup", "true"), ("dup", "false")], false),
                               ("same-name-both-pass", vec![("dup", "true"), ("dup", "true")], true)] {
        let insps: Vec<Inspection> = runs.iter().map(|(n, c)| inspection(n, &[c], allow_all(), allow_all())).collect();
        let (res, _, _) = run_case_n(StepFault::None, insps);
        r.case(id, json!({"inspections": runs}), if expect { "Ok" } else { "Err" }, format!("verdict_ok={:?}", res), res == Ok(expect));
    }
    let (res, _, _) = run_case(StepFault::None, inspection("insp", &["sh", "-c", "echo x > pre; true"], allow_all(), allow_all()));
    r.case("inspection-allow-all", json!({}), "Ok", format!("verdict_ok={:?}", res), matches!(res, Ok(true)));
}

/// C08 / C13
pub fn inspection_order(r: &mut Report) {
    // inspections run in the order the layout lists them, and each one records the working directory as it finds it - including the
    // link files earlier inspections left there.  Repeated in fresh directories (the verdict must not vary).
    {
        let none = || vec![ArtifactRule::Disallow(VirtualTargetPath::new("*".into()).unwrap())];
        let no_links = || vec![ArtifactRule::Disallow(VirtualTargetPath::new("*.link".into()).unwrap()), ArtifactRule::Allow(VirtualTargetPath::new("*".into()).unwrap())];
        let cases: Vec<(&str, Vec<Inspection>, bool)> = vec![
            ("first-forbids-everything-second-free", vec![inspection("first", &["true"], none(), allow_all()), inspection("second", &["true"], allow_all(), allow_all())], true),
            ("first-free-second-forbids-everything", vec![inspection("first", &["true"], allow_all(), allow_all()), inspection("second", &["true"], none(), allow_all())], false),
            ("first-forbids-link-files-second-free", vec![inspection("check-clean", &["true"], no_links(), allow_all()), inspection("report", &["true"], allow_all(), allow_all())], true),
            ("second-forbids-link-files", vec![inspection("report", &["true"], allow_all(), allow_all()), inspection("check-clean", &["true"], no_links(), allow_all())], false),
            ("three-inspections-last-forbids-link-files", vec![inspection("zeta", &["true"], allow_all(), allow_all()), inspection("alpha", &["true"], allow_all(), allow_all()), inspection("mid", &["true"], no_links(), allow_all())], false),
            ("three-inspections-first-forbids-link-files", vec![inspection("mid", &["true"], no_links(), allow_all()), inspection("zeta", &["true"], allow_all(), allow_all()), inspection("alpha", &["true"], allow_all(), allow_all())], true),
        ];
        for (id, insps, expect) in cases {
            let mut seen = std::collections::BTreeSet::new();
            let reps = crate::util::scale(12, 60);
            for _ in 0..reps {
                let (res, _, _) = run_case_n(StepFault::None, insps.clone());
                seen.insert(format!("{:?}", res));
            }
            let want = format!("Ok({})", expect);
            r.case("inspection-order-and-what-each-finds", json!({"scenario": id, "repetitions": reps}), &format!("{} on every run", want), format!("{:?}", seen), seen.len() == 1 && seen.contains(&want));
        }
    }
}
