//! Helpers to build keys, layouts, links and link directories against the real API.
use in_toto::crypto::{KeyId, KeyType, PrivateKey, PublicKey, SignatureScheme};
use in_toto::models::{
    inspection::Inspection, rule::ArtifactRule, step::{Command, Step}, LayoutMetadataBuilder,
    LinkMetadata, LinkMetadataBuilder, Metablock, MetablockBuilder, MetadataWrapper, TargetDescription,
    VirtualTargetPath,
};
use std::collections::{BTreeMap, HashMap};
use std::path::Path;

pub fn key(n: usize) -> PrivateKey {
    // deterministic ed25519 keys shipped with the repository's test data
    let p = format!("/repo/tests/ed25519/ed25519-{}.pk8.der", n);
    let der = std::fs::read(&p).expect("key file");
    PrivateKey::from_pkcs8(&der, SignatureScheme::Ed25519).expect("pkcs8")
}

pub fn fresh_key() -> PrivateKey {
    let der = PrivateKey::new(KeyType::Ed25519).unwrap();
    PrivateKey::from_pkcs8(&der, SignatureScheme::Ed25519).unwrap()
}

pub fn artifacts(items: &[(&str, u8)]) -> BTreeMap<VirtualTargetPath, TargetDescription> {
    let mut m = BTreeMap::new();
    for (p, d) in items {
        let mut td: TargetDescription = HashMap::new();
        td.insert(in_toto::crypto::HashAlgorithm::Sha256, in_toto::crypto::HashValue::new(vec![*d; 32]));
        m.insert(VirtualTargetPath::new(p.to_string()).unwrap(), td);
    }
    m
}

pub fn link(name: &str, materials: &[(&str, u8)], products: &[(&str, u8)]) -> LinkMetadata {
    LinkMetadataBuilder::new()
        .name(name.to_string())
        .materials(artifacts(materials))
        .products(artifacts(products))
        .build()
        .unwrap()
}

pub fn signed_link(l: &LinkMetadata, keys: &[&PrivateKey]) -> Metablock {
    MetablockBuilder::from_metadata(Box::new(l.clone())).sign(keys).unwrap().build()
}

pub fn write_link(dir: &Path, step: &str, signer_file_key: &KeyId, mb: &Metablock) {
    let f = dir.join(format!("{}.{}.link", step, signer_file_key.prefix()));
    std::fs::write(f, serde_json::to_string(mb).unwrap()).unwrap();
}

pub fn step(name: &str, threshold: u32, keys: &[&PrivateKey], mats: Vec<ArtifactRule>, prods: Vec<ArtifactRule>) -> Step {
    let mut s = Step::new(name).threshold(threshold);
    for k in keys {
        s = s.add_key(k.key_id().clone());
    }
    s.expected_materials(mats).expected_products(prods)
}

pub fn layout(steps: Vec<Step>, inspections: Vec<Inspection>, functionaries: &[&PrivateKey], expires_in_days: i64) -> in_toto::models::LayoutMetadata {
    let mut b = LayoutMetadataBuilder::new()
        .expires(chrono::Utc::now() + chrono::Duration::days(expires_in_days))
        .steps(steps)
        .inspects(inspections);
    for k in functionaries {
        b = b.add_key(k.public().clone());
    }
    b.build().unwrap()
}

pub fn signed_layout(l: &in_toto::models::LayoutMetadata, owners: &[&PrivateKey]) -> Metablock {
    MetablockBuilder::from_metadata(Box::new(l.clone())).sign(owners).unwrap().build()
}

pub fn owner_keys(owners: &[&PrivateKey]) -> HashMap<KeyId, PublicKey> {
    owners.iter().map(|k| (k.key_id().clone(), k.public().clone())).collect()
}

pub fn allow_all() -> Vec<ArtifactRule> {
    vec![ArtifactRule::Allow(VirtualTargetPath::new("*".into()).unwrap())]
}

pub fn cmd(args: &[&str]) -> Command {
    Command::from(args.join(" ").as_str())
}

pub fn tmpdir() -> tempfile::TempDir {
    tempfile::tempdir().unwrap()
}

pub fn verdict(r: &in_toto::Result<Metablock>) -> String {
    match r {
        Ok(mb) => match &mb.metadata {
            MetadataWrapper::Link(l) => format!("Ok(materials={:?}, products={:?})", l.materials.keys().collect::<Vec<_>>(), l.products.keys().collect::<Vec<_>>()),
            _ => "Ok(layout?)".into(),
        },
        Err(e) => format!("Err({})", e),
    }
}
