// ---- C05: the newline un-escaping applied before signing is injective on canonical JSON ----
pub open spec fn no_lf(s: Seq<char>) -> bool { forall|i: int| 0 <= i < s.len() ==> #[trigger] s[i] != '\n' }
pub open spec fn no_lf_byte(b: Seq<u8>) -> bool { forall|i: int| 0 <= i < b.len() ==> #[trigger] b[i] != 0x0au8 }
// inverse of unesc_nl on its image of line-feed-free texts
pub open spec fn resc_nl(t: Seq<char>) -> Seq<char>
    decreases t.len()
{
    if t.len() == 0 { seq![] }
    else if t[0] == '\n' { seq!['\\', 'n'] + resc_nl(t.subrange(1, t.len() as int)) }
    else { seq![t[0]] + resc_nl(t.subrange(1, t.len() as int)) }
}
pub proof fn lemma_unesc_inverse(s: Seq<char>)   // [C05]
    requires no_lf(s)
    ensures resc_nl(unesc_nl(s)) == s
    decreases s.len()
{
    if s.len() == 0 {
    } else if s.len() >= 2 && s[0] == '\\' && s[1] == 'n' {
        let r = s.subrange(2, s.len() as int);
        assert(no_lf(r)) by { assert forall|i: int| 0 <= i < r.len() implies #[trigger] r[i] != '\n' by { assert(r[i] == s[i + 2]); } }
        lemma_unesc_inverse(r);
        let u = seq!['\n'] + unesc_nl(r);
        assert(unesc_nl(s) == u);
        assert(u.subrange(1, u.len() as int) =~= unesc_nl(r));
        assert(resc_nl(u) == seq!['\\', 'n'] + resc_nl(unesc_nl(r)));
        assert(seq!['\\', 'n'] + r =~= s);
    } else {
        let r = s.subrange(1, s.len() as int);
        assert(no_lf(r)) by { assert forall|i: int| 0 <= i < r.len() implies #[trigger] r[i] != '\n' by { assert(r[i] == s[i + 1]); } }
        lemma_unesc_inverse(r);
        let u = seq![s[0]] + unesc_nl(r);
        assert(unesc_nl(s) == u);
        assert(u[0] == s[0] && s[0] != '\n');
        assert(u.subrange(1, u.len() as int) =~= unesc_nl(r));
        assert(resc_nl(u) == seq![s[0]] + resc_nl(unesc_nl(r)));
        assert(seq![s[0]] + r =~= s);
    }
}
pub proof fn lemma_unesc_injective(a: Seq<char>, b: Seq<char>)   // [C05]
    requires no_lf(a), no_lf(b), unesc_nl(a) == unesc_nl(b)
    ensures a == b
{
    lemma_unesc_inverse(a);
    lemma_unesc_inverse(b);
}
// a text whose UTF-8 encoding has no 0x0A byte has no line feed character (proved from vstd::utf8)
pub proof fn lemma_no_lf_byte_no_lf_char(c: Seq<char>)   // [C05]
    requires no_lf_byte(vstd::utf8::encode_utf8(c))
    ensures no_lf(c)
{
    assert forall|i: int| 0 <= i < c.len() implies #[trigger] c[i] != '\n' by {
        if c[i] == '\n' {
            let pre = c.subrange(0, i);
            let mid = seq!['\n'];
            let post = c.subrange(i + 1, c.len() as int);
            assert(c =~= pre + mid + post);
            vstd::utf8::encode_utf8_concat(pre, mid);
            vstd::utf8::encode_utf8_concat(pre + mid, post);
            assert(vstd::utf8::is_ascii_chars(mid)) by { assert forall|k: int| 0 <= k < mid.len() implies (#[trigger] mid[k] as u32) < 128 by {} }
            vstd::utf8::is_ascii_chars_encode_utf8(mid);
            let e = vstd::utf8::encode_utf8(c);
            let ep = vstd::utf8::encode_utf8(pre);
            assert(vstd::utf8::encode_utf8(mid)[0] == 0x0au8);
            assert(e == ep + vstd::utf8::encode_utf8(mid) + vstd::utf8::encode_utf8(post));
            assert(e[ep.len() as int] == 0x0au8);
            assert(false);
        }
    }
}
// signed_text is injective on line-feed-free valid UTF-8 (in particular on canonical JSON, see lemma_enc_no_lf)
pub proof fn lemma_signed_text_injective_bytes(p: Seq<u8>, q: Seq<u8>)   // [C05]
    requires vstd::utf8::valid_utf8(p), vstd::utf8::valid_utf8(q), no_lf_byte(p), no_lf_byte(q), signed_text(p) == signed_text(q)
    ensures p == q
{
    let cp = vstd::utf8::decode_utf8(p);
    let cq = vstd::utf8::decode_utf8(q);
    vstd::utf8::decode_utf8_encode_utf8(p);
    vstd::utf8::decode_utf8_encode_utf8(q);
    lemma_no_lf_byte_no_lf_char(cp);
    lemma_no_lf_byte_no_lf_char(cq);
    fact_replace_is_unesc_nl(cp);
    fact_replace_is_unesc_nl(cq);
    fact_encode_utf8_injective(unesc_nl(cp), unesc_nl(cq));
    lemma_unesc_injective(cp, cq);
}
