// ---- C20: the DSSE v1 pre-authentication encoding as a mathematical function ----
pub open spec fn pae_header(t: Seq<char>, plen: nat) -> Seq<char> {
    "DSSEv1"@ + " "@ + dec(vstd::utf8::encode_utf8(t).len()) + " "@ + t + " "@ + dec(plen) + " "@
}
pub open spec fn spec_pae(t: Seq<char>, p: Seq<u8>) -> Seq<u8> {
    vstd::utf8::encode_utf8(pae_header(t, p.len())) + p
}

// ---- the decoder as a mathematical function (mirrors consume_load_len / pae_unpack step by step) ----
pub open spec fn is_sp() -> spec_fn(u8) -> bool { |b: u8| b == 0x20u8 }
pub open spec fn spec_consume(raw: Seq<u8>) -> Option<(usize, Seq<u8>)> {
    let i = first_idx(raw, is_sp());
    let l = if i < raw.len() { raw.subrange(0, i) } else { raw };
    if !vstd::utf8::valid_utf8(l) { None }
    else if parse_spec::<usize>(vstd::utf8::decode_utf8(l)) is None { None }
    else if i >= raw.len() { None }
    else { Some((parse_spec::<usize>(vstd::utf8::decode_utf8(l))->0, raw.subrange(i + 1, raw.len() as int))) }
}
pub open spec fn pae_prefix() -> Seq<u8> { vstd::utf8::encode_utf8("DSSEv1"@ + " "@) }
pub open spec fn spec_unpack(bytes: Seq<u8>) -> Option<(Seq<u8>, Seq<char>)> {
    let pre = pae_prefix();
    if !(pre.len() <= bytes.len() && bytes.subrange(0, pre.len() as int) == pre) { None } else {
    let raw0 = bytes.subrange(pre.len() as int, bytes.len() as int);
    match spec_consume(raw0) { None => None, Some((tlen, raw1)) =>
    if raw1.len() <= tlen { None }
    else if !vstd::utf8::valid_utf8(raw1.subrange(0, tlen as int)) { None }
    else { match spec_consume(raw1.subrange(tlen + 1, raw1.len() as int)) { None => None, Some((plen, raw2)) =>
    if raw2.len() < plen { None }
    else { Some((raw2.subrange(0, plen as int), vstd::utf8::decode_utf8(raw1.subrange(0, tlen as int)))) } } } } }
}

// ---- lemmas: decimal rendering ----
pub proof fn lemma_dec_digits(n: nat)   // [C20]
    ensures dec(n).len() >= 1,
            forall|i: int| 0 <= i < dec(n).len() ==> '0' <= #[trigger] dec(n)[i] <= '9',
    decreases n
{
    if n >= 10 { lemma_dec_digits(n / 10); }
}
pub proof fn lemma_dec_ascii_nosp(n: nat)   // [C20]
    ensures vstd::utf8::is_ascii_chars(dec(n)),
            vstd::utf8::encode_utf8(dec(n)).len() == dec(n).len(),
            forall|i: int| 0 <= i < dec(n).len() ==> #[trigger] vstd::utf8::encode_utf8(dec(n))[i] != 0x20u8,
{
    lemma_dec_digits(n);
    assert(vstd::utf8::is_ascii_chars(dec(n))) by {
        assert forall|i: int| 0 <= i < dec(n).len() implies (#[trigger] dec(n)[i] as u32) < 128 by {}
    }
    vstd::utf8::is_ascii_chars_encode_utf8(dec(n));
}
pub proof fn lemma_first_idx_skip<T>(a: Seq<T>, b: Seq<T>, p: spec_fn(T) -> bool)
    requires forall|i: int| 0 <= i < a.len() ==> !p(#[trigger] a[i]),
    ensures first_idx(a + b, p) == a.len() + first_idx(b, p),
    decreases a.len()
{
    if a.len() == 0 { assert(a + b =~= b); }
    else {
        assert((a + b)[0] == a[0]);
        assert((a + b).drop_first() =~= a.drop_first() + b);
        assert forall|i: int| 0 <= i < a.drop_first().len() implies !p(#[trigger] a.drop_first()[i]) by { assert(a.drop_first()[i] == a[i + 1]); }
        lemma_first_idx_skip(a.drop_first(), b, p);
    }
}
// consuming `dec(n) ' ' rest` yields (n, rest)
pub proof fn lemma_consume_dec(n: nat, rest: Seq<u8>)   // [C20]
    requires n <= usize::MAX
    ensures spec_consume(vstd::utf8::encode_utf8(dec(n)) + seq![0x20u8] + rest) == Some((n as usize, rest))
{
    let d = vstd::utf8::encode_utf8(dec(n));
    let tail = seq![0x20u8] + rest;
    let raw = d + seq![0x20u8] + rest;
    lemma_dec_ascii_nosp(n);
    assert(raw =~= d + tail);
    assert forall|i: int| 0 <= i < d.len() implies !is_sp()(#[trigger] d[i]) by {}
    lemma_first_idx_skip(d, tail, is_sp());
    assert(is_sp()(tail[0]));
    assert(first_idx(tail, is_sp()) == 0);
    assert(first_idx(raw, is_sp()) == d.len());
    assert(raw.subrange(0, d.len() as int) =~= d);
    assert(raw.subrange(d.len() as int + 1, raw.len() as int) =~= rest);
    vstd::utf8::encode_utf8_valid_utf8(dec(n));
    vstd::utf8::encode_utf8_decode_utf8(dec(n));
    fact_parse_usize_dec(n);
}

// ---- C20: unpack after pack returns the original pair; pack is injective ----
pub proof fn lemma_pae_roundtrip(t: Seq<char>, p: Seq<u8>)   // [C20]
    requires p.len() <= usize::MAX
    ensures spec_unpack(spec_pae(t, p)) == Some((p, t))
{
    let tb = vstd::utf8::encode_utf8(t);
    fact_str_len_fits(t);
    let sp = seq![0x20u8];
    let pre = pae_prefix();
    let d1 = vstd::utf8::encode_utf8(dec(tb.len()));
    let d2 = vstd::utf8::encode_utf8(dec(p.len()));
    // the header splits into its encoded pieces
    assert(vstd::utf8::encode_utf8(" "@) =~= sp) by {
        reveal_strlit(" ");
        assert(" "@ =~= seq![' ']);
        assert(vstd::utf8::is_ascii_chars(" "@)) by { assert forall|i: int| 0 <= i < " "@.len() implies (#[trigger] " "@[i] as u32) < 128 by {} }
        vstd::utf8::is_ascii_chars_encode_utf8(" "@);
    }
    let h = pae_header(t, p.len());
    assert(vstd::utf8::encode_utf8(h) == pre + d1 + sp + tb + sp + d2 + sp) by {
        vstd::utf8::encode_utf8_concat("DSSEv1"@, " "@);
        vstd::utf8::encode_utf8_concat("DSSEv1"@ + " "@, dec(tb.len()));
        vstd::utf8::encode_utf8_concat("DSSEv1"@ + " "@ + dec(tb.len()), " "@);
        vstd::utf8::encode_utf8_concat("DSSEv1"@ + " "@ + dec(tb.len()) + " "@, t);
        vstd::utf8::encode_utf8_concat("DSSEv1"@ + " "@ + dec(tb.len()) + " "@ + t, " "@);
        vstd::utf8::encode_utf8_concat("DSSEv1"@ + " "@ + dec(tb.len()) + " "@ + t + " "@, dec(p.len()));
        vstd::utf8::encode_utf8_concat("DSSEv1"@ + " "@ + dec(tb.len()) + " "@ + t + " "@ + dec(p.len()), " "@);
    }
    let bytes = spec_pae(t, p);
    let raw0 = d1 + sp + (tb + sp + d2 + sp + p);
    assert(bytes =~= pre + raw0);
    assert(bytes.subrange(0, pre.len() as int) =~= pre);
    assert(bytes.subrange(pre.len() as int, bytes.len() as int) =~= raw0);
    let raw1 = tb + sp + d2 + sp + p;
    lemma_consume_dec(tb.len(), raw1);
    assert(raw1.subrange(0, tb.len() as int) =~= tb);
    vstd::utf8::encode_utf8_valid_utf8(t);
    vstd::utf8::encode_utf8_decode_utf8(t);
    let raw1b = d2 + sp + p;
    assert(raw1.subrange(tb.len() as int + 1, raw1.len() as int) =~= raw1b);
    lemma_consume_dec(p.len(), p);
    assert(p.subrange(0, p.len() as int) =~= p);
}
pub proof fn lemma_pae_injective(t1: Seq<char>, p1: Seq<u8>, t2: Seq<char>, p2: Seq<u8>)   // [C20]
    requires p1.len() <= usize::MAX, p2.len() <= usize::MAX, spec_pae(t1, p1) == spec_pae(t2, p2)
    ensures t1 == t2, p1 == p2
{
    lemma_pae_roundtrip(t1, p1);
    lemma_pae_roundtrip(t2, p2);
}
