// ---- C20: the DSSE v1 pre-authentication encoding as a mathematical function ----
pub open spec fn pae_header(t: Seq<char>, plen: nat) -> Seq<char> {
    "DSSEv1"@ + " "@ + dec(vstd::utf8::encode_utf8(t).len()) + " "@ + t + " "@ + dec(plen) + " "@
}
pub open spec fn spec_pae(t: Seq<char>, p: Seq<u8>) -> Seq<u8> {
    vstd::utf8::encode_utf8(pae_header(t, p.len())) + p
}
