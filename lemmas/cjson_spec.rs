// ---- C10/C05: canonical JSON as a mathematical function of an abstract JSON value ----
pub enum JVal {
    Null,
    Bool(bool),
    Int(int),
    Str(Seq<char>),
    Arr(Seq<JVal>),
    Obj(Seq<(Seq<char>, JVal)>),   // members in the order they are written
}
pub open spec fn bytes_of(s: Seq<char>) -> Seq<u8> { vstd::utf8::encode_utf8(s) }
pub open spec fn esc(s: Seq<char>) -> Seq<u8> { bytes_of(serde_json::json_escape(s)) }
pub open spec fn enc(j: JVal) -> Seq<u8>
    decreases j, 0int
{
    match j {
        JVal::Null => seq![0x6eu8, 0x75u8, 0x6cu8, 0x6cu8],
        JVal::Bool(true) => seq![0x74u8, 0x72u8, 0x75u8, 0x65u8],
        JVal::Bool(false) => seq![0x66u8, 0x61u8, 0x6cu8, 0x73u8, 0x65u8],
        JVal::Int(n) => bytes_of(itoa::dec_int(n)),
        JVal::Str(s) => esc(s),
        JVal::Arr(a) => seq![0x5bu8] + enc_elems(a, a.len() as int) + seq![0x5du8],
        JVal::Obj(o) => seq![0x7bu8] + enc_members(o, o.len() as int) + seq![0x7du8],
    }
}
// the first n elements, separated by ',' (what the writer has emitted after n iterations)
pub open spec fn enc_elems(a: Seq<JVal>, n: int) -> Seq<u8>
    decreases a, n
{
    if n <= 0 || n > a.len() { seq![] } else {
        enc_elems(a, n - 1) + (if n == 1 { seq![] } else { seq![0x2cu8] }) + enc(a[n - 1])
    }
}
pub open spec fn enc_members(o: Seq<(Seq<char>, JVal)>, n: int) -> Seq<u8>
    decreases o, n
{
    if n <= 0 || n > o.len() { seq![] } else {
        enc_members(o, n - 1) + (if n == 1 { seq![] } else { seq![0x2cu8] }) + esc(o[n - 1].0) + seq![0x3au8] + enc(o[n - 1].1)
    }
}
