// ---- C05: the canonical encoding `enc` is injective (indeed uniquely decodable from the left) ----
// Assumed about the two token writers that are outside the repository (serde_json's string token, itoa's integers):
#[verifier::external_body]
pub proof fn fact_esc_shape(s: Seq<char>)
    ensures esc(s).len() >= 2, esc(s)[0] == 0x22u8,
{}
// a JSON string token ends at its first unescaped quote: tokens are self-delimiting and determine their text
#[verifier::external_body]
pub proof fn fact_esc_self_delimiting(s: Seq<char>, t: Seq<char>, x: Seq<u8>, y: Seq<u8>)
    requires esc(s) + x == esc(t) + y
    ensures s == t, x == y
{}
// decimal rendering: an optional '-' and digits, and different integers render differently
#[verifier::external_body]
pub proof fn fact_dec_int_shape(n: int)
    ensures bytes_of(itoa::dec_int(n)).len() >= 1,
            forall|i: int| 0 <= i < bytes_of(itoa::dec_int(n)).len() ==> is_num_byte(#[trigger] bytes_of(itoa::dec_int(n))[i]),
{}
#[verifier::external_body]
pub proof fn fact_dec_int_injective(n: int, m: int)
    requires itoa::dec_int(n) == itoa::dec_int(m)
    ensures n == m
{}

pub open spec fn is_num_byte(b: u8) -> bool { b == 0x2du8 || (0x30u8 <= b && b <= 0x39u8) }
pub open spec fn is_term(b: u8) -> bool { b == 0x2cu8 || b == 0x5du8 || b == 0x7du8 }
pub open spec fn term_led(x: Seq<u8>) -> bool { x.len() == 0 || is_term(x[0]) }
pub open spec fn is_starter(b: u8) -> bool {
    b == 0x6eu8 || b == 0x74u8 || b == 0x66u8 || b == 0x22u8 || b == 0x5bu8 || b == 0x7bu8 || is_num_byte(b)
}
// right-to-left readings of what the writer emits for elements i.. / members i..
pub open spec fn elems_from(a: Seq<JVal>, i: int) -> Seq<u8>
    decreases a, a.len() - i
{
    if i < 0 || i >= a.len() { seq![] }
    else if i + 1 < a.len() { enc(a[i]) + seq![0x2cu8] + elems_from(a, i + 1) }
    else { enc(a[i]) }
}
pub open spec fn members_from(o: Seq<(Seq<char>, JVal)>, i: int) -> Seq<u8>
    decreases o, o.len() - i
{
    if i < 0 || i >= o.len() { seq![] }
    else if i + 1 < o.len() { esc(o[i].0) + seq![0x3au8] + enc(o[i].1) + seq![0x2cu8] + members_from(o, i + 1) }
    else { esc(o[i].0) + seq![0x3au8] + enc(o[i].1) }
}

pub proof fn lemma_cancel_prefix(p: Seq<u8>, q: Seq<u8>, x: Seq<u8>, y: Seq<u8>)
    requires p + x == q + y, p.len() == q.len()
    ensures p == q, x == y
{
    assert(p =~= (p + x).subrange(0, p.len() as int));
    assert(q =~= (q + y).subrange(0, q.len() as int));
    assert(x =~= (p + x).subrange(p.len() as int, (p + x).len() as int));
    assert(y =~= (q + y).subrange(q.len() as int, (q + y).len() as int));
}
pub proof fn lemma_strip1(c: u8, x: Seq<u8>, y: Seq<u8>)
    requires seq![c] + x == seq![c] + y
    ensures x == y
{
    lemma_cancel_prefix(seq![c], seq![c], x, y);
}
pub proof fn lemma_first_byte(j: JVal)   // [C05]
    ensures enc(j).len() >= 1, is_starter(enc(j)[0]),
        match j {
            JVal::Null => enc(j)[0] == 0x6eu8,
            JVal::Bool(true) => enc(j)[0] == 0x74u8,
            JVal::Bool(false) => enc(j)[0] == 0x66u8,
            JVal::Int(_) => is_num_byte(enc(j)[0]),
            JVal::Str(_) => enc(j)[0] == 0x22u8,
            JVal::Arr(_) => enc(j)[0] == 0x5bu8,
            JVal::Obj(_) => enc(j)[0] == 0x7bu8,
        },
{
    match j {
        JVal::Int(n) => { fact_dec_int_shape(n); }
        JVal::Str(s) => { fact_esc_shape(s); }
        _ => {}
    }
}
// the writer's left-to-right accumulation equals the right-to-left reading
pub proof fn lemma_elems_split(a: Seq<JVal>, i: int)   // [C05]
    requires 0 <= i <= a.len()
    ensures enc_elems(a, a.len() as int) == enc_elems(a, i) + (if 0 < i < a.len() { seq![0x2cu8] } else { seq![] }) + elems_from(a, i)
    decreases a.len() - i
{
    let n = a.len() as int;
    if i == n {
        assert(enc_elems(a, n) =~= enc_elems(a, n) + Seq::<u8>::empty() + Seq::<u8>::empty());
    } else {
        lemma_elems_split(a, i + 1);
        let sep_i: Seq<u8> = if 0 < i { seq![0x2cu8] } else { seq![] };
        let sep_i1: Seq<u8> = if i + 1 < n { seq![0x2cu8] } else { seq![] };
        assert(enc_elems(a, i + 1) == enc_elems(a, i) + sep_i + enc(a[i]));
        if i + 1 < n {
            assert(elems_from(a, i) == enc(a[i]) + seq![0x2cu8] + elems_from(a, i + 1));
            assert(enc_elems(a, i) + sep_i + enc(a[i]) + sep_i1 + elems_from(a, i + 1) =~= enc_elems(a, i) + sep_i + (enc(a[i]) + seq![0x2cu8] + elems_from(a, i + 1)));
        } else {
            assert(elems_from(a, i + 1) =~= Seq::<u8>::empty());
            assert(elems_from(a, i) == enc(a[i]));
            assert(enc_elems(a, i) + sep_i + enc(a[i]) + sep_i1 + elems_from(a, i + 1) =~= enc_elems(a, i) + sep_i + enc(a[i]));
        }
    }
}
pub proof fn lemma_members_split(o: Seq<(Seq<char>, JVal)>, i: int)   // [C05]
    requires 0 <= i <= o.len()
    ensures enc_members(o, o.len() as int) == enc_members(o, i) + (if 0 < i < o.len() { seq![0x2cu8] } else { seq![] }) + members_from(o, i)
    decreases o.len() - i
{
    let n = o.len() as int;
    if i == n {
        assert(enc_members(o, n) =~= enc_members(o, n) + Seq::<u8>::empty() + Seq::<u8>::empty());
    } else {
        lemma_members_split(o, i + 1);
        let sep_i: Seq<u8> = if 0 < i { seq![0x2cu8] } else { seq![] };
        let sep_i1: Seq<u8> = if i + 1 < n { seq![0x2cu8] } else { seq![] };
        let m = esc(o[i].0) + seq![0x3au8] + enc(o[i].1);
        assert(enc_members(o, i + 1) == enc_members(o, i) + sep_i + esc(o[i].0) + seq![0x3au8] + enc(o[i].1));
        assert(enc_members(o, i + 1) =~= enc_members(o, i) + sep_i + m);
        if i + 1 < n {
            assert(members_from(o, i) == m + seq![0x2cu8] + members_from(o, i + 1));
            assert(enc_members(o, i) + sep_i + m + sep_i1 + members_from(o, i + 1) =~= enc_members(o, i) + sep_i + (m + seq![0x2cu8] + members_from(o, i + 1)));
        } else {
            assert(members_from(o, i + 1) =~= Seq::<u8>::empty());
            assert(members_from(o, i) == m);
            assert(enc_members(o, i) + sep_i + m + sep_i1 + members_from(o, i + 1) =~= enc_members(o, i) + sep_i + m);
        }
    }
}

pub proof fn lemma_head_byte(e: Seq<u8>, x: Seq<u8>)
    requires e.len() >= 1
    ensures (e + x)[0] == e[0]
{}
pub proof fn lemma_int_case(n: int, m: int, x: Seq<u8>, y: Seq<u8>)   // [C05]
    requires bytes_of(itoa::dec_int(n)) + x == bytes_of(itoa::dec_int(m)) + y, term_led(x), term_led(y)
    ensures n == m, x == y
{
    let ea = bytes_of(itoa::dec_int(n));
    let eb = bytes_of(itoa::dec_int(m));
    fact_dec_int_shape(n);
    fact_dec_int_shape(m);
    assert((ea + x).len() == (eb + y).len());
    if ea.len() < eb.len() {
        assert(x.len() > 0);
        assert(x[0] == (ea + x)[ea.len() as int]);
        assert((eb + y)[ea.len() as int] == eb[ea.len() as int]);
        assert(is_num_byte(eb[ea.len() as int]));
        assert(false);
    }
    if eb.len() < ea.len() {
        assert(y.len() > 0);
        assert(y[0] == (eb + y)[eb.len() as int]);
        assert((ea + x)[eb.len() as int] == ea[eb.len() as int]);
        assert(is_num_byte(ea[eb.len() as int]));
        assert(false);
    }
    lemma_cancel_prefix(ea, eb, x, y);
    fact_encode_utf8_injective(itoa::dec_int(n), itoa::dec_int(m));
    fact_dec_int_injective(n, m);
}
pub proof fn lemma_arr_unwrap(aa: Seq<JVal>, bb: Seq<JVal>, x: Seq<u8>, y: Seq<u8>)   // [C05]
    requires enc(JVal::Arr(aa)) + x == enc(JVal::Arr(bb)) + y
    ensures elems_from(aa, 0) + seq![0x5du8] + x == elems_from(bb, 0) + seq![0x5du8] + y
{
    lemma_elems_split(aa, 0);
    lemma_elems_split(bb, 0);
    assert(enc_elems(aa, 0) =~= Seq::<u8>::empty());
    assert(enc_elems(bb, 0) =~= Seq::<u8>::empty());
    assert(enc_elems(aa, aa.len() as int) =~= elems_from(aa, 0));
    assert(enc_elems(bb, bb.len() as int) =~= elems_from(bb, 0));
    let ra = elems_from(aa, 0) + seq![0x5du8] + x;
    let rb = elems_from(bb, 0) + seq![0x5du8] + y;
    assert(enc(JVal::Arr(aa)) + x =~= seq![0x5bu8] + ra);
    assert(enc(JVal::Arr(bb)) + y =~= seq![0x5bu8] + rb);
    lemma_strip1(0x5bu8, ra, rb);
}
pub proof fn lemma_obj_unwrap(oa: Seq<(Seq<char>, JVal)>, ob: Seq<(Seq<char>, JVal)>, x: Seq<u8>, y: Seq<u8>)   // [C05]
    requires enc(JVal::Obj(oa)) + x == enc(JVal::Obj(ob)) + y
    ensures members_from(oa, 0) + seq![0x7du8] + x == members_from(ob, 0) + seq![0x7du8] + y
{
    lemma_members_split(oa, 0);
    lemma_members_split(ob, 0);
    assert(enc_members(oa, 0) =~= Seq::<u8>::empty());
    assert(enc_members(ob, 0) =~= Seq::<u8>::empty());
    assert(enc_members(oa, oa.len() as int) =~= members_from(oa, 0));
    assert(enc_members(ob, ob.len() as int) =~= members_from(ob, 0));
    let ra = members_from(oa, 0) + seq![0x7du8] + x;
    let rb = members_from(ob, 0) + seq![0x7du8] + y;
    assert(enc(JVal::Obj(oa)) + x =~= seq![0x7bu8] + ra);
    assert(enc(JVal::Obj(ob)) + y =~= seq![0x7bu8] + rb);
    lemma_strip1(0x7bu8, ra, rb);
}
// equal first bytes mean equal kinds (and equal booleans)
pub proof fn lemma_same_kind(a: JVal, b: JVal, x: Seq<u8>, y: Seq<u8>)   // [C05]
    requires enc(a) + x == enc(b) + y
    ensures a is Null <==> b is Null, a is Bool <==> b is Bool, a is Int <==> b is Int, a is Str <==> b is Str,
            a is Arr <==> b is Arr, a is Obj <==> b is Obj,
            a is Bool ==> a->Bool_0 == b->Bool_0,
{
    lemma_first_byte(a);
    lemma_first_byte(b);
    lemma_head_byte(enc(a), x);
    lemma_head_byte(enc(b), y);
}
// Unique decodability: an encoding followed by a terminator-led (or empty) rest determines the value and the rest.
pub proof fn lemma_enc_prefix_free(a: JVal, b: JVal, x: Seq<u8>, y: Seq<u8>)   // [C05]
    requires enc(a) + x == enc(b) + y, term_led(x), term_led(y)
    ensures a == b, x == y
    decreases a, 0int
{
    lemma_same_kind(a, b, x, y);
    match a {
        JVal::Null => {
            lemma_cancel_prefix(enc(a), enc(b), x, y);
        }
        JVal::Bool(t) => {
            lemma_cancel_prefix(enc(a), enc(b), x, y);
        }
        JVal::Int(n) => {
            lemma_int_case(n, b->Int_0, x, y);
        }
        JVal::Str(s) => {
            fact_esc_self_delimiting(s, b->Str_0, x, y);
        }
        JVal::Arr(aa) => {
            let bb = b->Arr_0;
            lemma_arr_unwrap(aa, bb, x, y);
            lemma_elems_prefix_free(aa, 0, bb, 0, x, y);
            assert(aa =~= bb);
        }
        JVal::Obj(oa) => {
            let ob = b->Obj_0;
            lemma_obj_unwrap(oa, ob, x, y);
            lemma_members_prefix_free(oa, 0, ob, 0, x, y);
            assert(oa =~= ob);
        }
    }
}
pub open spec fn elems_rest(a: Seq<JVal>, i: int, x: Seq<u8>) -> Seq<u8> {
    if i + 1 < a.len() { seq![0x2cu8] + elems_from(a, i + 1) + seq![0x5du8] + x } else { seq![0x5du8] + x }
}
pub proof fn lemma_elems_unfold(a: Seq<JVal>, i: int, x: Seq<u8>)   // [C05]
    requires 0 <= i <= a.len()
    ensures i == a.len() ==> elems_from(a, i) + seq![0x5du8] + x == seq![0x5du8] + x,
            i < a.len() ==> elems_from(a, i) + seq![0x5du8] + x == enc(a[i]) + elems_rest(a, i, x),
            i < a.len() ==> term_led(elems_rest(a, i, x)) && (elems_rest(a, i, x)[0] == 0x2cu8 <==> i + 1 < a.len()),
            (elems_from(a, i) + seq![0x5du8] + x).len() >= 1,
            i < a.len() ==> is_starter((elems_from(a, i) + seq![0x5du8] + x)[0]),
            i == a.len() ==> (elems_from(a, i) + seq![0x5du8] + x)[0] == 0x5du8,
{
    let close = seq![0x5du8];
    let comma = seq![0x2cu8];
    if i == a.len() {
        assert(elems_from(a, i) =~= Seq::<u8>::empty());
        assert(elems_from(a, i) + close + x =~= close + x);
    } else {
        lemma_first_byte(a[i]);
        if i + 1 < a.len() {
            assert(elems_from(a, i) + close + x =~= enc(a[i]) + (comma + elems_from(a, i + 1) + close + x));
        } else {
            assert(elems_from(a, i) + close + x =~= enc(a[i]) + (close + x));
        }
        lemma_head_byte(enc(a[i]), elems_rest(a, i, x));
    }
}
pub proof fn lemma_elems_prefix_free(a: Seq<JVal>, i: int, b: Seq<JVal>, k: int, x: Seq<u8>, y: Seq<u8>)   // [C05]
    requires 0 <= i <= a.len(), 0 <= k <= b.len(),
             elems_from(a, i) + seq![0x5du8] + x == elems_from(b, k) + seq![0x5du8] + y,
    ensures a.len() - i == b.len() - k,
            forall|j: int| i <= j < a.len() ==> #[trigger] a[j] == b[j - i + k],
            x == y,
    decreases a, a.len() - i
{
    lemma_elems_unfold(a, i, x);
    lemma_elems_unfold(b, k, y);
    if i == a.len() {
        assert(k == b.len());
        lemma_strip1(0x5du8, x, y);
    } else {
        assert(k < b.len());
        let ra = elems_rest(a, i, x);
        let rb = elems_rest(b, k, y);
        lemma_enc_prefix_free(a[i], b[k], ra, rb);
        if i + 1 < a.len() {
            assert(k + 1 < b.len());
            let ta = elems_from(a, i + 1) + seq![0x5du8] + x;
            let tb = elems_from(b, k + 1) + seq![0x5du8] + y;
            assert(ra =~= seq![0x2cu8] + ta);
            assert(rb =~= seq![0x2cu8] + tb);
            lemma_strip1(0x2cu8, ta, tb);
            lemma_elems_prefix_free(a, i + 1, b, k + 1, x, y);
            assert forall|j: int| i <= j < a.len() implies #[trigger] a[j] == b[j - i + k] by {
                if j > i { assert(a[j] == b[j - (i + 1) + (k + 1)]); }
            }
        } else {
            assert(k + 1 == b.len());
            lemma_strip1(0x5du8, x, y);
        }
    }
}
// one member followed by `rest`: the key token and the value encoding can be read off
pub proof fn lemma_member_head(ka: Seq<char>, va: JVal, ra: Seq<u8>, kb: Seq<char>, vb: JVal, rb: Seq<u8>)   // [C05]
    requires esc(ka) + seq![0x3au8] + enc(va) + ra == esc(kb) + seq![0x3au8] + enc(vb) + rb
    ensures ka == kb, enc(va) + ra == enc(vb) + rb
{
    let colon = seq![0x3au8];
    assert(esc(ka) + colon + enc(va) + ra =~= esc(ka) + (colon + (enc(va) + ra)));
    assert(esc(kb) + colon + enc(vb) + rb =~= esc(kb) + (colon + (enc(vb) + rb)));
    fact_esc_self_delimiting(ka, kb, colon + (enc(va) + ra), colon + (enc(vb) + rb));
    lemma_strip1(0x3au8, enc(va) + ra, enc(vb) + rb);
}
pub open spec fn members_rest(a: Seq<(Seq<char>, JVal)>, i: int, x: Seq<u8>) -> Seq<u8> {
    if i + 1 < a.len() { seq![0x2cu8] + members_from(a, i + 1) + seq![0x7du8] + x } else { seq![0x7du8] + x }
}
pub proof fn lemma_members_unfold(a: Seq<(Seq<char>, JVal)>, i: int, x: Seq<u8>)   // [C05]
    requires 0 <= i <= a.len()
    ensures i == a.len() ==> members_from(a, i) + seq![0x7du8] + x == seq![0x7du8] + x,
            i < a.len() ==> members_from(a, i) + seq![0x7du8] + x == esc(a[i].0) + seq![0x3au8] + enc(a[i].1) + members_rest(a, i, x),
            i < a.len() ==> term_led(members_rest(a, i, x)) && (members_rest(a, i, x)[0] == 0x2cu8 <==> i + 1 < a.len()),
            (members_from(a, i) + seq![0x7du8] + x).len() >= 1,
            (members_from(a, i) + seq![0x7du8] + x)[0] == (if i < a.len() { 0x22u8 } else { 0x7du8 }),
{
    let close = seq![0x7du8];
    let comma = seq![0x2cu8];
    let colon = seq![0x3au8];
    if i == a.len() {
        assert(members_from(a, i) =~= Seq::<u8>::empty());
        assert(members_from(a, i) + close + x =~= close + x);
    } else {
        fact_esc_shape(a[i].0);
        let m = esc(a[i].0) + colon + enc(a[i].1);
        if i + 1 < a.len() {
            assert(members_from(a, i) + close + x =~= m + (comma + members_from(a, i + 1) + close + x));
        } else {
            assert(members_from(a, i) + close + x =~= m + (close + x));
        }
        assert((m + members_rest(a, i, x))[0] == esc(a[i].0)[0]);
    }
}
pub proof fn lemma_members_prefix_free(a: Seq<(Seq<char>, JVal)>, i: int, b: Seq<(Seq<char>, JVal)>, k: int, x: Seq<u8>, y: Seq<u8>)   // [C05]
    requires 0 <= i <= a.len(), 0 <= k <= b.len(),
             members_from(a, i) + seq![0x7du8] + x == members_from(b, k) + seq![0x7du8] + y,
    ensures a.len() - i == b.len() - k,
            forall|j: int| i <= j < a.len() ==> #[trigger] a[j] == b[j - i + k],
            x == y,
    decreases a, a.len() - i
{
    lemma_members_unfold(a, i, x);
    lemma_members_unfold(b, k, y);
    if i == a.len() {
        assert(k == b.len());
        lemma_strip1(0x7du8, x, y);
    } else {
        assert(k < b.len());
        let ra = members_rest(a, i, x);
        let rb = members_rest(b, k, y);
        lemma_member_head(a[i].0, a[i].1, ra, b[k].0, b[k].1, rb);
        lemma_enc_prefix_free(a[i].1, b[k].1, ra, rb);
        assert(a[i] == b[k]);
        if i + 1 < a.len() {
            assert(k + 1 < b.len());
            let ta = members_from(a, i + 1) + seq![0x7du8] + x;
            let tb = members_from(b, k + 1) + seq![0x7du8] + y;
            assert(ra =~= seq![0x2cu8] + ta);
            assert(rb =~= seq![0x2cu8] + tb);
            lemma_strip1(0x2cu8, ta, tb);
            lemma_members_prefix_free(a, i + 1, b, k + 1, x, y);
            assert forall|j: int| i <= j < a.len() implies #[trigger] a[j] == b[j - i + k] by {
                if j > i { assert(a[j] == b[j - (i + 1) + (k + 1)]); }
            }
        } else {
            assert(k + 1 == b.len());
            lemma_strip1(0x7du8, x, y);
        }
    }
}
// C05: no two distinct JSON values have the same canonical encoding
pub proof fn lemma_enc_injective(a: JVal, b: JVal)   // [C05]
    requires enc(a) == enc(b)
    ensures a == b
{
    assert(enc(a) + Seq::<u8>::empty() =~= enc(b) + Seq::<u8>::empty());
    lemma_enc_prefix_free(a, b, Seq::<u8>::empty(), Seq::<u8>::empty());
}

// ---- canonical JSON contains no raw line feed (so the un-escaping before signing loses nothing) ----
// assumed: serde_json escapes every control character inside a string token
#[verifier::external_body]
pub proof fn fact_esc_no_lf(s: Seq<char>)
    ensures no_lf_byte(esc(s))
{}
pub proof fn lemma_no_lf_concat(a: Seq<u8>, b: Seq<u8>)
    requires no_lf_byte(a), no_lf_byte(b)
    ensures no_lf_byte(a + b)
{
    assert forall|i: int| 0 <= i < (a + b).len() implies #[trigger] (a + b)[i] != 0x0au8 by {
        if i < a.len() { assert((a + b)[i] == a[i]); } else { assert((a + b)[i] == b[i - a.len()]); }
    }
}
pub proof fn lemma_enc_no_lf(j: JVal)   // [C05]
    ensures no_lf_byte(enc(j))
    decreases j, 0int
{
    match j {
        JVal::Int(n) => { fact_dec_int_shape(n); }
        JVal::Str(s) => { fact_esc_no_lf(s); }
        JVal::Arr(a) => {
            lemma_elems_no_lf(a, a.len() as int);
            lemma_no_lf_concat(seq![0x5bu8], enc_elems(a, a.len() as int));
            lemma_no_lf_concat(seq![0x5bu8] + enc_elems(a, a.len() as int), seq![0x5du8]);
        }
        JVal::Obj(o) => {
            lemma_members_no_lf(o, o.len() as int);
            lemma_no_lf_concat(seq![0x7bu8], enc_members(o, o.len() as int));
            lemma_no_lf_concat(seq![0x7bu8] + enc_members(o, o.len() as int), seq![0x7du8]);
        }
        _ => {}
    }
}
pub proof fn lemma_elems_no_lf(a: Seq<JVal>, n: int)   // [C05]
    ensures no_lf_byte(enc_elems(a, n))
    decreases a, n
{
    if n <= 0 || n > a.len() {} else {
        lemma_elems_no_lf(a, n - 1);
        lemma_enc_no_lf(a[n - 1]);
        let sep: Seq<u8> = if n == 1 { seq![] } else { seq![0x2cu8] };
        lemma_no_lf_concat(enc_elems(a, n - 1), sep);
        lemma_no_lf_concat(enc_elems(a, n - 1) + sep, enc(a[n - 1]));
    }
}
pub proof fn lemma_members_no_lf(o: Seq<(Seq<char>, JVal)>, n: int)   // [C05]
    ensures no_lf_byte(enc_members(o, n))
    decreases o, n
{
    if n <= 0 || n > o.len() {} else {
        lemma_members_no_lf(o, n - 1);
        lemma_enc_no_lf(o[n - 1].1);
        fact_esc_no_lf(o[n - 1].0);
        let sep: Seq<u8> = if n == 1 { seq![] } else { seq![0x2cu8] };
        lemma_no_lf_concat(enc_members(o, n - 1), sep);
        lemma_no_lf_concat(enc_members(o, n - 1) + sep, esc(o[n - 1].0));
        lemma_no_lf_concat(enc_members(o, n - 1) + sep + esc(o[n - 1].0), seq![0x3au8]);
        lemma_no_lf_concat(enc_members(o, n - 1) + sep + esc(o[n - 1].0) + seq![0x3au8], enc(o[n - 1].1));
    }
}
// C05, end to end over abstract JSON values: two documents whose values differ are signed over different bytes
pub proof fn lemma_signed_text_injective(a: JVal, b: JVal)   // [C05]
    requires vstd::utf8::valid_utf8(enc(a)), vstd::utf8::valid_utf8(enc(b)), signed_text(enc(a)) == signed_text(enc(b))
    ensures a == b
{
    lemma_enc_no_lf(a);
    lemma_enc_no_lf(b);
    lemma_signed_text_injective_bytes(enc(a), enc(b));
    lemma_enc_injective(a, b);
}
