// ---- C01: from the owner gate to "every supplied key signed, and no key is supplied under two ids" ----
pub open spec fn key_signed(mb: Metablock, key: PublicKey) -> bool {
    signed_msg(mb.metadata) is Some
    && exists|j: int| 0 <= j < mb.signatures@.len() && (#[trigger] mb.signatures@[j]).kid() == key.kid()
        && key.sig_ok(signed_msg(mb.metadata)->0, mb.signatures@[j])
}
pub open spec fn own_id(keys: Map<KeyId, PublicKey>) -> spec_fn(KeyId) -> KeyId { |k: KeyId| keys[k].kid() }

// a map with a collision has a strictly smaller image
pub proof fn lemma_image_collision(x: Set<KeyId>, f: spec_fn(KeyId) -> KeyId, a: KeyId, b: KeyId)   // [C01]
    requires x.contains(a), x.contains(b), a != b, f(a) == f(b)
    ensures x.map(f).len() < x.len()
{
    let y = x.remove(a);
    assert(y.map(f) =~= x.map(f)) by {
        assert forall|v: KeyId| x.map(f).contains(v) implies y.map(f).contains(v) by {
            let w = choose|w: KeyId| x.contains(w) && f(w) == v;
            if w == a { assert(y.contains(b) && f(b) == v); } else { assert(y.contains(w) && f(w) == v); }
        }
        assert forall|v: KeyId| y.map(f).contains(v) implies x.map(f).contains(v) by {
            let w = choose|w: KeyId| y.contains(w) && f(w) == v;
            assert(x.contains(w) && f(w) == v);
        }
    }
    vstd::set_lib::lemma_map_size_bound(y, y.map(f), f);
}

pub proof fn lemma_owner_gate_every_key_signed(mb: Metablock, keys: Map<KeyId, PublicKey>)   // [C01]
    requires owner_gate(mb, keys)
    ensures
        keys.len() >= 1,
        // every supplied key has a valid signature, attributed to that key's own id, over the signed bytes of this layout
        forall|k: KeyId| keys.contains_key(k) ==> key_signed(mb, #[trigger] keys[k]),
        // an aliased key set (one key under two table ids) never passes
        forall|a: KeyId, b: KeyId| keys.contains_key(a) && keys.contains_key(b) && a != b ==> (#[trigger] keys[a]).kid() != (#[trigger] keys[b]).kid(),
{
    let good = choose|good: Set<KeyId>| good.len() >= keys.len() && forall|id: KeyId| good.contains(id) ==> table_key_signed(mb, keys, id);
    let f = own_id(keys);
    let dom = keys.dom();
    let img = dom.map(f);
    assert forall|id: KeyId| good.contains(id) implies img.contains(id) by {
        assert(table_key_signed(mb, keys, id));
        let (k, j) = choose|k: KeyId, j: int| #[trigger] keys.contains_key(k) && 0 <= j < mb.signatures@.len()
            && keys[k].kid() == id && (#[trigger] mb.signatures@[j]).kid() == id
            && keys[k].sig_ok(signed_msg(mb.metadata)->0, mb.signatures@[j]);
        assert(dom.contains(k) && f(k) == id);
    }
    vstd::set_lib::lemma_len_subset(good, img);
    vstd::set_lib::lemma_map_size_bound(dom, img, f);
    assert(img.len() == dom.len() && good.len() == img.len());
    vstd::set_lib::lemma_subset_equality(good, img);
    assert(good =~= img);
    assert forall|a: KeyId, b: KeyId| keys.contains_key(a) && keys.contains_key(b) && a != b implies (#[trigger] keys[a]).kid() != (#[trigger] keys[b]).kid() by {
        if keys[a].kid() == keys[b].kid() { lemma_image_collision(dom, f, a, b); }
    }
    assert forall|k: KeyId| keys.contains_key(k) implies key_signed(mb, #[trigger] keys[k]) by {
        assert(dom.contains(k) && img.contains(f(k)));
        let id = keys[k].kid();
        assert(good.contains(id));
        assert(table_key_signed(mb, keys, id));
        let (k2, j) = choose|k2: KeyId, j: int| #[trigger] keys.contains_key(k2) && 0 <= j < mb.signatures@.len()
            && keys[k2].kid() == id && (#[trigger] mb.signatures@[j]).kid() == id
            && keys[k2].sig_ok(signed_msg(mb.metadata)->0, mb.signatures@[j]);
        if k2 != k { lemma_image_collision(dom, f, k, k2); }
        assert(mb.signatures@[j].kid() == keys[k].kid());
    }
}
