// decimal rendering of a natural number (what `{}` prints for usize; what parse::<usize> inverts)
pub open spec fn dec_digit(d: nat) -> char { (('0' as u8) + (d as u8)) as char }
pub open spec fn dec(n: nat) -> Seq<char>
    decreases n
{
    if n < 10 { seq![dec_digit(n)] } else { dec(n / 10).push(dec_digit(n % 10)) }
}
// ---- trusted model of `Display` for the types that occur in content-relevant format! calls (D10) ----
pub trait VDisp {
    spec fn disp(&self) -> Seq<char>;
    fn vdisp(&self) -> (r: String)
        ensures r@ == self.disp();
}
impl VDisp for usize {
    open spec fn disp(&self) -> Seq<char> { dec(*self as nat) }
    #[verifier::external_body]
    fn vdisp(&self) -> (r: String) { format!("{}", self) }
}
impl VDisp for u32 {
    open spec fn disp(&self) -> Seq<char> { dec(*self as nat) }
    #[verifier::external_body]
    fn vdisp(&self) -> (r: String) { format!("{}", self) }
}
impl VDisp for &str {
    open spec fn disp(&self) -> Seq<char> { self@ }
    #[verifier::external_body]
    fn vdisp(&self) -> (r: String) { format!("{}", self) }
}
impl VDisp for String {
    open spec fn disp(&self) -> Seq<char> { self@ }
    #[verifier::external_body]
    fn vdisp(&self) -> (r: String) { format!("{}", self) }
}
