// ---- trusted model of `Display` for the types that occur in content-relevant format! calls (D10) ----
pub trait VDisp {
    spec fn disp(&self) -> Seq<char>;
    fn vdisp(&self) -> (r: String)
        ensures r@ == self.disp();
}
impl VDisp for usize {
    open spec fn disp(&self) -> Seq<char> { dec(*self as nat) }
    #[verifier::external_body]
    fn vdisp(&self) -> (r: String) { format!("{}", self) }
}
impl VDisp for u32 {
    open spec fn disp(&self) -> Seq<char> { dec(*self as nat) }
    #[verifier::external_body]
    fn vdisp(&self) -> (r: String) { format!("{}", self) }
}
impl VDisp for &str {
    open spec fn disp(&self) -> Seq<char> { self@ }
    #[verifier::external_body]
    fn vdisp(&self) -> (r: String) { format!("{}", self) }
}
impl VDisp for String {
    open spec fn disp(&self) -> Seq<char> { self@ }
    #[verifier::external_body]
    fn vdisp(&self) -> (r: String) { format!("{}", self) }
}
