// the keys of a BTreeMap in iteration (= ascending) order  (assumed std contract of BTreeMap)
pub uninterp spec fn btree_keys<K, V>(m: BTreeMap<K, V>) -> Seq<K>;
pub open spec fn char_seq_lt(a: Seq<char>, b: Seq<char>) -> bool
    decreases a.len()
{
    if b.len() == 0 { false } else if a.len() == 0 { true }
    else if (a[0] as u32) < (b[0] as u32) { true } else if (a[0] as u32) > (b[0] as u32) { false }
    else { char_seq_lt(a.drop_first(), b.drop_first()) }
}
// the ascending enumeration of a key set is unique
#[verifier::external_body]
pub proof fn fact_btree_keys_unique<V, W>(m1: BTreeMap<String, V>, m2: BTreeMap<String, W>)
    requires m1@.dom() == m2@.dom()
    ensures btree_keys(m1) == btree_keys(m2)
{}
#[verifier::external_body]
pub proof fn fact_btree_keys<V>(m: BTreeMap<String, V>)
    ensures btree_keys(m).no_duplicates(),
            btree_keys(m).to_set() == m@.dom(),
            btree_keys(m).len() == m@.dom().len(),
            forall|i: int, j: int| 0 <= i < j < btree_keys(m).len() ==> char_seq_lt(#[trigger] btree_keys(m)[i]@, #[trigger] btree_keys(m)[j]@),
{}
// D22: `m.iter()` on a BTreeMap: yields the entries in the order of btree_keys(m)
#[verifier::prophetic]
pub open spec fn btree_iter_post<'a, V>(m: &'a BTreeMap<String, V>, it: std::collections::btree_map::Iter<'a, String, V>) -> bool {
    let rem = vstd::std_specs::iter::IteratorSpec::remaining(&it);
    &&& vstd::std_specs::iter::IteratorSpec::obeys_prophetic_iter_laws(&it)
    &&& vstd::std_specs::iter::IteratorSpec::decrease(&it) is Some
    &&& rem.len() == btree_keys(*m).len()
    &&& forall|i: int| 0 <= i < rem.len() ==> *(#[trigger] rem[i]).0 == btree_keys(*m)[i] && m@.contains_key(btree_keys(*m)[i]) && *rem[i].1 == m@[btree_keys(*m)[i]]
}
#[verifier::external_body]
fn btree_iter_sorted<'a, V>(m: &'a BTreeMap<String, V>) -> (it: std::collections::btree_map::Iter<'a, String, V>)
    ensures btree_iter_post(m, it)
{ m.iter() }


// assumed: String's Ord obeys vstd's comparison laws (needed by vstd's BTreeMap<String, _> specs)
#[verifier::external_body]
pub proof fn fact_string_ord()
    ensures vstd::std_specs::btree::key_obeys_cmp_spec::<String>()
{}
