// ---- real crypto data types from src/crypto.rs (derives reduced; structural Clone/Eq assumed where noted) ----
//@take src/crypto.rs struct:KeyId drop_derives=Clone,Debug,PartialOrd,Ord,PartialEq
impl KeyId {
    pub closed spec fn id(self) -> Seq<char> { self.0@ }
}
// assumed: the derived PartialEq of KeyId is structural equality
impl PartialEq for KeyId { #[verifier::external_body] fn eq(&self, other: &Self) -> bool { unimplemented!() } }
impl vstd::std_specs::cmp::PartialEqSpecImpl for KeyId {
    open spec fn obeys_eq_spec() -> bool { true }
    open spec fn eq_spec(&self, other: &Self) -> bool { *self == *other }
}
impl Clone for KeyId {
    #[verifier::external_body]
    fn clone(&self) -> (r: Self) ensures r == *self { unimplemented!() }
}
impl std::fmt::Debug for KeyId {
    #[verifier::external_body]
    fn fmt(&self, f: &mut std::fmt::Formatter) -> std::fmt::Result { unimplemented!() }
}
// assumed: a KeyId is determined by its text, and its derived Hash/Eq obey vstd's key model
#[verifier::external_body]
pub proof fn fact_keyid_key_model()
    ensures vstd::std_specs::hash::obeys_key_model::<KeyId>(), vstd::std_specs::hash::obeys_key_model::<&KeyId>()
{}
#[verifier::external_body]
pub proof fn fact_keyid_ext(a: KeyId, b: KeyId)
    requires a.id() == b.id()
    ensures a == b
{}

//@take src/crypto.rs enum:SignatureScheme drop_derives=Debug,Hash,Clone
//@take src/crypto.rs enum:KeyType drop_derives=Debug,Hash,Clone
//@take src/crypto.rs struct:SignatureValue drop_derives=Clone,PartialEq,Eq
//@take src/crypto.rs struct:PublicKeyValue drop_derives=Clone,PartialEq,Eq,Hash
//@take src/crypto.rs struct:Signature drop_derives=Debug,Clone,PartialEq,Eq
//@take src/crypto.rs struct:PublicKey drop_derives=Debug,Clone

impl Signature {
    pub closed spec fn kid(self) -> KeyId { self.key_id }
//@extract src/crypto.rs impl:Signature/fn:key_id
//@contract ret=r
    ensures *r == self.kid(),
//@end
}

pub open spec fn alg_of(s: SignatureScheme) -> int {
    match s {
        SignatureScheme::Ed25519 => 1,
        SignatureScheme::RsaSsaPssSha256 => 2,
        SignatureScheme::RsaSsaPssSha512 => 3,
        SignatureScheme::EcdsaP256Sha256 => 4,
        SignatureScheme::Unknown(_) => 0,
    }
}
impl PublicKey {
    pub closed spec fn sig_ok(self, msg: Seq<u8>, sig: Signature) -> bool {
        !(self.scheme is Unknown) && ring::signature::sig_valid(alg_of(self.scheme), self.value.0@, msg, sig.value.0@)
    }
    pub closed spec fn kid(self) -> KeyId { self.key_id }
    pub closed spec fn scheme_v(self) -> SignatureScheme { self.scheme }
    pub closed spec fn typ_v(self) -> KeyType { self.typ }
    pub closed spec fn bytes_v(self) -> Seq<u8> { self.value.0@ }
}
