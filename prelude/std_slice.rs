// ---- trusted std specs: byte slices, splitn, from_utf8, parse (written from the std documentation) ----
pub assume_specification<T: Clone> [<[T] as std::borrow::ToOwned>::to_owned] (s: &[T]) -> (r: Vec<T>)
    ensures exists|t: Vec<T>| t == r && #[trigger] t@ == s@;

pub assume_specification<T: Clone> [<[T]>::to_vec] (s: &[T]) -> (r: Vec<T>)
    ensures r@ == s@;

#[verifier::external_type_specification]
#[verifier::external_body]
pub struct ExParseIntError(std::num::ParseIntError);

// str::from_utf8: succeeds exactly on valid UTF-8 and then denotes the same bytes
pub assume_specification [std::str::from_utf8] (v: &[u8]) -> (r: std::result::Result<&str, std::str::Utf8Error>)
    ensures r is Ok <==> vstd::utf8::valid_utf8(v@),
            r is Ok ==> vstd::utf8::encode_utf8(r->Ok_0@) == v@;

#[verifier::external_trait_specification]
pub trait ExFromStr: Sized {
    type ExternalTraitSpecificationFor: std::str::FromStr;
    type Err;
    fn from_str(s: &str) -> std::result::Result<Self, Self::Err>;
}

// str::parse::<F>: a (partial) function of the text
pub uninterp spec fn parse_spec<F>(s: Seq<char>) -> Option<F>;
pub assume_specification<F: std::str::FromStr> [str::parse::<F>] (s: &str) -> (r: std::result::Result<F, <F as std::str::FromStr>::Err>)
    ensures r is Ok ==> parse_spec::<F>(s@) == Some(r->Ok_0),
            r is Err ==> parse_spec::<F>(s@) is None;

#[verifier::external_body]
pub proof fn fact_parse_usize_dec(n: nat)
    requires n <= usize::MAX
    ensures parse_spec::<usize>(dec(n)) == Some(n as usize)
{}
#[verifier::external_body]
pub proof fn fact_parse_string(s: Seq<char>)
    ensures parse_spec::<String>(s) is Some, parse_spec::<String>(s)->0@ == s
{}

// <[T]>::splitn(n, pred): at most n pieces, split at the first n-1 elements satisfying pred
#[verifier::reject_recursive_types(P)]
#[verifier::reject_recursive_types(T)]
#[verifier::external_type_specification]
#[verifier::external_body]
pub struct ExSplitN<'a, T: 'a, P>(std::slice::SplitN<'a, T, P>) where P: FnMut(&T) -> bool;

pub uninterp spec fn splitn_pieces<'a, T, P: FnMut(&T) -> bool>(it: std::slice::SplitN<'a, T, P>) -> Seq<Seq<T>>;

pub open spec fn first_idx<T>(s: Seq<T>, pred: spec_fn(T) -> bool) -> int
    decreases s.len()
{
    if s.len() == 0 { 0 } else if pred(s[0]) { 0 } else { 1 + first_idx(s.drop_first(), pred) }
}
pub open spec fn split2<T>(s: Seq<T>, pred: spec_fn(T) -> bool) -> Seq<Seq<T>> {
    let i = first_idx(s, pred);
    if i < s.len() { seq![s.subrange(0, i), s.subrange(i + 1, s.len() as int)] } else { seq![s] }
}
pub assume_specification<T, F: FnMut(&T) -> bool> [<[T]>::splitn] (s: &[T], n: usize, pred: F) -> (r: std::slice::SplitN<'_, T, F>)
    requires forall|x: &T| #[trigger] pred.requires((x,)),
    ensures n == 2 ==> forall|p: spec_fn(T) -> bool| (forall|x: T, b: bool| #[trigger] pred.ensures((&x,), b) ==> b == p(x))
                ==> splitn_pieces(r) == split2(s@, p);

pub assume_specification<'a, T, P: FnMut(&T) -> bool> [<std::slice::SplitN<'a, T, P> as Iterator>::next] (it: &mut std::slice::SplitN<'a, T, P>) -> (r: Option<&'a [T]>)
    ensures exists|t: Option<&'a [T]>| t == r && #[trigger] splitn_next_post(*old(it), *final(it), t);

pub open spec fn splitn_next_post<'a, T, P: FnMut(&T) -> bool>(old_it: std::slice::SplitN<'a, T, P>, new_it: std::slice::SplitN<'a, T, P>, r: Option<&'a [T]>) -> bool {
    if splitn_pieces(old_it).len() == 0 {
        r is None && splitn_pieces(new_it).len() == 0
    } else {
        r is Some && r->0@ == splitn_pieces(old_it)[0] && splitn_pieces(new_it) == splitn_pieces(old_it).drop_first()
    }
}

// <[T]>::strip_prefix(&P) for the slice pattern P = [T]
pub uninterp spec fn slice_pattern_view<T, P: ?Sized>(p: &P) -> Seq<T>;
pub assume_specification<'a, T: PartialEq, P: core::slice::SlicePattern<Item = T> + ?Sized> [<[T]>::strip_prefix::<P>] (s: &'a [T], prefix: &P) -> (r: Option<&'a [T]>)
    ensures ({ let p = slice_pattern_view::<T, P>(prefix);
        if p.len() <= s@.len() && s@.subrange(0, p.len() as int) == p {
            r is Some && r->0@ == s@.subrange(p.len() as int, s@.len() as int)
        } else { r is None } });
#[verifier::external_body]
pub proof fn fact_slice_pattern_u8(p: &[u8])
    ensures slice_pattern_view::<u8, [u8]>(p) == p@
{}

// [a, b].concat() for two byte slices (target of rewrite D11; vstd cannot express the generic Concat trait)
#[verifier::external_body]
pub fn concat2_u8(a: &[u8], b: &[u8]) -> (r: Vec<u8>)
    ensures r@ == a@ + b@
{ [a, b].concat() }
