// ---- trusted facts about UTF-8 (assumed, not proved here; vstd::utf8 has the ingredients) ----
#[verifier::external_body]
pub proof fn fact_ascii_subrange(s: Seq<char>, i: int, j: int)
    requires vstd::utf8::is_ascii_chars(s), 0 <= i <= j <= s.len()
    ensures vstd::utf8::encode_utf8(s).len() == s.len(),
            vstd::utf8::is_char_boundary(vstd::utf8::encode_utf8(s), i),
            vstd::utf8::is_char_boundary(vstd::utf8::encode_utf8(s), j),
            vstd::utf8::encode_utf8(s).subrange(i, j) == vstd::utf8::encode_utf8(s.subrange(i, j)),
{}
#[verifier::external_body]
pub proof fn fact_encode_utf8_injective(a: Seq<char>, b: Seq<char>)
    requires vstd::utf8::encode_utf8(a) == vstd::utf8::encode_utf8(b)
    ensures a == b
{}
// a str / String never holds more than usize::MAX (indeed isize::MAX) bytes
#[verifier::external_body]
pub proof fn fact_str_len_fits(s: Seq<char>)
    ensures vstd::utf8::encode_utf8(s).len() <= usize::MAX
{}
