// ---- facts about UTF-8, proved from vstd::utf8's lemmas ----
proof fn lemma_not_cont(b: u8) requires b < 128 ensures !vstd::utf8::is_continuation_byte(b) { assert((b & 0xC0) != 0x80) by(bit_vector) requires b < 128u8; }
pub proof fn lemma_ascii_boundary(s: Seq<char>, i: int)
    requires vstd::utf8::is_ascii_chars(s), 0 <= i <= s.len()
    ensures vstd::utf8::is_char_boundary(vstd::utf8::encode_utf8(s), i),
{
    vstd::utf8::is_ascii_chars_encode_utf8(s);
    vstd::utf8::encode_utf8_valid_utf8(s);
    let e = vstd::utf8::encode_utf8(s);
    if i < s.len() { lemma_not_cont(e[i]); vstd::utf8::is_char_boundary_iff_not_is_continuation_byte(e, i); } else { vstd::utf8::is_char_boundary_start_end_of_seq(e); }
}
pub proof fn fact_ascii_subrange(s: Seq<char>, i: int, j: int)
    requires vstd::utf8::is_ascii_chars(s), 0 <= i <= j <= s.len()
    ensures vstd::utf8::encode_utf8(s).len() == s.len(),
            vstd::utf8::is_char_boundary(vstd::utf8::encode_utf8(s), i),
            vstd::utf8::is_char_boundary(vstd::utf8::encode_utf8(s), j),
            vstd::utf8::encode_utf8(s).subrange(i, j) == vstd::utf8::encode_utf8(s.subrange(i, j)),
{
    vstd::utf8::is_ascii_chars_encode_utf8(s);
    vstd::utf8::is_ascii_chars_encode_utf8(s.subrange(i, j));
    lemma_ascii_boundary(s, i);
    lemma_ascii_boundary(s, j);
    assert(vstd::utf8::encode_utf8(s).subrange(i, j) =~= vstd::utf8::encode_utf8(s.subrange(i, j)));
}
pub proof fn fact_encode_utf8_injective(a: Seq<char>, b: Seq<char>)
    requires vstd::utf8::encode_utf8(a) == vstd::utf8::encode_utf8(b)
    ensures a == b
{ vstd::utf8::encode_utf8_decode_utf8(a); vstd::utf8::encode_utf8_decode_utf8(b); }
// a str / String never holds more than usize::MAX (indeed isize::MAX) bytes  (trusted: allocation limit)
#[verifier::external_body]
pub proof fn fact_str_len_fits(s: Seq<char>)
    ensures vstd::utf8::encode_utf8(s).len() <= usize::MAX
{}
