// ---- trusted stub of serde_json (Value tree, Number accessors, string escaping) and itoa ----
pub mod serde_json {
    use vstd::prelude::*;
    use std::collections::BTreeMap;
    #[verifier::external_body]
    pub struct Number { _opaque: u8 }
    // Number::as_i64 / as_u64 are functions of the number; every number that has an i64 value < 0 has no u64 value etc. is NOT assumed
    pub uninterp spec fn num_i64(n: Number) -> Option<i64>;
    pub uninterp spec fn num_u64(n: Number) -> Option<u64>;
    impl Number {
        #[verifier::external_body]
        pub fn as_i64(&self) -> (r: Option<i64>) ensures r == num_i64(*self) { unimplemented!() }
        #[verifier::external_body]
        pub fn as_u64(&self) -> (r: Option<u64>) ensures r == num_u64(*self) { unimplemented!() }
    }
    // serde_json::Map<String, Value> (without the preserve_order feature) is a BTreeMap
    #[verifier::reject_recursive_types(K)]
    #[verifier::accept_recursive_types(V)]
    pub struct Map<K, V> { pub inner: BTreeMap<K, V> }
    impl<K, V> Map<K, V> {
    }
    impl<V> Map<String, V> {
        #[verifier::external_body]
        pub fn iter(&self) -> (r: std::collections::btree_map::Iter<'_, String, V>)
            ensures crate::btree_iter_post(&self.inner, r)
        { unimplemented!() }
    }
    pub enum Value {
        Null,
        Bool(bool),
        Number(Number),
        String(String),
        Array(Vec<Value>),
        Object(Map<String, Value>),
    }
    pub struct Error { _e: u8 }
    impl std::fmt::Debug for Error { #[verifier::external_body] fn fmt(&self, f: &mut std::fmt::Formatter) -> std::fmt::Result { unimplemented!() } }
    // the JSON string token serde_json writes for a text (quotes included)
    pub uninterp spec fn json_escape(s: Seq<char>) -> Seq<char>;
    #[verifier::external_body]
    pub fn to_string(v: &Value) -> (r: Result<String, Error>)
        ensures v is String ==> r is Ok && r->Ok_0@ == json_escape(v->String_0@)
    { unimplemented!() }
}
pub mod itoa {
    use vstd::prelude::*;
    pub trait Integer { spec fn dec_text(&self) -> Seq<char>; }
    // exact decimal rendering: optional '-' then the digits of |n|
    pub uninterp spec fn dec_int(n: int) -> Seq<char>;
    impl Integer for i64 { open spec fn dec_text(&self) -> Seq<char> { dec_int(*self as int) } }
    impl Integer for u64 { open spec fn dec_text(&self) -> Seq<char> { dec_int(*self as int) } }
    #[verifier::external_body]
    pub struct Buffer { _b: u8 }
    impl Buffer {
        #[verifier::external_body]
        pub fn new() -> Buffer { unimplemented!() }
        #[verifier::external_body]
        pub fn format<I: Integer>(&mut self, i: I) -> (r: &str) ensures r@ == i.dec_text() { unimplemented!() }
    }
}
