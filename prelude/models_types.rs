// ---- real metadata types from src/models (derives dropped; structural Clone assumed via `clone_structural!`) ----
use chrono::{DateTime, Utc};
pub type TargetDescription = HashMap<HashAlgorithm, HashValue>;
//@take src/crypto.rs enum:HashAlgorithm drop_derives=Debug,Clone,PartialOrd,Ord
//@take src/crypto.rs struct:HashValue drop_derives=Clone
//@take src/models/helpers.rs struct:VirtualTargetPath drop_derives=Debug,Clone
//@take src/models/layout/step.rs struct:Command drop_derives=Debug,Clone,Hash,PartialOrd,Ord,Default,PartialEq,Eq
// leaf types that no verifylib decision looks into
#[verifier::external_body]
pub struct ArtifactRule { _opaque: u8 }
#[verifier::external_body]
pub struct ByProducts { _opaque: u8 }
//@take src/models/layout/step.rs struct:Step drop_derives=Debug,Clone,PartialEq,Eq
//@take src/models/layout/inspection.rs struct:Inspection drop_derives=Debug,Clone,PartialEq,Eq
//@take src/models/layout/metadata.rs struct:LayoutMetadata drop_derives=Debug,Clone,PartialEq,Eq
//@take src/models/link/metadata.rs struct:LinkMetadata drop_derives=Debug,Clone,PartialEq,Eq
//@take src/models/metadata.rs enum:MetadataWrapper drop_derives=Debug,Clone,PartialEq,Eq
//@take src/models/metadata.rs struct:Metablock drop_derives=Debug,Clone,PartialEq,Eq

// assumed: derived Clone implementations are structural (the clone equals the original)
impl Clone for Command { #[verifier::external_body] fn clone(&self) -> (r: Self) ensures r == *self { unimplemented!() } }
impl Clone for ByProducts { #[verifier::external_body] fn clone(&self) -> (r: Self) ensures r == *self { unimplemented!() } }
impl Clone for Step { #[verifier::external_body] fn clone(&self) -> (r: Self) ensures r == *self { unimplemented!() } }
impl Clone for Inspection { #[verifier::external_body] fn clone(&self) -> (r: Self) ensures r == *self { unimplemented!() } }
impl Clone for LinkMetadata { #[verifier::external_body] fn clone(&self) -> (r: Self) ensures r == *self { unimplemented!() } }
impl Clone for LayoutMetadata { #[verifier::external_body] fn clone(&self) -> (r: Self) ensures r == *self { unimplemented!() } }
impl Clone for MetadataWrapper { #[verifier::external_body] fn clone(&self) -> (r: Self) ensures r == *self { unimplemented!() } }
impl Clone for Metablock { #[verifier::external_body] fn clone(&self) -> (r: Self) ensures r == *self { unimplemented!() } }
impl Clone for PublicKey { #[verifier::external_body] fn clone(&self) -> (r: Self) ensures r == *self { unimplemented!() } }
// `Command` derives PartialEq in the repo (comparison of two Vec<String>; used for warnings only, no spec needed)
impl PartialEq for Command { #[verifier::external_body] fn eq(&self, other: &Self) -> bool { unimplemented!() } }
// Debug impls exist in the repo (derived); formatting never panics (prelude/axioms.rs)
impl std::fmt::Debug for Command { #[verifier::external_body] fn fmt(&self, f: &mut std::fmt::Formatter) -> std::fmt::Result { unimplemented!() } }
// assumed: `==` / `!=` on artifact maps (BTreeMap<VirtualTargetPath, HashMap<HashAlgorithm, HashValue>>) is structural equality
pub type ArtifactMap = BTreeMap<VirtualTargetPath, TargetDescription>;
#[verifier::external_body]
pub proof fn fact_artifact_map_eq()
    ensures <ArtifactMap as vstd::std_specs::cmp::PartialEqSpec>::obeys_eq_spec(),
            forall|a: ArtifactMap, b: ArtifactMap| #[trigger] vstd::std_specs::cmp::PartialEqSpec::eq_spec(&a, &b) == (a == b),
{}
// assumed: an artifact map value is determined by its view (clone() returns an equal value)
#[verifier::external_body]
pub proof fn fact_artifact_map_ext()
    ensures forall|a: ArtifactMap, b: ArtifactMap| #![trigger a@, b@] a@ == b@ ==> a == b,
{}
impl Clone for VirtualTargetPath { #[verifier::external_body] fn clone(&self) -> (r: Self) ensures r == *self { unimplemented!() } }
impl Clone for HashAlgorithm { #[verifier::external_body] fn clone(&self) -> (r: Self) ensures r == *self { unimplemented!() } }
impl Clone for HashValue { #[verifier::external_body] fn clone(&self) -> (r: Self) ensures r == *self { unimplemented!() } }
