// ---- trusted stub of the part of `ring::signature` used by PublicKey::verify ----
pub mod ring { pub mod signature {
    use vstd::prelude::*;
    pub trait VerificationAlgorithm { spec fn alg_id(&self) -> int; }
    pub struct EdDSAParameters;
    pub struct RsaParameters(pub u8);
    pub struct EcdsaVerificationAlgorithm(pub u8);
    impl VerificationAlgorithm for EdDSAParameters { open spec fn alg_id(&self) -> int { 1 } }
    impl VerificationAlgorithm for RsaParameters { open spec fn alg_id(&self) -> int { self.0 as int } }
    impl VerificationAlgorithm for EcdsaVerificationAlgorithm { open spec fn alg_id(&self) -> int { self.0 as int } }
    pub exec static ED25519: EdDSAParameters ensures true { EdDSAParameters }
    pub exec static RSA_PSS_2048_8192_SHA256: RsaParameters ensures RSA_PSS_2048_8192_SHA256.0 == 2 { RsaParameters(2) }
    pub exec static RSA_PSS_2048_8192_SHA512: RsaParameters ensures RSA_PSS_2048_8192_SHA512.0 == 3 { RsaParameters(3) }
    pub exec static ECDSA_P256_SHA256_ASN1: EcdsaVerificationAlgorithm ensures ECDSA_P256_SHA256_ASN1.0 == 4 { EcdsaVerificationAlgorithm(4) }
    pub struct UnparsedPublicKey<'a> { pub a: &'a dyn VerificationAlgorithm, pub k: &'a [u8] }
    pub struct Unspecified;
    // the cryptographic predicate itself is uninterpreted: nothing is ever proved from its strength
    pub uninterp spec fn sig_valid(alg: int, key: Seq<u8>, msg: Seq<u8>, sig: Seq<u8>) -> bool;
    impl<'a> UnparsedPublicKey<'a> {
        #[verifier::external_body]
        pub fn new(a: &'a dyn VerificationAlgorithm, k: &'a Vec<u8>) -> (r: Self) ensures r.a == a, r.k@ == k@ { unimplemented!() }
        #[verifier::external_body]
        pub fn verify(&self, msg: &[u8], sig: &Vec<u8>) -> (r: Result<(), Unspecified>)
            ensures r is Ok <==> sig_valid(self.a.alg_id(), self.k@, msg@, sig@) { unimplemented!() }
    }
}}
use ring::signature::{ED25519, RSA_PSS_2048_8192_SHA256, RSA_PSS_2048_8192_SHA512, ECDSA_P256_SHA256_ASN1};
