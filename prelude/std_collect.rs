// ---- trusted std specs: String::from_utf8, str::replace, HashMap FromIterator / by-value iteration ----
#[verifier::external_type_specification]
#[verifier::external_body]
pub struct ExFromUtf8Error(std::string::FromUtf8Error);

pub assume_specification [String::from_utf8] (v: Vec<u8>) -> (r: std::result::Result<String, std::string::FromUtf8Error>)
    ensures r is Ok <==> vstd::utf8::valid_utf8(v@),
            r is Ok ==> r->Ok_0@ == vstd::utf8::decode_utf8(v@);

// str::replace(from, to): a function of the three texts (non-overlapping left-to-right replacement)
pub uninterp spec fn str_replace(s: Seq<char>, from: Seq<char>, to: Seq<char>) -> Seq<char>;
pub uninterp spec fn str_replace_p<P>(s: Seq<char>, from: P, to: Seq<char>) -> Seq<char>;
pub assume_specification<P: std::str::pattern::Pattern> [str::replace::<P>] (s: &str, from: P, to: &str) -> (r: String)
    ensures r@ == str_replace_p(s@, from, to@);
#[verifier::external_body]
pub proof fn fact_replace_str_pattern(s: Seq<char>, from: &str, to: Seq<char>)
    ensures str_replace_p::<&str>(s, from, to) == str_replace(s, from@, to)
{}

// the text that is actually signed / verified for canonical bytes `b` (metadata.rs: `.replace("\\n", "\n")` on the canonical JSON)
pub open spec fn signed_text(b: Seq<u8>) -> Seq<u8> {
    vstd::utf8::encode_utf8(str_replace(vstd::utf8::decode_utf8(b), "\\n"@, "\n"@))
}
// std's documented meaning of `s.replace("\\n", "\n")`: leftmost, non-overlapping occurrences of backslash+'n' become a line feed
pub open spec fn unesc_nl(s: Seq<char>) -> Seq<char>
    decreases s.len()
{
    if s.len() == 0 { seq![] }
    else if s.len() >= 2 && s[0] == '\\' && s[1] == 'n' { seq!['\n'] + unesc_nl(s.subrange(2, s.len() as int)) }
    else { seq![s[0]] + unesc_nl(s.subrange(1, s.len() as int)) }
}
#[verifier::external_body]
pub proof fn fact_replace_is_unesc_nl(s: Seq<char>)
    ensures str_replace(s, "\\n"@, "\n"@) == unesc_nl(s)
{}

// by-value iteration of a HashMap: some duplicate-free enumeration of exactly its entries
#[verifier::prophetic]
pub open spec fn hm_into_iter_post<K, V, S, A: std::alloc::Allocator>(m: HashMap<K, V, S, A>, iter: std::collections::hash_map::IntoIter<K, V, A>) -> bool {
    &&& iter.obeys_prophetic_iter_laws()
    &&& iter.decrease() is Some
    &&& iter.remaining().len() == m@.dom().len()
    &&& forall|i: int| 0 <= i < iter.remaining().len() ==> m@.contains_key((#[trigger] iter.remaining()[i]).0) && m@[iter.remaining()[i].0] == iter.remaining()[i].1
    &&& forall|i: int, j: int| 0 <= i < j < iter.remaining().len() ==> (#[trigger] iter.remaining()[i]).0 != (#[trigger] iter.remaining()[j]).0
    &&& forall|k: K| m@.contains_key(k) ==> exists|i: int| 0 <= i < iter.remaining().len() && (#[trigger] iter.remaining()[i]).0 == k
}
pub assume_specification<K, V, S, A: std::alloc::Allocator>[<HashMap<K, V, S, A> as IntoIterator>::into_iter](m: HashMap<K, V, S, A>) -> (iter: std::collections::hash_map::IntoIter<K, V, A>)
    ensures
        exists|t: std::collections::hash_map::IntoIter<K, V, A>| t == iter && #[trigger] hm_into_iter_post(m, t);

// <[T]>::contains: membership w.r.t. the type's equality; for types whose PartialEq is structural
// (assumed for the derived impls of the repo) this is membership in the view
pub assume_specification<T: PartialEq> [<[T]>::contains] (s: &[T], x: &T) -> (r: bool)
    ensures r == s@.contains(*x);

// `for (k, v) in &map`: borrowed iteration of a HashMap enumerates exactly its entries, each key once
#[verifier::prophetic]
pub open spec fn hm_ref_iter_post<'a, K, V, S, A: std::alloc::Allocator>(m: &'a HashMap<K, V, S, A>, iter: std::collections::hash_map::Iter<'a, K, V>) -> bool {
    let rem = vstd::std_specs::iter::IteratorSpec::remaining(&iter);
    &&& vstd::std_specs::iter::IteratorSpec::obeys_prophetic_iter_laws(&iter)
    &&& vstd::std_specs::iter::IteratorSpec::decrease(&iter) is Some
    &&& rem.len() == m@.dom().len()
    &&& forall|i: int| 0 <= i < rem.len() ==> m@.contains_key(*(#[trigger] rem[i]).0) && m@[*rem[i].0] == *rem[i].1
    &&& forall|i: int, j: int| 0 <= i < j < rem.len() ==> *(#[trigger] rem[i]).0 != *(#[trigger] rem[j]).0
    &&& forall|k: K| m@.contains_key(k) ==> exists|i: int| 0 <= i < rem.len() && *(#[trigger] rem[i]).0 == k
}
pub assume_specification<'a, K, V, S, A: std::alloc::Allocator>[<&'a HashMap<K, V, S, A> as IntoIterator>::into_iter](m: &'a HashMap<K, V, S, A>) -> (iter: std::collections::hash_map::Iter<'a, K, V>)
    ensures
        exists|t: std::collections::hash_map::Iter<'a, K, V>| t == iter && #[trigger] hm_ref_iter_post(m, t);

// blanket ToOwned for Clone types is clone(); for the repo's types clone is assumed structural
pub assume_specification<T: Clone> [<T as std::borrow::ToOwned>::to_owned] (x: &T) -> (r: T)
    ensures exists|t: T| t == r && #[trigger] to_owned_post(*x, t);
pub uninterp spec fn to_owned_post<T>(x: T, r: T) -> bool;
#[verifier::external_body]
pub proof fn fact_to_owned_keyid()
    ensures forall|x: KeyId, r: KeyId| #[trigger] to_owned_post(x, r) ==> r == x
{}

// Option::or_else: keep a Some, otherwise the result of the closure
pub assume_specification<T, F: FnOnce() -> Option<T>> [Option::<T>::or_else::<F>] (o: Option<T>, f: F) -> (r: Option<T>)
    requires o is None ==> f.requires(()),
    ensures o is Some ==> r == o,
            o is None ==> f.ensures((), r);

// Result::unwrap_or
pub assume_specification<T, E> [std::result::Result::<T, E>::unwrap_or] (r: std::result::Result<T, E>, default: T) -> (v: T)
    ensures v == (match r { Ok(x) => x, Err(_) => default });

// `for x in [a, b]`: by-value iteration of an array yields its elements in order
#[verifier::prophetic]
pub open spec fn arr_into_iter_post<T, const N: usize>(a: [T; N], iter: std::array::IntoIter<T, N>) -> bool {
    &&& vstd::std_specs::iter::IteratorSpec::obeys_prophetic_iter_laws(&iter)
    &&& vstd::std_specs::iter::IteratorSpec::decrease(&iter) is Some
    &&& vstd::std_specs::iter::IteratorSpec::remaining(&iter) == a@
}
pub assume_specification<T, const N: usize>[<[T; N] as IntoIterator>::into_iter](a: [T; N]) -> (iter: <[T; N] as IntoIterator>::IntoIter)
    ensures exists|t: std::array::IntoIter<T, N>| t == iter && #[trigger] arr_into_iter_post(a, t);
