#![feature(allocator_api)]
#![feature(pattern)]
#![feature(slice_pattern)]
#![feature(slice_concat_trait)]
#![feature(slice_index_methods)]
#![allow(unused_imports, unused_variables, dead_code, unused_mut, unused_parens, non_snake_case, unreachable_code, unused_braces)]
use vstd::prelude::*;
use vstd::string::*;
use vstd::std_specs::iter::*;
use vstd::std_specs::hash::*;
use std::collections::HashMap;
use std::collections::HashSet;
use std::collections::BTreeMap;
use std::collections::BTreeSet;
use std::str::FromStr;
