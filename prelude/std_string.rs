// ---- trusted std specs: String / str (byte length is the UTF-8 length) ----
pub assume_specification [String::len] (s: &String) -> (r: usize)
    ensures r == vstd::utf8::encode_utf8(s@).len();
pub assume_specification [String::as_bytes] (s: &String) -> (r: &[u8])
    ensures r@ == vstd::utf8::encode_utf8(s@);

// a String value is determined by its text (spec equality is extensional on the view)
#[verifier::external_body]
pub proof fn fact_string_ext()
    ensures forall|a: String, b: String| #![trigger a@, b@] a@ == b@ ==> a == b,
            vstd::std_specs::hash::obeys_key_model::<String>(),
{}
