// ---- trusted std specs: String / str (byte length is the UTF-8 length) ----
pub assume_specification [String::len] (s: &String) -> (r: usize)
    ensures r == vstd::utf8::encode_utf8(s@).len();
pub assume_specification [String::as_bytes] (s: &String) -> (r: &[u8])
    ensures r@ == vstd::utf8::encode_utf8(s@);

