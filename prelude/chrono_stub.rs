// ---- trusted stub of chrono: a DateTime denotes an absolute instant; comparison is comparison of instants ----
pub mod chrono {
    use vstd::prelude::*;
    use vstd::std_specs::cmp::*;
    pub struct Utc;
    #[verifier::external_body]
    #[verifier::reject_recursive_types(Tz)]
    pub struct DateTime<Tz> { _tz: std::marker::PhantomData<Tz> }
    pub uninterp spec fn instant<Tz>(d: DateTime<Tz>) -> int;
    // the readings Utc::now() may return (ghost clock)
    pub uninterp spec fn clock_reading(t: int) -> bool;
    impl Utc {
        #[verifier::external_body]
        pub fn now() -> (r: DateTime<Utc>) ensures clock_reading(instant(r)) { unimplemented!() }
    }
    impl<Tz> Clone for DateTime<Tz> {
        #[verifier::external_body]
        fn clone(&self) -> (r: Self) ensures r == *self { unimplemented!() }
    }
    impl<Tz> Copy for DateTime<Tz> {}
    impl<Tz> PartialEq for DateTime<Tz> {
        #[verifier::external_body]
        fn eq(&self, other: &Self) -> bool { unimplemented!() }
    }
    impl<Tz> PartialEqSpecImpl for DateTime<Tz> {
        open spec fn obeys_eq_spec() -> bool { true }
        open spec fn eq_spec(&self, other: &Self) -> bool { instant(*self) == instant(*other) }
    }
    impl<Tz> PartialOrd for DateTime<Tz> {
        #[verifier::external_body]
        fn partial_cmp(&self, other: &Self) -> Option<std::cmp::Ordering> { unimplemented!() }
    }
    impl<Tz> PartialOrdSpecImpl for DateTime<Tz> {
        open spec fn obeys_partial_cmp_spec() -> bool { true }
        open spec fn partial_cmp_spec(&self, other: &Self) -> Option<std::cmp::Ordering> {
            if instant(*self) < instant(*other) { Some(std::cmp::Ordering::Less) }
            else if instant(*self) == instant(*other) { Some(std::cmp::Ordering::Equal) }
            else { Some(std::cmp::Ordering::Greater) }
        }
    }
}
