// ---- the repo's Error type (real definition) and its From conversions (assumed: they only build a message) ----
//@take src/error.rs enum:Error
pub type Result<T> = std::result::Result<T, Error>;

#[verifier::external_type_specification]
#[verifier::external_body]
pub struct ExUtf8Error(std::str::Utf8Error);

impl From<std::str::Utf8Error> for Error {
    #[verifier::external_body]
    fn from(err: std::str::Utf8Error) -> (r: Error) ensures r is Opaque { unimplemented!() }
}
