// ---- trusted stubs for rulelib: glob matching, path cleaning, BTreeSet adapter chains ----
// glob::Pattern::new(pattern)?.matches(path): a partial function of the two texts (None = pattern not interpretable)
pub uninterp spec fn glob_ok(pattern: Seq<char>, path: Seq<char>) -> Option<bool>;
// pattern validity does not depend on the path
#[verifier::external_body]
pub proof fn fact_glob_validity(pattern: Seq<char>, p1: Seq<char>, p2: Seq<char>)
    ensures glob_ok(pattern, p1) is None <==> glob_ok(pattern, p2) is None
{}
// path_clean::clean as a function of the text
pub uninterp spec fn clean_text(p: Seq<char>) -> Seq<char>;

impl VirtualTargetPath {
    pub closed spec fn text(self) -> Seq<char> { self.0@ }
//@extract src/models/helpers.rs impl:VirtualTargetPath/fn:matches stub
//@contract ret=r
    ensures match glob_ok(pattern@, self.text()) { Some(b) => r is Ok && r->Ok_0 == b, None => r is Err },
//@end
//@extract src/models/helpers.rs impl:VirtualTargetPath/fn:value stub
//@contract ret=r
    ensures r@ == self.text(),
//@end
}
#[verifier::external_body]
pub proof fn fact_vtp_ext()
    ensures forall|a: VirtualTargetPath, b: VirtualTargetPath| #![trigger a.text(), b.text()] a.text() == b.text() ==> a == b,
            vstd::std_specs::btree::key_obeys_cmp_spec::<VirtualTargetPath>(),
{}

// D30: `A.<op>(&B).cloned().collect()` for op in intersection / difference on BTreeSets (std contract of the set operations)
#[verifier::external_body]
fn btreeset_intersection_cloned(a: &BTreeSet<VirtualTargetPath>, b: &BTreeSet<VirtualTargetPath>) -> (r: BTreeSet<VirtualTargetPath>)
    ensures r@ == a@.intersect(b@)
{ a.intersection(b).cloned().collect() }
#[verifier::external_body]
fn btreeset_difference_cloned(a: &BTreeSet<VirtualTargetPath>, b: &BTreeSet<VirtualTargetPath>) -> (r: BTreeSet<VirtualTargetPath>)
    ensures r@ == a@.difference(b@)
{ a.difference(b).cloned().collect() }
// D31: `A.iter().filter(F).cloned().collect()`: the elements of A on which F returned true.
// `ret_of(f, x)` names the value the (specification-deterministic) closure returned for x.
pub open spec fn filter_ret<F: Fn(&&VirtualTargetPath) -> bool>(f: F, x: VirtualTargetPath) -> bool { choose|b: bool| f.ensures((&&x,), b) }
#[verifier::external_body]
fn btreeset_filter_cloned<F: Fn(&&VirtualTargetPath) -> bool>(a: &BTreeSet<VirtualTargetPath>, f: F) -> (r: BTreeSet<VirtualTargetPath>)
    requires forall|x: &&VirtualTargetPath| #[trigger] f.requires((x,)),
             forall|x: &&VirtualTargetPath, b1: bool, b2: bool| f.ensures((x,), b1) && f.ensures((x,), b2) ==> b1 == b2,
    ensures forall|x: VirtualTargetPath| #![trigger a@.contains(x)] #![trigger filter_ret(f, x)] a@.contains(x) ==> f.ensures((&&x,), filter_ret(f, x)),
            forall|x: VirtualTargetPath| #[trigger] r@.contains(x) <==> (a@.contains(x) && filter_ret(f, x)),
{ unimplemented!() }
