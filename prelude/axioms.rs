// ---- trusted broadcast axioms (one module-level `broadcast use` is allowed per module) ----
pub mod trusted_axioms {
    use vstd::prelude::*;
    use vstd::std_specs::iter::*;
    // Debug/Display implementations (std, derived, thiserror) do not panic
    #[verifier::external_body]
    pub broadcast proof fn axiom_fmt_never_panics<A>()
        ensures #[trigger] vstd::std_specs::fmt::fmt_req_all::<A>()
    {}
    // std's by-value HashMap iterator obeys the (prophetic) iterator laws
    #[verifier::external_body]
    pub broadcast proof fn axiom_hm_into_iter_laws<K, V, A: std::alloc::Allocator>(it: std::collections::hash_map::IntoIter<K, V, A>)
        ensures #[trigger] it.obeys_prophetic_iter_laws(),
    {}
}
broadcast use {trusted_axioms::axiom_fmt_never_panics, trusted_axioms::axiom_hm_into_iter_laws,
               vstd::std_specs::fmt::group_fmt_axioms, vstd::std_specs::hash::group_hash_axioms};

#[verifier::reject_recursive_types(A)]
#[verifier::reject_recursive_types(K)]
#[verifier::reject_recursive_types(V)]
#[verifier::external_type_specification]
#[verifier::external_body]
pub struct ExHmIntoIter<K, V, A>(std::collections::hash_map::IntoIter<K, V, A>)
where A: std::alloc::Allocator,;
