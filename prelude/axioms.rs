// ---- trusted broadcast axioms (one module-level `broadcast use` is allowed per module) ----
pub mod trusted_axioms {
    use vstd::prelude::*;
    use vstd::std_specs::iter::*;
    // Debug/Display implementations (std, derived, thiserror) do not panic
    #[verifier::external_body]
    pub broadcast proof fn axiom_fmt_never_panics<A>()
        ensures #[trigger] vstd::std_specs::fmt::fmt_req_all::<A>()
    {}
    // collect::<HashMap<K,V>>(): every pair is inserted in order, later keys overwrite earlier ones
    pub open spec fn last_index_of<K, V>(s: Seq<(K, V)>, k: K) -> int
        decreases s.len()
    {
        if s.len() == 0 { -1 } else if s.last().0 == k { s.len() - 1 } else { last_index_of(s.drop_last(), k) }
    }
    #[verifier::external_body]
    pub broadcast proof fn axiom_hashmap_from_iter<K: std::cmp::Eq + std::hash::Hash, V>(s: Seq<(K, V)>, m: std::collections::HashMap<K, V>)
        requires #[trigger] <std::collections::HashMap<K, V> as FromIteratorSpec<(K, V)>>::from_iter_ensures(s, m), vstd::std_specs::hash::obeys_key_model::<K>(),
        ensures
            forall|i: int| 0 <= i < s.len() ==> m@.contains_key(#[trigger] s[i].0),
            forall|k: K| #[trigger] m@.contains_key(k) ==> 0 <= last_index_of(s, k) < s.len() && s[last_index_of(s, k)].0 == k && m@[k] == s[last_index_of(s, k)].1,
    {}
    // HashMap<&Q, V>::get(&Q): `&Q: Borrow<Q>` is the identity borrow
    #[verifier::external_body]
    pub broadcast proof fn axiom_contains_ref_key<Q, V>(m: Map<&Q, V>, k: &Q)
        ensures #[trigger] vstd::std_specs::hash::contains_borrowed_key::<&Q, V, Q>(m, k) == m.contains_key(k)
    {}
    #[verifier::external_body]
    pub broadcast proof fn axiom_maps_ref_key_to_value<Q, V>(m: Map<&Q, V>, k: &Q, v: V)
        ensures #[trigger] vstd::std_specs::hash::maps_borrowed_key_to_value::<&Q, V, Q>(m, k, v) == (m.contains_key(k) && m[k] == v)
    {}
    // HashMap<String, V>::get(&str): `String: Borrow<str>` borrows the text
    #[verifier::external_body]
    pub broadcast proof fn axiom_contains_str_key<V>(m: Map<String, V>, k: &str)
        ensures #[trigger] vstd::std_specs::hash::contains_borrowed_key::<String, V, str>(m, k) == (exists|s: String| s@ == k@ && m.contains_key(s))
    {}
    #[verifier::external_body]
    pub broadcast proof fn axiom_maps_str_key_to_value<V>(m: Map<String, V>, k: &str, v: V)
        ensures #[trigger] vstd::std_specs::hash::maps_borrowed_key_to_value::<String, V, str>(m, k, v) == (exists|s: String| s@ == k@ && m.contains_key(s) && m[s] == v)
    {}
    // std's by-value array iterator obeys the (prophetic) iterator laws
    #[verifier::external_body]
    pub broadcast proof fn axiom_arr_into_iter_laws<T, const N: usize>(it: std::array::IntoIter<T, N>)
        ensures #[trigger] it.obeys_prophetic_iter_laws(),
    {}
    // std's by-value HashMap iterator obeys the (prophetic) iterator laws
    #[verifier::external_body]
    pub broadcast proof fn axiom_hm_into_iter_laws<K, V, A: std::alloc::Allocator>(it: std::collections::hash_map::IntoIter<K, V, A>)
        ensures #[trigger] it.obeys_prophetic_iter_laws(),
    {}
}
pub mod proved_lemmas {
    use vstd::prelude::*;
    // (verified, not assumed) every element of a sequence of references is in the set of its referents
    pub broadcast proof fn lemma_unref_to_set_contains<K>(s: Seq<&K>, i: int)
        requires 0 <= i < s.len()
        ensures #![trigger s.unref().to_set(), s[i]] s.unref().to_set().contains(*s[i])
    {
        assert(s.unref()[i] == *s[i]);
        assert(s.unref().contains(*s[i]));
    }
}
broadcast use {proved_lemmas::lemma_unref_to_set_contains, trusted_axioms::axiom_contains_str_key, trusted_axioms::axiom_maps_str_key_to_value, trusted_axioms::axiom_contains_ref_key, trusted_axioms::axiom_maps_ref_key_to_value, trusted_axioms::axiom_hashmap_from_iter, trusted_axioms::axiom_fmt_never_panics, trusted_axioms::axiom_hm_into_iter_laws, trusted_axioms::axiom_arr_into_iter_laws,
               vstd::std_specs::fmt::group_fmt_axioms, vstd::std_specs::hash::group_hash_axioms};

#[verifier::reject_recursive_types(A)]
#[verifier::reject_recursive_types(K)]
#[verifier::reject_recursive_types(V)]
#[verifier::external_type_specification]
#[verifier::external_body]
pub struct ExHmIntoIter<K, V, A>(std::collections::hash_map::IntoIter<K, V, A>)
where A: std::alloc::Allocator,;
#[verifier::reject_recursive_types(T)]
#[verifier::external_type_specification]
#[verifier::external_body]
pub struct ExArrIntoIter<T, const N: usize>(std::array::IntoIter<T, N>);
