"""Assemble a Verus unit file from a template in /verif/units and the current /repo sources.

Template directives (each on its own line):

  //@props C14,C20                    unit-level default property list
  //@include prelude/std_string.rs    copy a file from /verif verbatim (trusted prelude / lemmas)
  //@take <relpath> <selector> [k=v..] extract an item (types, consts) with rewrites D1..D5 only
  //@extract <relpath> <selector> [props=C04,C01] [panics=C20] [stub]
      //@contract                     following raw lines go between signature and body
      //@loop K [iter=NAME]           following raw lines go before the '{' of the K-th loop
                                      (K counts `for`/`while`/`loop` keywords in textual order);
                                      iter=NAME rewrites `for P in E` to `for P in NAME: E`
      //@before /regex/ [nth=N]       following raw lines go before the line matching regex
      //@after /regex/ [nth=N]        following raw lines go after the line matching regex
      //@subst Dk /regex/ => text [count=N]   logged textual rewrite (D4/D6/D7 only)
  //@end
  `stub` on //@extract: keep the real signature, replace the body by unimplemented!() and mark the
  function #[verifier::external_body] (a callee that belongs to another unit / is assumed).

A trailing `// [C04,C01]` on an inserted clause line attributes a failure of that clause to those
properties only; otherwise the function's `props=` (or the unit's //@props) are used.
"""
import os
import re
import hashlib
from . import lex
from .extract import extract, ExtractError

VERIF = os.path.dirname(os.path.dirname(os.path.abspath(__file__)))
REPO = os.environ.get('VERIF_REPO', '/repo')


class Line:
    __slots__ = ('text', 'origin', 'tags')

    def __init__(self, text, origin, tags=None):
        self.text = text
        self.origin = origin  # ('repo', file, line) | ('spec', file, line) | ('prelude', file, line)
        self.tags = tags


class Func:
    def __init__(self, name, relpath, selector, props, stub):
        self.name = name
        self.relpath = relpath
        self.selector = selector
        self.props = props
        self.stub = stub
        self.start = self.end = 0  # assembled line numbers (1-based, inclusive)
        self.sha256 = ''
        self.edits = []
        self.repo_first = self.repo_last = 0


class Unit:
    def __init__(self, name):
        self.name = name
        self.lines = []
        self.funcs = []
        self.props = []
        self.trusted = []   # (kind, text) from the cheating scan
        self.frames = []    # frame conditions checked syntactically on the owning file
        self.rewrites = []  # log of D-rule applications
        self.template = ''

    def text(self):
        return '\n'.join(l.text for l in self.lines) + '\n'

    def func_at(self, line):
        best = None
        for f in self.funcs:
            if f.start <= line <= f.end:
                if best is None or (f.end - f.start) < (best.end - best.start):
                    best = f
        return best

    def origin(self, line):
        if 1 <= line <= len(self.lines):
            return self.lines[line - 1].origin
        return None


_TAG = re.compile(r'//\s*\[((?:C\d+)(?:\s*,\s*C\d+)*)\]\s*$')


def _tags(text):
    m = _TAG.search(text)
    if m:
        return [t.strip() for t in m.group(1).split(',')]
    return None


def _kv(args):
    d = {}
    pos = []
    for a in args:
        if '=' in a and re.match(r'^[a-z_]+=', a):
            k, v = a.split('=', 1)
            d[k] = v
        else:
            pos.append(a)
    return pos, d


def _parse_regex_directive(rest, what):
    m = re.match(r'\s*/((?:[^/\\]|\\.)*)/\s*(.*)$', rest)
    if not m:
        raise ExtractError('malformed %s directive: %s' % (what, rest))
    return m.group(1).replace('\\/', '/'), m.group(2)


def _loop_positions(msk):
    """Offsets of `for`/`while`/`loop` keywords that start a loop (textual order)."""
    res = []
    for m in re.finditer(r'\b(for|while|loop)\b', msk):
        kw = m.group(1)
        # `for` in `impl X for Y` / `for<'a>` cannot occur inside a fn body except HRTB: skip `for<`
        if kw == 'for' and re.compile(r'\s*<').match(msk, m.end()):
            continue
        # must be followed by a block: find '{' at depth 0
        j = lex.find_at_depth0(msk, m.end(), len(msk), '{;')
        if j < 0 or msk[j] != '{':
            continue
        res.append((m.start(), m.end(), j, kw))
    return res


def _split_top_commas(text):
    msk = lex.mask(text)
    parts, depth, last = [], 0, 0
    for i, c in enumerate(msk):
        if c in '([{':
            depth += 1
        elif c in ')]}':
            depth -= 1
        elif c == ',' and depth == 0:
            parts.append(text[last:i])
            last = i + 1
    parts.append(text[last:])
    return [p for p in parts if p.strip()]


def _enclosing_open(msk, pos):
    depth = 0
    j = pos
    while j >= 0:
        c = msk[j]
        if c == '}':
            depth += 1
        elif c == '{':
            if depth == 0:
                return j
            depth -= 1
        j -= 1
    return -1


def rewrite_continue(text, log):
    """D14 (Verus has no `continue` in for-loops): every `continue;` that ends an `if` block which is a
    direct statement of a loop body is removed and the rest of that loop body becomes the `else` branch."""
    while True:
        msk = lex.mask(text)
        m = re.search(r'\bcontinue\s*;', msk)
        if not m:
            return text
        bo = _enclosing_open(msk, m.start())
        if bo < 0:
            raise ExtractError('continue outside a block')
        bc = lex.match_bracket(msk, bo)
        # `continue;` must be the last statement of the if block
        if msk[m.end():bc].strip():
            raise ExtractError('D14: continue is not the last statement of its block')
        # the block must belong to an `if` without else
        hdr_start = max(msk.rfind(';', 0, bo), msk.rfind('{', 0, bo), msk.rfind('}', 0, bo)) + 1
        if not re.match(r'\s*if\b', msk[hdr_start:bo]):
            raise ExtractError('D14: continue not inside a plain `if` block')
        if re.match(r'\s*else\b', msk[bc + 1:]):
            raise ExtractError('D14: if-block with else')
        lo = _enclosing_open(msk, hdr_start - 1)
        if lo < 0:
            raise ExtractError('D14: no enclosing loop body')
        lc = lex.match_bracket(msk, lo)
        # the enclosing block must be a loop body, or an `else` block (from an earlier D14 step) that ends one
        cur_open = lo
        while True:
            lh = max(msk.rfind(';', 0, cur_open), msk.rfind('{', 0, cur_open), msk.rfind('}', 0, cur_open)) + 1
            hdr = msk[lh:cur_open]
            if re.match(r'\s*(for|while|loop)\b', hdr):
                break
            if re.match(r'\s*else\s*$', hdr):
                cur_close = lex.match_bracket(msk, cur_open)
                outer = _enclosing_open(msk, lh - 1)
                if outer < 0 or msk[cur_close + 1:lex.match_bracket(msk, outer)].strip():
                    raise ExtractError('D14: else block does not end the loop iteration')
                cur_open = outer
                continue
            raise ExtractError('D14: continue not directly inside a loop body')
        log.append(('D14', 'continue removed; rest of loop body moved into else branch', text.count('\n', 0, m.start())))
        blank = ''.join(ch if ch == '\n' else ' ' for ch in text[m.start():m.end()])
        text = text[:m.start()] + blank + text[m.end():bc + 1] + ' else {' + text[bc + 1:lc] + '} ' + text[lc:]


AUTO_UNCONTINUE = False


def _stmt_header(msk, open_pos):
    """text between the start of the statement piece that owns the block opened at `open_pos` and that brace"""
    st = max(msk.rfind(';', 0, open_pos), msk.rfind('{', 0, open_pos), msk.rfind('}', 0, open_pos)) + 1
    return st, msk[st:open_pos]


def _match_arms(msk, mo, mc):
    """bodies of the arms of the match block msk[mo..mc]: list of (start, end, is_block)"""
    arms = []
    i = mo + 1
    while i < mc:
        # find `=>` at depth 0
        j = i
        found = -1
        while j < mc:
            c = msk[j]
            if c in lex.OPEN:
                j = lex.match_bracket(msk, j) + 1
                continue
            if c == '=' and msk[j + 1] == '>':
                found = j
                break
            j += 1
        if found < 0:
            break
        k = found + 2
        while k < mc and msk[k] in ' \t\n':
            k += 1
        if msk[k] == '{':
            e = lex.match_bracket(msk, k) + 1
            arms.append((k, e, True))
            i = e
            while i < mc and msk[i] in ' \t\n,':
                i += 1
        else:
            e = lex.find_at_depth0(msk, k, mc, ',')
            if e < 0:
                e = mc
                while e > k and msk[e - 1] in ' \t\n':
                    e -= 1
            arms.append((k, e, False))
            i = e + 1
    return arms


_DIVERGES = re.compile(r'^\s*(return\b|continue\b|break\b|panic!|unreachable!|unimplemented!|todo!)')


def rewrite_continue_flag(text, log):
    """D45 (Verus for-loops have no `continue`): in a `for` body, `continue;` becomes `_skipN = true;` and, at every enclosing
    statement-block level up to the loop body, the statements that follow are wrapped in `if !_skipN { .. }`.  `_skipN` is declared
    `false` at the top of the body.  The skip-on-error idiom `let P = match E { A => V, B => { ..; continue; } };` is handled too:
    it becomes `let _contN = match E { A => Some(V), B => { ..; _skipN = true; None } }; if !_skipN { let P = _contN.unwrap(); .. }`.
    Any other value position (assignment, closure) aborts the extraction (UNDECIDED).  Applied only after Verus refused the unit
    for this very reason."""
    # D45a: a brace-less `=> continue,` arm is written with braces first (syntax only)
    while True:
        msk0 = lex.mask(text)
        mm = re.search(r'=>\s*continue\s*,', msk0)
        if not mm:
            break
        text = text[:mm.start()] + '=> { continue; }' + text[mm.end():]
    n = 0
    while True:
        msk = lex.mask(text)
        target = None
        for m in re.finditer(r'\bcontinue\s*;', msk):
            # nearest enclosing loop
            o = _enclosing_open(msk, m.start())
            kind = None
            while o >= 0:
                _, hdr = _stmt_header(msk, o)
                hm = re.match(r"\s*(?:'\w+\s*:\s*)?(for|while|loop)\b", hdr)
                if hm:
                    kind = hm.group(1)
                    break
                o = _enclosing_open(msk, o - 1)
            if kind == 'for':
                target = (m, o)
                break
        if target is None:
            return text
        m, loop_open = target
        n += 1
        if n > 20:
            raise ExtractError('D45: too many continue statements')
        flag = '_skip%d' % n
        edits = []   # (start, end, replacement) on the current text, non-overlapping; equal positions keep append order
        cur_open = _enclosing_open(msk, m.start())
        cur_close = lex.match_bracket(msk, cur_open)
        edits.append((m.start(), m.end(), flag + ' = true;'))
        rest_from = m.end()
        prefix = ''
        while True:
            # wrap what follows inside the current statement block
            if msk[rest_from:cur_close].strip() or prefix:
                edits.append((rest_from, rest_from, ' if !%s {%s' % (flag, prefix)))
                edits.append((cur_close, cur_close, '} '))
                prefix = ''
            if cur_open == loop_open:
                break
            # climb: the construct that owns cur block, inside its parent block (a match arm body climbs to the match statement)
            arm_body = None
            while True:
                parent_open = _enclosing_open(msk, cur_open - 1)
                if parent_open < 0:
                    raise ExtractError('D45: lost the loop body')
                st, hdr = _stmt_header(msk, cur_open)
                if re.search(r'\|[^|]*\|\s*(->[^{]*)?$', hdr) or re.search(r'\bmove\s*$', hdr):
                    raise ExtractError('D45: continue inside a closure')
                _, phdr = _stmt_header(msk, parent_open)
                if re.search(r'\bmatch\b[^;{}]*$', phdr) and re.search(r'=>\s*$', hdr):
                    if parent_open == loop_open:
                        raise ExtractError('D45: lost the loop body')
                    arm_body = (cur_open, cur_close)
                    cur_open, cur_close = parent_open, lex.match_bracket(msk, parent_open)
                    continue
                break
            # start of the whole statement (walk back over `if .. {} else if .. {} else` chains)
            while re.match(r'\s*else\b', hdr):
                prev_close = st - 1
                if prev_close < 0 or msk[prev_close] != '}':
                    raise ExtractError('D45: malformed else chain')
                po = _enclosing_open(msk, prev_close - 1)
                st, hdr = _stmt_header(msk, po)
            lm = re.match(r"(?P<lead>\s*)let\s+(?P<pat>[^=:]+?)\s*(?::\s*(?P<ty>[^=]+?))?\s*=\s*match\b", hdr)
            if lm and arm_body is not None and _enclosing_open(msk, arm_body[0] - 1) == cur_open:
                # skip-on-error idiom: let P = match E { .. => V, .. => { ..; continue; } };
                tail = re.match(r'\s*;', msk[cur_close + 1:])
                if not tail:
                    raise ExtractError('D45: let-match without `;`')
                own = re.match(r'_cont\d+$', lm.group('pat').strip())
                edits.append((arm_body[1] - 1, arm_body[1] - 1, ' None '))
                if not own:
                    tmp = '_cont%d' % n
                    for (bs, be, is_block) in _match_arms(msk, cur_open, cur_close):
                        if bs == arm_body[0]:
                            continue
                        body_txt = msk[bs + 1:be - 1] if is_block else msk[bs:be]
                        last_stmt = body_txt.rstrip().rstrip(';').rsplit(';', 1)[-1] if is_block else body_txt
                        if _DIVERGES.match(last_stmt if last_stmt.strip() else body_txt):
                            continue
                        edits.append((bs, bs, 'Some('))
                        edits.append((be, be, ')'))
                    ty = lm.group('ty')
                    edits.append((st + lm.start(), st + lm.end(), '%slet %s = match' % (lm.group('lead'), tmp)))
                    prefix = ' let %s%s = %s.unwrap();' % (lm.group('pat').strip(), (': ' + ty.strip()) if ty else '', tmp)
                rest_from = cur_close + 1 + tail.end()
                cur_open, cur_close = parent_open, lex.match_bracket(msk, parent_open)
                continue
            if not re.match(r"\s*(?:'\w+\s*:\s*)?(if|match|for|while|loop|unsafe)\b|\s*$", hdr):
                raise ExtractError('D45: continue in a value position (%s)' % hdr.strip()[:40])
            # end of the whole statement (walk forward over else chains)
            end = cur_close + 1
            while True:
                me = re.match(r'\s*else\b', msk[end:])
                if not me:
                    break
                bo = lex.find_at_depth0(msk, end + me.end(), len(msk), '{')
                if bo < 0:
                    raise ExtractError('D45: malformed else chain')
                end = lex.match_bracket(msk, bo) + 1
            ms = re.match(r'\s*;', msk[end:])
            if ms:
                end += ms.end()
            rest_from = end
            cur_open, cur_close = parent_open, lex.match_bracket(msk, parent_open)
        edits.append((loop_open + 1, loop_open + 1, ' let mut %s: bool = false;' % flag))
        order = sorted(range(len(edits)), key=lambda i: (-edits[i][0], -edits[i][1], -i))
        for i in order:
            a, b, rep = edits[i]
            text = text[:a] + rep + text[b:]
        log.append(('D45', '`continue` in a for body replaced by flag %s guarding the rest of the iteration' % flag, text.count('\n', 0, m.start())))


def rewrite_format(text, nth, log):
    """D10: the nth `format!(..)` (only `{}` / `{name}` placeholders, no format specs) becomes
    `{ let mut _f = String::new(); _f.push_str("lit"); _f.push_str(VDisp::vdisp(&(X)).as_str()); ..; _f }`.
    This is the documented meaning of format! for Display placeholders; VDisp::vdisp is the trusted
    model of `Display::fmt` for the few types used (prelude/vdisp.rs)."""
    msk = lex.mask(text)
    ms = list(re.finditer(r'\bformat!\s*\(', msk))
    if len(ms) < nth:
        raise ExtractError('fmt: format! #%d not found' % nth)
    m = ms[nth - 1]
    po = msk.index('(', m.start())
    pc = lex.match_bracket(msk, po)
    args = _split_top_commas(text[po + 1:pc])
    if not args:
        raise ExtractError('fmt: empty format!')
    lit = args[0].strip()
    mm = re.match(r'^"((?:[^"\\]|\\.)*)"$', lit, flags=re.S)
    if not mm:
        raise ExtractError('fmt: first argument is not a plain string literal')
    fs = mm.group(1)
    named, positional = {}, []
    for a in args[1:]:
        am = re.match(r'^\s*([A-Za-z_][A-Za-z0-9_]*)\s*=(?!=)\s*(.*)$', a, flags=re.S)
        if am:
            named[am.group(1)] = am.group(2).strip()
        else:
            positional.append(a.strip())
    pieces = []
    cur = ''
    i = 0
    nextpos = 0
    while i < len(fs):
        c = fs[i]
        if c == '{':
            if fs.startswith('{{', i):
                cur += '{'
                i += 2
                continue
            j = fs.index('}', i)
            inner = fs[i + 1:j]
            if ':' in inner:
                raise ExtractError('fmt: format spec {%s} not supported by D10' % inner)
            if cur:
                pieces.append(('lit', cur))
                cur = ''
            if inner == '':
                if nextpos >= len(positional):
                    raise ExtractError('fmt: missing positional argument')
                pieces.append(('arg', positional[nextpos]))
                nextpos += 1
            elif inner.isdigit():
                pieces.append(('arg', positional[int(inner)]))
            elif inner in named:
                pieces.append(('arg', named[inner]))
            else:
                pieces.append(('arg', inner))   # implicit capture of a variable in scope
            i = j + 1
        elif c == '}':
            if fs.startswith('}}', i):
                cur += '}'
                i += 2
                continue
            raise ExtractError('fmt: stray }')
        else:
            cur += c
            i += 1
    if cur:
        pieces.append(('lit', cur))
    out = '{ let mut _f = String::new(); '
    for k, v in pieces:
        if k == 'lit':
            out += '_f.push_str("%s"); ' % v
        else:
            out += '_f.push_str(VDisp::vdisp(&(%s)).as_str()); ' % re.sub(r'\s+', ' ', v)
    out += '_f }'
    nl = text.count('\n', m.start(), pc + 1)
    log.append(('D10', 'format!(%s ..) rewritten to explicit concatenation' % lit[:40], text.count('\n', 0, m.start())))
    return text[:m.start()] + out + '\n' * nl + text[pc + 1:]


def rewrite_desugar_for(text, k, itname, call, log):
    msk = lex.mask(text)
    mfn = re.search(r'\bfn\b', msk)
    body_open = lex.find_at_depth0(msk, mfn.end(), len(msk), '{;')
    loops = [l for l in _loop_positions(msk) if l[0] > body_open]
    if k < 1 or k > len(loops):
        raise ExtractError('desugar_for %d: function has %d loops' % (k, len(loops)))
    kwstart, kwend, brace, kw = loops[k - 1]
    if kw != 'for':
        raise ExtractError('desugar_for %d: not a for loop' % k)
    j = kwend
    mi = None
    while j < brace:
        c = msk[j]
        if c in lex.OPEN:
            j = lex.match_bracket(msk, j) + 1
            continue
        mm = re.compile(r'\bin\b').match(msk, j)
        if mm and not (msk[j - 1].isalnum() or msk[j - 1] == '_'):
            mi = mm
            break
        j += 1
    if not mi:
        raise ExtractError('desugar_for: cannot find `in`')
    pat = text[kwend:mi.start()].strip()
    expr = text[mi.end():brace].strip()
    src = ('(%s)%s' % (expr, call)) if call else ('IntoIterator::into_iter(%s)' % expr)
    nl = text.count('\n', kwstart, brace + 1)
    new = 'let mut %s = %s; let ghost %s_all = vstd::std_specs::iter::IteratorSpec::remaining(&%s); loop { let %s = match %s.next() { Some(_dv) => _dv, None => break };' % (itname, src, itname, itname, pat, itname) + '\n' * nl
    log.append(('D39', 'for %s in %s desugared to loop over %s.next()' % (pat, expr, itname), text.count('\n', 0, kwstart)))
    return text[:kwstart] + new + text[brace + 1:]


def rewrite_mapindex(text, var, log):
    n = 0
    while True:
        msk = lex.mask(text)
        m = None
        for mm in re.finditer(r'(&\s*)?\b%s\s*\[' % re.escape(var), msk):
            # not a field of something else (`x.var[..]`) and not a declaration
            pre = msk[:mm.start()].rstrip()
            if pre.endswith('.') or pre.endswith('let') or pre.endswith('mut'):
                continue
            m = mm
            break
        if not m:
            break
        bo = msk.index('[', m.start())
        bc = lex.match_bracket(msk, bo)
        inner = text[bo + 1:bc]
        amp = m.group(1) is not None
        after = msk[bc + 1:bc + 2]
        core = '%s.get(%s).expect("no entry found for key")' % (var, inner.strip())
        if not amp and after != '.':
            core = '(*%s)' % core
        nl = text.count('\n', m.start(), bc + 1) - core.count('\n')
        text = text[:m.start()] + core + '\n' * max(nl, 0) + text[bc + 1:]
        n += 1
        if n > 50:
            raise ExtractError('mapindex: too many rewrites')
    log.append(('D16', '%d map index expression(s) on `%s` rewritten to get(..).expect(..)' % (n, var), 0))
    return text


def _apply_block(text, first_line, relpath, directives, tmpl_file, log, stub):
    """Return list of Line for the function text with insertions applied."""
    # D19: `fn f(mut self, ..) { B }`  =>  `fn f(self, ..) { let mut _self = self; B[self := _self] }`
    for d in directives:
        if d['kind'] == 'mutself':
            msk0 = lex.mask(text)
            mm = re.search(r'\(\s*mut\s+self\b', msk0)
            if not mm:
                raise ExtractError('mutself: no `mut self` parameter')
            mfn = re.search(r'\bfn\b', msk0)
            bo = lex.find_at_depth0(msk0, mfn.end(), len(msk0), '{;')
            bc = lex.match_bracket(msk0, bo)
            body = text[bo + 1:bc]
            bm = msk0[bo + 1:bc]
            out = []
            last = 0
            for sm in re.finditer(r'\bself\b', bm):
                out.append(body[last:sm.start()])
                out.append('_self')
                last = sm.end()
            out.append(body[last:])
            head = text[:bo + 1]
            head = head[:mm.start()] + re.sub(r'mut\s+self', 'self', head[mm.start():], count=1)
            text = head + ' let mut _self = self;' + ''.join(out) + text[bc:]
            log.append(('D19', '`mut self` parameter rebound to a local `_self`', 0))
    # D14: `if C { ..; continue; } REST` directly inside a loop body  =>  `if C { .. } else { REST }`
    for d in directives:
        if d['kind'] == 'uncontinue':
            text = rewrite_continue(text, log)
    # D39: `for PAT in EXPR { B }`  =>  `let mut it = EXPR.iter(); loop { let PAT = match it.next() { Some(v) => v, None => break }; B }`
    # (the language definition of `for`, spelled out because Verus for-loops do not support `continue`); applied last-to-first
    for d in sorted([d for d in directives if d['kind'] == 'desugar_for'], key=lambda d: -d['k']):
        text = rewrite_desugar_for(text, d['k'], d['it'], d['call'], log)
    if AUTO_UNCONTINUE and not stub:
        text = rewrite_continue_flag(text, log)
    # D16 (general form): every `VAR[expr]` on the named map variables becomes std's definition of `Index`
    # for maps, `VAR.get(expr).expect("no entry found for key")` (a leading `&` is absorbed; a bare use is dereferenced)
    for d in directives:
        if d['kind'] == 'mapindex':
            for var in d['vars']:
                text = rewrite_mapindex(text, var, log)
    # 0. D10: format!("..{a}..", a = X) => explicit concatenation of literal pieces and Display renderings
    for d in directives:
        if d['kind'] == 'fmt':
            text = rewrite_format(text, d['nth'], log)
    # 1. substitutions (on the raw text, line-count preserving is not required but checked)
    for d in directives:
        if d['kind'] == 'subst':
            rx, rep, cnt, rule = d['regex'], d['rep'], d['count'], d['rule']
            found = len(re.findall(rx, text, flags=re.S))
            if found == 0 and d.get('optional'):
                # an enabling rewrite (a construct Verus cannot type) whose construct is absent: nothing to rewrite
                log.append((rule, 'optional subst /%s/ not applicable: construct absent' % rx, 0))
                continue
            if (cnt == -1 and found == 0) or (cnt != -1 and found != cnt):
                raise ExtractError('subst %s /%s/ matched %d times, expected %d' % (rule, rx, found, cnt))
            def _rep(m, rep=rep):
                out = m.expand(rep)
                nl = m.group(0).count('\n') - out.count('\n')
                if nl < 0:
                    raise ExtractError('subst adds lines')
                return out + '\n' * nl
            text = re.sub(rx, _rep, text, flags=re.S)
            log.append((rule, 'subst /%s/ => %s' % (rx, rep), 0))
    msk = lex.mask(text)
    # locate signature end = body '{'
    m = re.search(r'\bfn\b', msk)
    if not m:
        raise ExtractError('extracted item is not a fn')
    body_open = lex.find_at_depth0(msk, m.end(), len(msk), '{;')
    if body_open < 0 or msk[body_open] != '{':
        raise ExtractError('fn without body')
    body_close = lex.match_bracket(msk, body_open)
    inserts = []  # (offset, [Line...], extra_text_before) ; offset into text
    # D8: name the return value `-> T`  =>  `-> (r: T)` (Verus needs a name to state a postcondition)
    ret = [d.get('ret') for d in directives if d['kind'] == 'contract' and d.get('ret')]
    if ret:
        sig = msk[m.end():body_open]
        ar = None
        j = m.end()
        while j < body_open:
            c = msk[j]
            if c in lex.OPEN:
                j = lex.match_bracket(msk, j) + 1
                continue
            if msk.startswith('->', j):
                ar = j
                break
            j += 1
        if ar is None:
            raise ExtractError('ret= given but fn has no return type')
        wm = re.compile(r'\bwhere\b').search(msk, ar, body_open)
        tend = wm.start() if wm else body_open
        ty = text[ar + 2:tend]
        lead = len(ty) - len(ty.lstrip())
        core = ty.strip()
        trail = ty[lead + len(core):]
        newty = ty[:lead] + '(' + ret[0] + ': ' + core + ')' + trail
        text = text[:ar + 2] + newty + text[tend:]
        log.append(('D8', 'return value named: -> (%s: %s)' % (ret[0], core), text.count('\n', 0, ar)))
        msk = lex.mask(text)
        body_open = lex.find_at_depth0(msk, m.end(), len(msk), '{;')
        body_close = lex.match_bracket(msk, body_open)
    for d in directives:
        k = d['kind']
        if k == 'contract':
            inserts.append((body_open, d['lines'], ''))
        elif k == 'loop':
            loops = [l for l in _loop_positions(msk) if l[0] > body_open]
            if d['k'] > len(loops) or d['k'] < 1:
                raise ExtractError('loop %d not found (function has %d loops)' % (d['k'], len(loops)))
            if d.get('total') is not None and d['total'] != len(loops):
                raise ExtractError('loop count changed: expected %d, found %d' % (d['total'], len(loops)))
            kwstart, kwend, brace, kw = loops[d['k'] - 1]
            inserts.append((brace, d['lines'], ''))
            if d.get('iter'):
                if kw != 'for':
                    raise ExtractError('iter= on a non-for loop')
                mi = None
                # first ` in ` at depth 0 after the pattern
                j = kwend
                while j < brace:
                    c = msk[j]
                    if c in lex.OPEN:
                        j = lex.match_bracket(msk, j) + 1
                        continue
                    mm = re.compile(r'\bin\b').match(msk, j)
                    if mm and not (msk[j - 1].isalnum() or msk[j - 1] == '_'):
                        mi = mm
                        break
                    j += 1
                if not mi:
                    raise ExtractError('cannot find `in` of for loop')
                inserts.append((mi.end(), [], ' ' + d['iter'] + ':'))
        elif k == 'after_loop':
            loops = [l for l in _loop_positions(msk) if l[0] > body_open]
            if d['k'] > len(loops) or d['k'] < 1:
                raise ExtractError('after_loop %d: function has %d loops' % (d['k'], len(loops)))
            brace = loops[d['k'] - 1][2]
            close = lex.match_bracket(msk, brace)
            inserts.append((close + 1, d['lines'], ''))
        elif k in ('before', 'after'):
            lines = text.split('\n')
            hits = [i for i, l in enumerate(lines) if re.search(d['regex'], l)]
            nth = d.get('nth', 1)
            if len(hits) < nth:
                if d.get('optional'):
                    # the proof text attached to this anchor is dropped; the obligations it supported will
                    # then be reported as failed (used only where losing the statement changes the semantics)
                    log.append(('ANCHOR', 'optional anchor /%s/ not found: hint dropped' % d['regex'], 0))
                    continue
                raise ExtractError('anchor /%s/ nth=%d not found' % (d['regex'], nth))
            li = hits[nth - 1]
            off = sum(len(x) + 1 for x in lines[:li])
            if k == 'after':
                off += len(lines[li]) + 1
                off = min(off, len(text))
            inserts.append((off, d['lines'], ''))
    # build output
    out = []
    # D12: bind the tail expression of the body to a name so that proof text can follow it
    for d in directives:
        if d['kind'] == 'bind_tail':
            j = body_open + 1
            last_semi = body_open
            while j < body_close:
                c = msk[j]
                if c in lex.OPEN:
                    j = lex.match_bracket(msk, j) + 1
                    continue
                if c == ';':
                    last_semi = j
                j += 1
            tail_start = last_semi + 1
            while tail_start < body_close and text[tail_start] in ' \t\n':
                tail_start += 1
            tail_end = body_close
            while tail_end > tail_start and text[tail_end - 1] in ' \t\n':
                tail_end -= 1
            # block statements (`for`/`while`/`loop`/`if`/`match` without a trailing `;`) before the tail are not part of it
            while True:
                while tail_start < tail_end and msk[tail_start] in ' \t\n':
                    tail_start += 1     # masked comments count as blanks
                mk = re.compile(r'(for|while|loop|if|match)\b').match(msk, tail_start)
                if not mk:
                    break
                jb = lex.find_at_depth0(msk, mk.end(), tail_end, '{;')
                if jb < 0 or msk[jb] != '{':
                    break
                je = lex.match_bracket(msk, jb) + 1
                while True:
                    me = re.compile(r'\s*else\b').match(msk, je)
                    if not me:
                        break
                    jb2 = lex.find_at_depth0(msk, me.end(), tail_end, '{;')
                    if jb2 < 0 or msk[jb2] != '{':
                        break
                    je = lex.match_bracket(msk, jb2) + 1
                k2 = je
                while k2 < tail_end and text[k2] in ' \t\n':
                    k2 += 1
                # skip line comments between statements
                while k2 < tail_end and msk[k2:k2 + 2] == '  ' and text[k2:k2 + 2] == '//':
                    k2 = text.index('\n', k2) + 1
                    while k2 < tail_end and text[k2] in ' \t\n':
                        k2 += 1
                if k2 >= tail_end:
                    break      # the block itself is the tail expression
                tail_start = k2
            if tail_start >= tail_end:
                raise ExtractError('bind_tail: function has no tail expression')
            inserts.append((tail_start, [], 'let %s = ' % d['name']))
            inserts.append((tail_end, [Line(';', ('spec', tmpl_file, 0))] + d['lines'] + [Line(d['name'], ('spec', tmpl_file, 0))], ''))
            log.append(('D12', 'tail expression bound to `%s`' % d['name'], text.count('\n', 0, tail_start)))
    inserts.sort(key=lambda x: x[0])
    pos = 0
    cur_line = first_line
    buf = ''

    def flush_text(seg):
        nonlocal cur_line, buf
        parts = seg.split('\n')
        for idx, p in enumerate(parts):
            if idx < len(parts) - 1:
                out.append(Line(buf + p, ('repo', relpath, cur_line)))
                buf = ''
                cur_line += 1
            else:
                buf += p

    for off, ilines, extra in inserts:
        flush_text(text[pos:off])
        pos = off
        if extra:
            buf += extra
        if ilines:
            if buf.strip():
                out.append(Line(buf, ('repo', relpath, cur_line)))
                buf = ' ' * len(buf)
            else:
                buf = ''
            for il in ilines:
                out.append(il)
    flush_text(text[pos:])
    if buf.strip() or True:
        out.append(Line(buf, ('repo', relpath, cur_line)))
    if stub:
        # replace body by unimplemented!(): find body in assembled lines is messy; do it textually instead
        raise RuntimeError('stub handled by caller')
    return out


def assemble(unit_name, repo=None, extra_takes=(), auto_uncontinue=False):
    global AUTO_UNCONTINUE
    AUTO_UNCONTINUE = bool(auto_uncontinue)
    repo = repo or REPO
    tmpl_rel = 'units/%s.rs' % unit_name
    tmpl = os.path.join(VERIF, tmpl_rel)
    u = Unit(unit_name)
    u.template = tmpl_rel
    raw = []   # (text, origin) after textual include expansion

    def expand(rel, kind, depth=0, params={}):
        pth = os.path.join(VERIF, rel)
        for k, l in enumerate(open(pth, encoding='utf-8').read().split('\n')):
            for pk, pv in params.items():
                l = l.replace('$' + pk, pv)
            mi = re.match(r'\s*//@include\s+(\S+)(.*)$', l)
            if mi:
                if depth > 5:
                    raise ExtractError('include depth')
                sub = {}
                for a in re.finditer(r'([A-Z_]+)=("([^"]*)"|\S+)', mi.group(2)):
                    sub[a.group(1)] = a.group(3) if a.group(3) is not None else a.group(2)
                expand(mi.group(1), 'prelude', depth + 1, sub)
            else:
                raw.append((l, (kind, rel, k + 1)))

    expand(tmpl_rel, 'spec')
    if extra_takes:
        # constants the extracted code refers to but the template does not list (a change introduced them): taken verbatim
        idx = max(i for i, r in enumerate(raw) if r[0].strip().startswith('} // verus!'))
        for rel, name in extra_takes:
            raw.insert(idx, ('//@take %s const:%s' % (rel, name), ('spec', tmpl_rel, 0)))
    src_lines = [r[0] for r in raw]
    origins = [r[1] for r in raw]
    i = 0
    n = len(src_lines)

    while i < n:
        l = src_lines[i]
        m = re.match(r'\s*//@(\w+)\s*(.*)$', l)
        if not m:
            u.lines.append(Line(l, origins[i], _tags(l)))
            i += 1
            continue
        cmd, rest = m.group(1), m.group(2).strip()
        if cmd == 'props':
            u.props = [p.strip() for p in rest.split(',') if p.strip()]
            i += 1
        elif cmd == 'frame':
            # frame condition: the listed private fields of a type are only written (field assignment or
            # struct literal) inside the allowed items of the file that owns the type
            pos, kv = _kv(_split_args(rest))
            relpath = pos[0]
            from .extract import find_item, iter_items, is_cfg_test
            path = os.path.join(repo, relpath)
            try:
                fsrc = open(path, encoding='utf-8').read()
            except OSError as e:
                raise ExtractError('frame: cannot read %s' % relpath)
            fm = lex.mask(fsrc)
            allowed = []
            for sel in kv.get('allow', '').split(';'):
                if sel:
                    itx = find_item(fsrc, fm, sel)
                    allowed.append((itx.attr_start, itx.end))
            # the type definition itself and test modules are exempt
            for itx in iter_items(fsrc, fm, 0, len(fsrc)):
                if (itx.kind == 'struct' and itx.name == kv['type']) or is_cfg_test(itx):
                    allowed.append((itx.attr_start, itx.end))
            hits = []
            pats = [(r'\.\s*%s\s*(?:=(?!=)|\+=|-=)' % re.escape(f), 'assignment to field `%s`' % f) for f in kv.get('fields', '').split(',') if f]
            pats.append((r'(?<![A-Za-z0-9_:])%s\s*\{(?=\s*(?:[A-Za-z_][A-Za-z0-9_]*\s*[:,}]|\.\.))' % re.escape(kv['type']), 'struct literal / pattern `%s { .. }`' % kv['type']))
            for rx, what in pats:
                for mm in re.finditer(rx, fm):
                    if any(a <= mm.start() < b for a, b in allowed):
                        continue
                    # `impl Type {`, `for Type {` are not literals
                    before = fm[max(0, mm.start() - 12):mm.start()]
                    if re.search(r'(impl|for)\s+$', before) or re.search(r'(impl|for)(<[^>]*>)?\s+$', before):
                        continue
                    hits.append({'what': what, 'file': relpath, 'line': lex.line_of(fsrc, mm.start()),
                                 'text': fsrc[fsrc.rfind('\n', 0, mm.start()) + 1: fsrc.find('\n', mm.start())].strip()[:120]})
            u.frames.append({'file': relpath, 'type': kv['type'], 'props': [p for p in kv.get('props', '').split(',') if p],
                             'allow': kv.get('allow', ''), 'hits': hits, 'line': i + 1})
            i += 1
        elif cmd == 'take':
            pos, kv = _kv(_split_args(rest))
            relpath, selector = pos[0], pos[1]
            log = []
            text, first = extract(repo, relpath, selector, log,
                                  drop_derives=tuple(kv.get('drop_derives', '').split(',')) if kv.get('drop_derives') else ())
            for r in log:
                u.rewrites.append({'rule': r[0], 'what': r[1], 'file': relpath, 'line': first + r[2]})
            # optional one-line substitutions: //@take ... subst=/a/=>/b/ not supported; use extract for that
            for k, tl in enumerate(text.split('\n')):
                u.lines.append(Line(tl, ('repo', relpath, first + k)))
            i += 1
        elif cmd == 'extract':
            pos, kv = _kv(_split_args(rest))
            relpath, selector = pos[0], pos[1]
            stub = 'stub' in pos[2:]
            props = [p for p in kv.get('props', '').split(',') if p] or None
            directives = []
            i += 1
            cur = None
            while i < n:
                l2 = src_lines[i]
                m2 = re.match(r'\s*//@(\w+)\s*(.*)$', l2)
                if m2:
                    c2, r2 = m2.group(1), m2.group(2).strip()
                    if c2 == 'end':
                        i += 1
                        break
                    if c2 == 'contract':
                        p2, kv2 = _kv(r2.split())
                        cur = {'kind': 'contract', 'lines': [], 'ret': kv2.get('ret')}
                    elif c2 == 'loop':
                        p2, kv2 = _kv(r2.split())
                        cur = {'kind': 'loop', 'k': int(p2[0]), 'iter': kv2.get('iter'),
                               'total': int(kv2['of']) if 'of' in kv2 else None, 'lines': []}
                    elif c2 == 'after_loop':
                        p2, kv2 = _kv(r2.split())
                        cur = {'kind': 'after_loop', 'k': int(p2[0]), 'lines': []}
                    elif c2 in ('before', 'after'):
                        rx, tail = _parse_regex_directive(r2, c2)
                        p2, kv2 = _kv(tail.split())
                        cur = {'kind': c2, 'regex': rx, 'nth': int(kv2.get('nth', 1)), 'lines': [], 'optional': 'optional' in p2}
                    elif c2 == 'hoist':
                        cur = {'kind': 'hoist', 'name': r2.split()[0], 'lines': []}
                    elif c2 == 'mutself':
                        cur = {'kind': 'mutself', 'lines': []}
                    elif c2 == 'uncontinue':
                        cur = {'kind': 'uncontinue', 'lines': []}
                    elif c2 == 'desugar_for':
                        p2, kv2 = _kv(r2.split())
                        cur = {'kind': 'desugar_for', 'k': int(p2[0]), 'it': kv2.get('it', '_it%s' % p2[0]), 'call': kv2.get('call'), 'lines': []}
                    elif c2 == 'mapindex':
                        cur = {'kind': 'mapindex', 'vars': r2.split(), 'lines': []}
                    elif c2 == 'bind_tail':
                        cur = {'kind': 'bind_tail', 'name': r2.split()[0] if r2.split() else '_ret', 'lines': []}
                    elif c2 == 'fmt':
                        p2, kv2 = _kv(r2.split())
                        cur = {'kind': 'fmt', 'nth': int(p2[0]) if p2 else 1, 'lines': []}
                    elif c2 == 'subst':
                        opt = False
                        if r2.rstrip().endswith(' optional'):
                            opt = True
                            r2 = r2.rstrip()[:-len(' optional')]
                        mm = re.match(r'([A-Z]\d\w*)\s+/((?:[^/\\]|\\.)*)/\s*=>\s*(.*?)(?:\s+count=(\d+|\*))?$', r2)
                        if not mm:
                            raise ExtractError('malformed subst: ' + r2)
                        cur = {'kind': 'subst', 'rule': mm.group(1), 'regex': mm.group(2).replace('\\/', '/'),
                               'rep': mm.group(3), 'count': (-1 if mm.group(4) == '*' else int(mm.group(4) or 1)), 'lines': [], 'optional': opt}
                    else:
                        raise ExtractError('unknown directive //@%s in extract block' % c2)
                    directives.append(cur)
                else:
                    if cur is None:
                        if l2.strip():
                            raise ExtractError('text before first directive in extract block (line %d)' % (i + 1))
                    else:
                        cur['lines'].append(Line(l2, origins[i], _tags(l2)))
                i += 1
            log = []
            text, first = extract(repo, relpath, selector, log)
            fname = kv.get('as') or selector.replace('impl:', '').replace('fn:', '').replace('/', '::')
            f = Func(fname, relpath, selector, props, stub)
            # properties (besides C14) whose statement itself promises a verdict instead of a panic for this function
            f.panic_props = [p for p in kv.get('panics', '').split(',') if p]
            f.sha256 = hashlib.sha256(text.encode()).hexdigest()
            f.repo_first = first
            f.repo_last = first + text.count('\n')
            if stub:
                msk = lex.mask(text)
                mfn = re.search(r'\bfn\b', msk)
                bo = lex.find_at_depth0(msk, mfn.end(), len(msk), '{;')
                if bo < 0 or msk[bo] != '{':
                    raise ExtractError('stub: fn without body')
                bc = lex.match_bracket(msk, bo)
                nl = text.count('\n', bo, bc + 1)
                text = text[:bo] + '{ unimplemented!() }' + '\n' * nl + text[bc + 1:]
                u.lines.append(Line('#[verifier::external_body]', ('spec', tmpl_rel, i)))
                log.append(('STUB', 'body replaced by unimplemented!() (external_body)', 0))
            # D6: item statements local to the fn body are hoisted to module level (text unchanged)
            for d in directives:
                if d['kind'] == 'hoist':
                    mskh = lex.mask(text)
                    mh = re.search(r'(?:#\s*\[[^\]]*\]\s*)*\bstruct\s+' + re.escape(d['name']) + r'\b', mskh)
                    if not mh:
                        raise ExtractError('hoist: local struct %s not found' % d['name'])
                    bo = mskh.index('{', mh.end())
                    bc = lex.match_bracket(mskh, bo)
                    item = text[mh.start():bc + 1]
                    ln0 = first + text.count('\n', 0, mh.start())
                    for k, tl in enumerate(item.split('\n')):
                        u.lines.append(Line(tl, ('repo', relpath, ln0 + k)))
                    text = text[:mh.start()] + ''.join(c if c == '\n' else ' ' for c in item) + text[bc + 1:]
                    log.append(('D6', 'local item `struct %s` hoisted to module level' % d['name'], ln0 - first))
            out = _apply_block(text, first, relpath, directives, tmpl_rel, log, False)
            f.start = len(u.lines) + 1
            u.lines.extend(out)
            f.end = len(u.lines)
            for r in log:
                e = {'rule': r[0], 'what': r[1], 'file': relpath, 'line': first + r[2]}
                u.rewrites.append(e)
                f.edits.append(e)
            u.funcs.append(f)
        else:
            raise ExtractError('unknown directive //@%s (line %d)' % (cmd, i + 1))
    _scan_spec_funcs(u)
    _cheating_scan(u)
    return u


def _split_args(rest):
    # selector may contain spaces (impl:FromStr for KeyId/fn:from_str): allow quoting with "..."
    out = []
    for m in re.finditer(r'"([^"]*)"|(\S+)', rest):
        out.append(m.group(1) if m.group(1) is not None else m.group(2))
    return out


def _scan_spec_funcs(u):
    """Register proof/spec/exec functions written in the template or prelude (lemmas, canaries)."""
    text = u.text()
    msk = lex.mask(text)
    known = [(f.start, f.end) for f in u.funcs]
    for m in re.finditer(r'\b(?:proof|exec)?\s*fn\s+([A-Za-z_][A-Za-z0-9_]*)', msk):
        ln = text.count('\n', 0, m.start()) + 1
        if any(a <= ln <= b for a, b in known):
            continue
        # the body is the last top-level `{..}` group of the item: groups inside requires/ensures
        # (`match x { .. },`, `if c { a } else { b }`) are followed by `,`, an operator, `else` or a clause keyword
        pos = m.end()
        k = -1
        bad = False
        while True:
            j = lex.find_at_depth0(msk, pos, len(msk), '{;')
            if j < 0 or msk[j] != '{':
                bad = True
                break
            try:
                k = lex.match_bracket(msk, j)
            except lex.LexError:
                bad = True
                break
            mm = re.match(r'\s*(,|&&|\|\||==>|<==>|==|!=|=~=|\+|-|\*|/|\.|else\b|ensures\b|requires\b|decreases\b|recommends\b|via\b|when\b)', msk[k + 1:k + 200])
            if mm:
                pos = k + 1
                continue
            break
        if bad or k < 0:
            continue
        f = Func(m.group(1), u.lines[ln - 1].origin[1], 'fn:' + m.group(1), None, False)
        f.start = ln
        f.end = text.count('\n', 0, k) + 1
        f.is_spec_side = True
        f.lemma_tags = u.lines[ln - 1].tags
        f.props = u.lines[ln - 1].tags
        u.funcs.append(f)


_CHEATS = [
    ('assume', re.compile(r'\bassume\s*\(')),
    ('admit', re.compile(r'\badmit\s*\(')),
    ('external_body', re.compile(r'verifier::external_body')),
    ('assume_specification', re.compile(r'\bassume_specification\b')),
    ('external_type_specification', re.compile(r'external_type_specification')),
    ('external', re.compile(r'verifier::external\b(?!_)')),
    ('uninterp', re.compile(r'\buninterp\s+spec\s+fn\b')),
    ('axiom', re.compile(r'\bbroadcast\s+(?:axiom|proof)\s+fn\b|\baxiom\s+fn\b')),
]


def _cheating_scan(u):
    text = u.text()
    msk = lex.mask(text)
    lines = msk.split('\n')
    orig = text.split('\n')
    for idx, l in enumerate(lines):
        for kind, rx in _CHEATS:
            if rx.search(l):
                # describe by the next meaningful text (fn name / path)
                ctx = ' '.join(x.strip() for x in orig[idx:idx + 3])[:160]
                u.trusted.append({'kind': kind, 'line': idx + 1, 'origin': list(u.lines[idx].origin), 'text': ctx})
