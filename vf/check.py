"""Per-property decision procedure:  python3 -m vf.check <PROP> [--tier quick|thorough]

exit 0  every obligation serving the property is discharged by Verus on the code extracted from
        /repo's current working tree (known findings aside)
exit 1  + line `VIOLATION property=<id> replay=<path>`: a named obligation fails (and survives retry)
exit 2  UNDECIDED: the proof layer could not be applied (lost anchor, unsupported construct, solver
        resource limit) and the witness run on the real code found no failing input
"""
import glob
import hashlib
import json
import os
import re
import sys
import time
import shutil
import subprocess
import concurrent.futures as cf

from . import assemble as asm
from . import verus
from .extract import ExtractError

VERIF = asm.VERIF
REPO = asm.REPO
WORK = os.path.join(VERIF, '.work')
OUT = os.path.join(VERIF, 'out')


def units_for(prop):
    res = []
    for p in sorted(glob.glob(os.path.join(VERIF, 'units', '*.rs'))):
        txt = open(p, encoding='utf-8').read()
        hit = False
        for l in txt.split('\n'):
            if re.search(r'\b%s\b' % prop, l) and (re.match(r'\s*//@(props|extract)', l) or re.search(r'//\s*\[[C0-9, ]+\]', l)):
                hit = True
                break
        if hit:
            res.append(os.path.basename(p)[:-3])
    return res


def load_known_findings():
    p = os.path.join(VERIF, 'known_findings.txt')
    out = []
    if os.path.exists(p):
        for l in open(p, encoding='utf-8'):
            l = l.strip()
            if l.startswith('{'):
                out.append(json.loads(l))
    return out


def _norm_src(s):
    return re.sub(r'\s+', ' ', s.strip())[:60]


def attribute(u, r):
    """Fill in func / props / name of each failure of a unit run."""
    for f in r.failures:
        fn = u.func_at(f.primary_line)
        f.func = fn
        tags = None
        anchor = None
        # a labelled span inside our file that carries tags (failed clause)
        for (ln, label) in f.label_lines:
            if 1 <= ln <= len(u.lines):
                L = u.lines[ln - 1]
                if L.tags:
                    tags = L.tags
                if L.origin[0] in ('spec', 'prelude'):
                    anchor = '%s:%d' % (os.path.basename(L.origin[1]), L.origin[2])
        if tags is None and 1 <= f.primary_line <= len(u.lines) and u.lines[f.primary_line - 1].tags:
            tags = u.lines[f.primary_line - 1].tags
        fprops = (fn.props if fn is not None and fn.props else None) or u.props
        std_pre = f.kind == 'requires' and anchor is None   # precondition of a std/vstd function
        panicky = f.kind == 'panic' or std_pre
        if tags:
            f.props = list(tags)
        elif panicky and 'C14' in fprops:
            f.props = ['C14'] + [p for p in (getattr(fn, 'panic_props', None) or []) if p != 'C14']
        else:
            # non-panic obligations (postconditions, invariants, asserts) speak about the function's
            # functional properties; C14 is only implicated by panic-type obligations or explicit tags
            rest = [p for p in fprops if p != 'C14']
            f.props = rest if rest else list(fprops)
        o = u.origin(f.primary_line)
        if anchor is None and o is not None:
            if o[0] == 'repo':
                anchor = _norm_src(u.lines[f.primary_line - 1].text)
            else:
                anchor = '%s:%d' % (os.path.basename(o[1]), o[2])
        kind = 'panic' if panicky else f.kind
        f.kind2 = kind
        f.name = '%s::%s::%s@%s' % (u.name, fn.name if fn else '?', kind, anchor)
        f.where = list(o) if o else None


def census_for(u, r, prop):
    """Obligations (AIR assert count) of the functions of unit `u` that serve `prop`."""
    total = 0
    per = []
    crate = u.name
    for fname, kinds in r.census.items():
        if not fname.startswith(crate + '::') and not fname.startswith('crate::'):
            continue
        short = fname.split('::', 1)[1]
        # map to a Func by last path component(s)
        fn = None
        for f in u.funcs:
            if short == f.name or short.endswith('::' + f.name.split('::')[-1]) or short == f.name.split('::')[-1]:
                fn = f
                if short == f.name:
                    break
        props = (fn.props if fn is not None and fn.props else None) or u.props
        ftags = getattr(fn, 'lemma_tags', None) if fn else None
        if ftags:
            props = ftags
        if prop not in props:
            continue
        cnt = sum(v for k, v in kinds.items() if k != 'recommends')
        if cnt == 0:
            continue
        total += cnt
        per.append((short, kinds))
    return total, per


def run_unit(unit, tier, canary=False):
    t0 = time.time()
    info = {'unit': unit, 'status': 'ok', 'reason': '', 'u': None, 'r': None}
    try:
        u = asm.assemble(unit)
    except (ExtractError, OSError) as e:
        info['status'] = 'undecided'
        info['reason'] = 'extraction: %s' % e
        return info
    info['u'] = u
    wd = os.path.join(WORK, 'v', '%s.%d' % (unit, os.getpid()))
    try:
        r = verus.run(u.text(), wd, unit)
        # D45: Verus refuses `continue` in a for body; retry with the flag rewrite (stated in DESIGN section 4) before giving up
        uncont = False
        if r.hard_errors and all('for-loops do not yet support continue' in h[0] for h in r.hard_errors):
            try:
                u2 = asm.assemble(unit, auto_uncontinue=True)
                u, uncont = u2, True
                info['u'] = u
                info['auto_uncontinue'] = True
                r = verus.run(u.text(), wd, unit)
            except (ExtractError, OSError):
                pass
        # a constant that the extracted code now refers to (and the template does not list) is taken from the same source files
        for _ in range(3):
            missing = [re.search(r'cannot find value `(\w+)`', h[0]) for h in r.hard_errors]
            names = sorted({m.group(1) for m in missing if m})
            if not names or len(names) != len({h[0] for h in r.hard_errors}):
                break
            takes = []
            rels = sorted({f.relpath for f in u.funcs if f.relpath and f.relpath.startswith('src/')})
            for nm in names:
                for rel in rels:
                    try:
                        txt = open(os.path.join(asm.REPO, rel), encoding='utf-8').read()
                    except OSError:
                        continue
                    if re.search(r'^\s*(pub(\([^)]*\))?\s+)?(const|static)\s+%s\s*:' % re.escape(nm), txt, flags=re.M):
                        takes.append((rel, nm))
                        break
            if len(takes) != len(names):
                break
            try:
                u2 = asm.assemble(unit, extra_takes=tuple(takes) + tuple(info.get('auto_consts', ())), auto_uncontinue=uncont)
            except (ExtractError, OSError):
                break
            info['auto_consts'] = tuple(takes) + tuple(info.get('auto_consts', ()))
            u = u2
            info['u'] = u
            r = verus.run(u.text(), wd, unit)
        info['r'] = r
        if r.hard_errors:
            info['status'] = 'undecided'
            info['reason'] = 'verus front end: ' + '; '.join('%s (asm line %s -> %s)' % (h[0], h[1], u.origin(h[1])) for h in r.hard_errors[:3])
            return info
        attribute(u, r)
        # frame conditions (syntactic): each hit is a failed obligation `frame@<type>`
        for fr in u.frames:
            for h in fr['hits']:
                f = verus.Failure()
                f.kind = 'frame'
                f.kind2 = 'frame'
                f.message = 'frame condition violated: %s outside the allowed constructor(s) [%s]' % (h['what'], fr['allow'])
                f.rendered = '%s:%d: %s' % (h['file'], h['line'], h['text'])
                f.props = fr['props'] or u.props
                f.name = '%s::frame@%s::%s' % (u.name, fr['type'], h['what'])
                f.where = ['repo', h['file'], h['line']]
                f.func = None
                f.frame = True
                r.frame_failures = getattr(r, 'frame_failures', []) + [f]
        # retry policy: a failure must be reproduced with a larger rlimit and under two other seeds
        if r.failures:
            confirmed = {f.name for f in r.failures if f.kind != 'rlimit'}
            rl = [f for f in r.failures if f.kind == 'rlimit']
            for seed, rlim in ((7, 30), (13, 30)):
                if not confirmed:
                    break
                r2 = verus.run(u.text(), wd, unit, rlimit=rlim, seed=seed, census=False)
                if r2.hard_errors:
                    continue
                attribute(u, r2)
                names2 = {f.name for f in r2.failures if f.kind != 'rlimit'}
                confirmed &= names2
            info['unstable'] = [f.name for f in r.failures if f.name not in confirmed]
            r.failures = [f for f in r.failures if f.name in confirmed]
            if rl and not r.failures:
                # only resource-outs: retry once with a big limit
                r3 = verus.run(u.text(), wd, unit, rlimit=60, census=False)
                attribute(u, r3)
                if any(f.kind == 'rlimit' for f in r3.failures) or r3.hard_errors:
                    info['status'] = 'undecided'
                    info['reason'] = 'solver resource limit'
                else:
                    r.failures = [f for f in r3.failures]
            if info.get('unstable') and not r.failures and info['status'] == 'ok':
                info['status'] = 'undecided'
                info['reason'] = 'failure not reproducible across seeds: ' + ', '.join(info['unstable'])
        r.failures = list(r.failures) + getattr(r, 'frame_failures', [])
    finally:
        shutil.rmtree(wd, ignore_errors=True)
    info['wall_s'] = time.time() - t0
    return info


def canary_unit(unit):
    """Vacuity guard: with `assert(false)` as first statement, every function under contract must FAIL."""
    try:
        u = asm.assemble(unit)
    except (ExtractError, OSError):
        return None
    lines = u.text().split('\n')
    targets = []
    lemma_targets = []
    for f in u.funcs:
        if getattr(f, 'is_spec_side', False):
            # proof lemmas: `assert(false)` at the END of the body must fail, otherwise the lemma's
            # hypotheses (requires + the trusted facts it invokes) are contradictory and it proves nothing
            if re.match(r'lemma_\w+$', f.name.split('::')[-1]):
                seg = '\n'.join(lines[f.start - 1:f.end])
                if re.search(r'\bproof\s+fn\b', seg.split('{', 1)[0]):
                    lemma_targets.append(f)
            continue
        if f.stub:
            continue
        # body '{' = first line at/after f.start whose text, scanning with masks, opens the fn body
        txt = '\n'.join(lines[f.start - 1:f.end])
        from . import lex
        msk = lex.mask(txt)
        m = re.search(r'\bfn\b', msk)
        if not m:
            continue
        # the body brace is the last depth-0 '{' candidate: skip requires/ensures expressions by
        # searching for the brace that matches the final '}' of the item
        close = msk.rstrip().rfind('}')
        # walk back to find its partner
        depth = 0
        j = close
        while j >= 0:
            if msk[j] == '}':
                depth += 1
            elif msk[j] == '{':
                depth -= 1
                if depth == 0:
                    break
            j -= 1
        if j < 0:
            continue
        ln = f.start - 1 + txt.count('\n', 0, j)
        col = j - (txt.rfind('\n', 0, j) + 1)
        targets.append((f, ln, col))
    for f in lemma_targets:
        # last '}' of the item closes the body
        ln = f.end - 1
        col = lines[ln].rfind('}')
        if col < 0:
            continue
        targets.append((f, ln, col - 1))
    for f, ln, col in sorted(targets, key=lambda t: -t[1]):
        L = lines[ln]
        ins = ' assert(false); ' if f in lemma_targets else ' proof { assert(false); } '
        lines[ln] = L[:col + 1] + ins + L[col + 1:]
    wd = os.path.join(WORK, 'v', '%s.canary.%d' % (unit, os.getpid()))
    try:
        r = verus.run('\n'.join(lines), wd, unit, census=False)
    finally:
        shutil.rmtree(wd, ignore_errors=True)
    if r.hard_errors:
        return {'unit': unit, 'error': r.hard_errors[0][0]}
    failed_lines = {f.primary_line for f in r.failures if f.kind == 'assert'}
    vac = [f.name for f, ln, col in targets if (ln + 1) not in failed_lines]
    return {'unit': unit, 'functions': len(targets), 'vacuous': vac}


def witness(prop, tier):
    """Run the replay crate's witness generator for `prop` against the real code (hooks on)."""
    from . import replay
    return replay.run_witness(prop, tier)


def main(argv):
    if len(argv) < 2:
        print('usage: check <PROP> [--tier quick|thorough]')
        return 2
    prop = argv[1]
    tier = os.environ.get('VERIF_TIER', 'quick')
    if '--tier' in argv:
        tier = argv[argv.index('--tier') + 1]
    seed = int(os.environ.get('VERIF_SEED', '0') or 0)
    t0 = time.time()
    os.makedirs(WORK, exist_ok=True)
    os.makedirs(os.path.join(OUT, 'replay'), exist_ok=True)
    units = units_for(prop)
    if not units:
        print('no unit serves', prop)
        return 2
    infos = []
    with cf.ThreadPoolExecutor(max_workers=min(4, len(units))) as ex:
        infos = list(ex.map(lambda un: run_unit(un, tier), units))
    canaries = []
    if tier == 'thorough' or os.environ.get('VERIF_CANARY', '1') == '1':
        with cf.ThreadPoolExecutor(max_workers=min(4, len(units))) as ex:
            canaries = [c for c in ex.map(canary_unit, units) if c]

    # thorough tier only: (a) every unit is re-verified under two other solver seeds (proof stability),
    # (b) contract-strength self test: mutants of the extracted repository code must fail some obligation (vf/selfmut.py)
    stability = []
    selftest = None
    if tier == 'thorough':
        for inf in infos:
            if inf['status'] != 'ok' or inf['r'] is None or inf['r'].failures:
                continue
            for sd in (7, 13):
                wd = os.path.join(WORK, 'v', '%s.seed%d.%d' % (inf['unit'], sd, os.getpid()))
                try:
                    r2 = verus.run(inf['u'].text(), wd, inf['unit'], seed=sd, census=False)
                finally:
                    shutil.rmtree(wd, ignore_errors=True)
                stability.append({'unit': inf['unit'], 'seed': sd, 'verified': r2.verified, 'ok': bool(r2.ok), 'smt_ms': r2.smt_ms})
        try:
            from . import selfmut
            tot = {'mutants': 0, 'killed': 0, 'survived': 0, 'stillborn': 0, 'survivors': [], 'units': []}
            for inf in infos:
                if inf['status'] != 'ok':
                    continue
                sm = selfmut.selfmut_unit(inf['unit'])
                rs = [x for x in sm['results'] if prop in (x['props'] or [])]
                tot['units'].append(inf['unit'])
                tot['mutants'] += len(rs)
                for k in ('killed', 'survived', 'stillborn'):
                    tot[k] += sum(x['outcome'] == k for x in rs)
                tot['survivors'] += [{k: x[k] for k in ('function', 'file', 'line', 'mutation', 'source')} for x in rs if x['outcome'] == 'survived']
            tot['note'] = ('mutants are single syntactic changes of repository lines inside functions under contract; a survivor is either an '
                           'equivalent mutant or behaviour the contracts do not pin down; informational, never a violation')
            selftest = tot
        except Exception as e:   # noqa
            selftest = {'error': str(e)}

    kf = [k for k in load_known_findings() if k.get('property') == prop and k.get('status', 'open') == 'open']
    failures = []
    undecided = []
    obligations = 0
    per_function = []
    functions_under_contract = []
    trusted = []
    rewrites = []
    samples = []
    smt_ms = 0
    cmds = []
    for info in infos:
        u, r = info['u'], info['r']
        if info['status'] == 'undecided':
            undecided.append({'unit': info['unit'], 'reason': info['reason']})
        if u is None or r is None:
            continue
        cmds.append(r.cmd)
        smt_ms += r.smt_ms
        tot, per = census_for(u, r, prop)
        if info['status'] != 'undecided':
            obligations += tot
        for short, kinds in per:
            key = [k for k in r.per_function if k.endswith('::' + short)]
            pf = r.per_function.get(key[0]) if key else None
            per_function.append({'unit': u.name, 'function': short, 'obligations': kinds,
                                 'backend': 'verus+z3', 'smt_ms': pf['time_ms'] if pf else 0,
                                 'rlimit': pf['rlimit'] if pf else 0,
                                 'verified': (pf['success'] if pf else True)})
        for f in u.funcs:
            props = f.props or u.props
            if prop in props and not getattr(f, 'is_spec_side', False):
                functions_under_contract.append({
                    'unit': u.name, 'function': f.name, 'file': f.relpath,
                    'lines': [f.repo_first, f.repo_last], 'sha256': f.sha256,
                    'stub_assumed': f.stub, 'extraction_edits': f.edits})
        for t in u.trusted:
            trusted.append('%s: %s [%s:%s]' % (t['kind'], t['text'][:110], t['origin'][1], t['origin'][2]))
        for f in r.failures:
            if prop in f.props:
                failures.append((u, f))
            elif info['status'] != 'undecided' and getattr(f, 'kind2', f.kind) != 'ensures':
                # a failed assertion, invariant or call precondition is ASSUMED by everything after it in the same function:
                # this property's obligations of that function were discharged under an unproved assumption, so they are
                # not counted as proved (the failure itself is reported under the properties it is attributed to)
                fprops = (f.func.props if f.func is not None and f.func.props else None) or u.props
                if prop in fprops:
                    info['status'] = 'undecided'
                    info['reason'] = 'a proof step of %s failed (%s, reported under %s); the obligations after it rest on it' % (
                        f.func.name if f.func else '?', f.name, ','.join(f.props))
                    undecided.append({'unit': info['unit'], 'reason': info['reason']})
                    obligations -= tot
    # vacuity
    vacuous = []
    for c in canaries:
        if c.get('vacuous'):
            vacuous += ['%s::%s' % (c['unit'], v) for v in c['vacuous']]
    # known findings from the replay layer (defects recorded, not repaired)
    known_lines = []
    viol = []
    for u, f in failures:
        matched = None
        for k in kf:
            if k.get('obligation') and k['obligation'] == f.name:
                matched = k
        if matched:
            known_lines.append('KNOWN-FINDING: property=%s %s' % (prop, matched.get('what', f.name)))
        else:
            viol.append((u, f))
    wit = None
    # the witnesses of open known findings are watched: one that PASSES means the behaviour changed (reported as a NOTE)
    os.environ['VERIF_WATCH_IDS'] = json.dumps([k['witness'] for k in kf if k.get('witness')])
    need_witness = bool(viol) or bool(undecided) or tier == 'thorough' or any(k.get('witness') for k in kf)
    if need_witness or os.environ.get('VERIF_WITNESS', '1') == '1':
        try:
            wit = witness(prop, tier)
        except Exception as e:  # the witness layer is auxiliary; its failure is reported, not hidden
            wit = {'error': str(e), 'cases': 0, 'failing': [], 'known': []}
    wit_fail = []
    if wit:
        for w in wit.get('failing', []):
            k = [k for k in kf if k.get('witness') and k['witness'] == w.get('id')]
            if k:
                known_lines.append('KNOWN-FINDING: property=%s %s' % (prop, k[0].get('what', w.get('id'))))
            else:
                wit_fail.append(w)
    rc = 0
    out_lines = []
    replay_paths = []
    if viol:
        for u, f in viol:
            h = hashlib.sha256(f.name.encode()).hexdigest()[:10]
            path = os.path.join(OUT, 'replay', '%s-%s.json' % (prop, h))
            rep = {'property': prop, 'obligation': f.name, 'kind': f.kind, 'message': f.message,
                   'unit': u.name, 'function': f.func.name if f.func else None,
                   'repo_location': f.where, 'verifier_output': f.rendered,
                   'failing_input': None, 'replay_cmd': None}
            tail = ' no-failing-input-found'
            if wit_fail:
                rep['failing_input'] = wit_fail[0]
                rep['replay_cmd'] = wit.get('replay_cmd')
                tail = ''
            with open(path, 'w') as fh:
                json.dump(rep, fh, indent=1)
            out_lines.append('VIOLATION property=%s replay=%s%s' % (prop, path, tail))
            out_lines.append('  obligation %s failed: %s' % (f.name, f.message))
        rc = 1
    elif wit_fail:
        # the proof layer is silent (or lost) but the real code fails a concrete witness
        for w in wit_fail[:3]:
            h = hashlib.sha256(json.dumps(w, sort_keys=True).encode()).hexdigest()[:10]
            path = os.path.join(OUT, 'replay', '%s-w%s.json' % (prop, h))
            with open(path, 'w') as fh:
                json.dump({'property': prop, 'obligation': 'witness::' + str(w.get('id')),
                           'failing_input': w, 'replay_cmd': wit.get('replay_cmd'),
                           'verifier_output': 'n/a (concrete witness executed on the real code)'}, fh, indent=1)
            out_lines.append('VIOLATION property=%s replay=%s' % (prop, path))
        rc = 1
    elif undecided:
        rc = 2
        for ud in undecided:
            out_lines.append('UNDECIDED property=%s unit=%s reason=%s' % (prop, ud['unit'], ud['reason']))
    elif vacuous:
        rc = 2
        out_lines.append('UNDECIDED property=%s vacuous contracts: %s' % (prop, ', '.join(vacuous)))
    for wid in (wit or {}).get('watch_passed', []):
        print('NOTE property=%s the listed known finding no longer fails (behaviour changed, review known_findings.txt): %s' % (prop, wid))
    if wit and wit.get('error'):
        print('WARNING property=%s witness layer did not run: %s' % (prop, str(wit.get('error'))[:300]))
        if wit.get('stderr'):
            print('  ' + wit['stderr'][:1500].replace('\n', '\n  '))
    for l in known_lines:
        print(l)
    for l in out_lines:
        print(l)

    failed_n = len({f.name for _, f in failures})
    discharged = max(0, obligations - failed_n) if not undecided else max(0, obligations - failed_n)
    ev = {
        'property_id': prop,
        'tier': tier,
        'seed': seed,
        'level': 'proof',
        'coverage': {
            'obligations': obligations,
            'discharged': discharged,
            'checker_cmd': ' ; '.join(cmds) if cmds else 'verus (not run)',
            'trusted_base': sorted(set(trusted)),
            'functions_under_contract': functions_under_contract,
            'per_function': per_function,
            'solver_time_ms': smt_ms,
            'extraction_rewrites': sum(len(f['extraction_edits']) for f in functions_under_contract),
            'units': units,
            'undecided_units': undecided,
            'proof_lost': bool(undecided),
            'vacuity_canaries': canaries,
            'seed_stability': stability,
            'mutation_selftest': selftest,
            'failed_obligations': [f.to_json() for _, f in failures],
            'known_findings': known_lines,
            'witness_layer': ({k: v for k, v in wit.items() if k != 'failing'} if wit else None),
            'samples': [{'function': p['function'], 'unit': p['unit'], 'obligations': p['obligations']} for p in per_function[:6]]
                       or [{'note': 'no obligation census (proof lost)'}],
            'rule': 'obligation = one AIR assert generated by Verus for a function serving this property '
                    '(postcondition, call-site precondition incl. std panic conditions, loop invariant, '
                    'arithmetic overflow, assertion, termination); counted from `--log air` on this run',
        },
        'assumptions': PROP_NOTES.get(prop, []),
        'wall_s': round(time.time() - t0, 2),
        'violations': len(viol) if viol else len(wit_fail),
    }
    if ev['coverage']['obligations'] == 0:
        # proof lost entirely: fall back to the generic keys so the file stays schema-valid
        ev['level'] = 'other'
        ev['coverage']['explanation'] = 'proof layer not applicable on this run (see undecided_units); only the witness layer ran'
        n = (wit or {}).get('cases', 0)
        ev['coverage']['evaluations'] = max(1, n)
        ev['coverage']['distinct_nontrivial'] = max(2, n)
    # seedtest runs (a deliberately broken /repo) must not overwrite the evidence of the real tree
    evdir = os.environ.get('VERIF_EVIDENCE_DIR') or os.path.join(VERIF, 'evidence')
    os.makedirs(evdir, exist_ok=True)
    with open(os.path.join(evdir, prop + '.json'), 'w') as fh:
        json.dump(ev, fh, indent=1)
    print('%s: %s  obligations=%d discharged=%d units=%s wall=%.1fs' % (
        prop, {0: 'HOLDS', 1: 'VIOLATED', 2: 'UNDECIDED'}[rc], obligations, discharged, ','.join(units), time.time() - t0))
    return rc


PROP_NOTES = {}
try:
    # the unchecked assumptions of each property are maintained next to its claim (vf/claims.json -> MANIFEST level_note)
    for _c in json.load(open(os.path.join(VERIF, 'vf', 'claims.json'))):
        if _c.get('claimed'):
            PROP_NOTES[_c['id']] = [x.strip() for x in re.split(r';\s+', _c.get('level_note', '')) if x.strip()] + \
                ['every assume_specification / external_body / uninterpreted function / axiom found by the mechanical scan of this run is itemised in coverage.trusted_base']
except Exception:
    pass

if __name__ == '__main__':
    sys.exit(main(sys.argv))
