"""Run Verus on an assembled unit; parse diagnostics and the AIR obligation census."""
import json
import os
import re
import shutil
import subprocess
import tempfile
import time

VERUS = os.environ.get('VERUS_BIN', 'verus')


class Failure:
    def __init__(self):
        self.message = ''
        self.kind = ''          # ensures / requires / invariant / panic / assert / termination / rlimit / other
        self.primary_line = 0
        self.label_lines = []   # [(line, label)]
        self.rendered = ''
        self.func = None
        self.name = ''
        self.props = []

    def to_json(self):
        return {'name': self.name, 'kind': self.kind, 'message': self.message,
                'primary_line': self.primary_line, 'labels': self.label_lines,
                'function': self.func.name if self.func else None, 'props': self.props,
                'rendered': self.rendered}


KINDS = [
    ('postcondition not satisfied', 'ensures'),
    ('unable to prove post-condition of closure', 'ensures'),
    ('unable to prove this pattern will successfully match', 'panic'),
    ('may fail to meet its declared type invariant', 'invariant'),
    ('cannot show invariant holds', 'invariant'),
    ('bitvector assertion not satisfied', 'assert'),
    ('impossible case reached', 'panic'),
    ('requires not satisfied', 'requires'),
    ('precondition not met', 'panic'),
    ('requirement not met', 'panic'),
    ('precondition not satisfied', 'requires'),
    ('invariant not satisfied', 'invariant'),
    ('loop invariant', 'invariant'),
    ('type invariant', 'invariant'),
    ('possible arithmetic underflow/overflow', 'panic'),
    ('possible division by zero', 'panic'),
    ('possible bit shift underflow/overflow', 'panic'),
    ('assertion failed', 'assert'),
    ('decreases not satisfied', 'termination'),
    ('could not prove termination', 'termination'),
    ('failed to converge', 'termination'),
    ('resource limit', 'rlimit'),
    ('rlimit', 'rlimit'),
    ('unreachable', 'panic'),
    ('refinement', 'other'),
]


def classify(msg):
    ml = msg.lower()
    for needle, kind in KINDS:
        if needle in ml:
            return kind
    return 'other'


class Result:
    def __init__(self):
        self.ok = False
        self.verified = 0
        self.errors = 0
        self.failures = []        # verification failures (Failure)
        self.hard_errors = []     # rustc / verus front-end errors (strings) => UNDECIDED
        self.per_function = {}    # name -> {time_ms, rlimit, success}
        self.census = {}          # function -> {kind: count}
        self.smt_ms = 0
        self.wall_s = 0.0
        self.cmd = ''
        self.raw_stderr = ''
        self.notes = []


def run(unit_text, workdir, name, rlimit=None, seed=None, extra=(), census=True, threads=None):
    os.makedirs(workdir, exist_ok=True)
    path = os.path.join(workdir, name + '.rs')
    with open(path, 'w', encoding='utf-8') as f:
        f.write(unit_text)
    logdir = os.path.join(workdir, name + '.log')
    shutil.rmtree(logdir, ignore_errors=True)
    cmd = [VERUS, path, '--output-json', '--time', '--error-format=json', '--multiple-errors', '8',
           '--triggers-mode', 'silent', '--no-report-long-running']
    if census:
        cmd += ['--log', 'air', '--log-dir', logdir]
    if rlimit:
        cmd += ['--rlimit', str(rlimit)]
    if seed is not None:
        cmd += ['--smt-option', 'smt.random_seed=%d' % seed]
    if threads:
        cmd += ['--num-threads', str(threads)]
    cmd += list(extra)
    r = Result()
    r.cmd = ' '.join(cmd)
    t0 = time.time()
    p = subprocess.run(cmd, capture_output=True, text=True, cwd=workdir)
    r.wall_s = time.time() - t0
    r.raw_stderr = p.stderr
    try:
        js = json.loads(p.stdout)
    except Exception:
        js = None
    # when the front end (rustc / VIR translation) accepted the file, every remaining error diagnostic is a
    # failed proof obligation, whatever its wording; when it did not, nothing was verified
    vir_err = True
    nothing_verified = False
    if js:
        vrs = js.get('verification-results', {})
        vir_err = bool(vrs.get('encountered-vir-error')) or ('verified' not in vrs)
        # an error with no failed verification condition counted (macro / parser errors carry no rustc code): nothing was verified
        if vrs.get('encountered-error') and not vrs.get('errors'):
            vir_err = True
            nothing_verified = True
    for line in p.stderr.split('\n'):
        line = line.strip()
        if not line.startswith('{'):
            continue
        try:
            d = json.loads(line)
        except Exception:
            continue
        if d.get('level') not in ('error', 'error: internal compiler error'):
            if d.get('level') == 'warning' or d.get('level') == 'note':
                msg = d.get('message', '')
                if 'resource limit' in msg.lower() or 'rlimit' in msg.lower():
                    r.notes.append(msg)
            continue
        msg = d.get('message', '')
        if msg.startswith('aborting due to') or msg.startswith('could not compile'):
            continue
        kind = classify(msg)
        spans = d.get('spans', [])
        prim = [s for s in spans if s.get('is_primary')]
        if d.get('code') or nothing_verified or (vir_err and kind == 'other' and not _is_verification_msg(msg)):
            r.hard_errors.append((msg, prim[0]['line_start'] if prim else 0, d.get('rendered', '')))
            continue
        f = Failure()
        f.message = msg
        f.kind = kind
        f.rendered = d.get('rendered', '') or ''
        if prim:
            f.primary_line = prim[0]['line_start']
        for s in spans:
            if not s.get('is_primary') or s.get('label'):
                f.label_lines.append((s['line_start'], s.get('label') or ''))
        r.failures.append(f)
    if js:
        vr = js.get('verification-results', {})
        r.verified = vr.get('verified', 0)
        r.errors = vr.get('errors', 0)
        r.ok = bool(vr.get('success')) and not r.hard_errors and not r.failures
        if vr.get('encountered-vir-error') and not r.hard_errors:
            r.hard_errors.append(('verus front-end error (see stderr)', 0, p.stderr[-2000:]))
        try:
            smt = js['times-ms']['smt']
            r.smt_ms = smt.get('total', 0)
            for mod in smt.get('smt-run-module-times', []):
                for fb in mod.get('function-breakdown', []):
                    r.per_function[fb['function']] = {
                        'time_ms': fb.get('time', 0), 'time_us': fb.get('time-micros', 0),
                        'rlimit': fb.get('rlimit', 0), 'success': fb.get('success', False),
                        'mode': fb.get('mode:', '')}
        except Exception:
            pass
    else:
        if not r.hard_errors:
            r.hard_errors.append(('verus produced no JSON summary (rc=%s)' % p.returncode, 0, p.stderr[-3000:]))
    if census and os.path.isdir(logdir):
        r.census = air_census(logdir)
    shutil.rmtree(logdir, ignore_errors=True)
    return r


def _is_verification_msg(msg):
    ml = msg.lower()
    return any(x in ml for x in ('not satisfied', 'assertion', 'overflow', 'underflow', 'termination', 'unable to prove', 'may fail to meet', 'cannot show', 'impossible case', 'precondition not met', 'requirement not met',
                                 'decreases', 'recommendation', 'type invariant', 'resource limit', 'rlimit', 'division by zero'))


_FD = re.compile(r'^;; Function-(?:Def|Decl-Check-Recommends|Recommend|Termination\S*|\S+) (\S+)')


def air_census(logdir):
    """Count AIR `(assert ("msg" ..` obligations per function from the initial-form AIR log."""
    census = {}
    for fn in sorted(os.listdir(logdir)):
        if not fn.endswith('.air'):
            continue
        cur = None
        in_query = False
        with open(os.path.join(logdir, fn), encoding='utf-8', errors='replace') as f:
            prev = ''
            for line in f:
                if line.startswith(';; Function-'):
                    m = re.match(r';; Function-(\S+) (\S+)', line)
                    if m:
                        cur = (m.group(2), m.group(1))
                elif line.startswith('(check-valid'):
                    in_query = True
                elif in_query and cur:
                    s = line.strip()
                    if prev.endswith('(assert') and s.startswith('("'):
                        mm = re.match(r'\("([^"]*)"', s)
                        msg = mm.group(1) if mm else '?'
                        if cur[1] in ('Def', 'Specs') or True:
                            d = census.setdefault(cur[0], {})
                            key = classify(msg) if cur[1] != 'Recommend' else 'recommends'
                            d[key] = d.get(key, 0) + 1
                    prev = s
                    continue
                prev = line.strip()
    return census
