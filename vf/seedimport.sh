#!/bin/bash
# vf/seedimport.sh <worktree> <PROP> <name>: copy an agent's MUTATION/ into /verif/seeded/<name>, confirm its claims in the worktree
set -e
WT=$1; P=$2; N=$3
D=/verif/seeded/$N
mkdir -p $D
cp $WT/MUTATION/patch.diff $D/patch.diff
cp $WT/MUTATION/seeded_demo.rs $D/seeded_demo.rs 2>/dev/null || true
cp $WT/MUTATION/notes.md $D/notes.md 2>/dev/null || true
cd $WT
export CARGO_TARGET_DIR=$WT/target CARGO_NET_OFFLINE=true
# do not trust the worktree state (agents shared refs/stash): rebuild it from the deliverables
git checkout -q -- src
git apply $D/patch.diff
[ -f $D/seeded_demo.rs ] && cp $D/seeded_demo.rs tests/seeded_demo.rs
echo "== full suite with the change (demo moved aside)"
mkdir -p /tmp/seed_aside_$N; [ -f tests/seeded_demo.rs ] && mv tests/seeded_demo.rs /tmp/seed_aside_$N/ || true
SUITE=$(cargo test --workspace --offline 2>&1 | grep -E "^test result" | tr '\n' ';')
echo "$SUITE"
[ -f /tmp/seed_aside_$N/seeded_demo.rs ] && mv /tmp/seed_aside_$N/seeded_demo.rs tests/ || true
echo "== demo with the change"
WITH=$(cargo test --offline --test seeded_demo 2>&1 | grep -E "^test result|error\[" | tr '\n' ';')
echo "$WITH"
git apply -R $D/patch.diff
echo "== demo without the change"
WITHOUT=$(cargo test --offline --test seeded_demo 2>&1 | grep -E "^test result|error\[" | tr '\n' ';')
echo "$WITHOUT"
git apply $D/patch.diff
python3 - "$D" "$P" "$SUITE" "$WITH" "$WITHOUT" <<'PY'
import json,sys
d,p,suite,w,wo=sys.argv[1:6]
json.dump({"property":p,"origin":"independent sub-agent given only the property text and a scratch worktree","confirmed":{"suite_with_change":suite,"demo_with_change":w,"demo_without_change":wo},"needs":open(d+'/notes.md').read()[:1500] if __import__('os').path.exists(d+'/notes.md') else ""},open(d+'/meta.json','w'),indent=1)
PY
echo "imported to $D"
