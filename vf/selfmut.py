"""Contract-strength self test (thorough tier): mutate the *extracted repository code* of every function under
contract and see whether some proof obligation fails.

A mutant is one small syntactic change on a line that came from /repo (never on a contract, invariant or hint):
relational / boolean operator flips, off-by-one on literals, negation dropped, is_some/is_none style flips,
true/false flips, and deletion of a single effect statement (`x.insert(..);`, `x.push(..);`, `n -= 1;`, `break;`).

Outcome per mutant:
  killed     - Verus reports at least one failed obligation (the contracts notice the change)
  survived   - everything still verifies (either an equivalent mutant - e.g. inside an error message - or a
               behaviour the contracts do not pin down: listed in the evidence as a weakness, never an alarm)
  stillborn  - does not type-check / is outside the supported subset

Nothing here decides a property; it measures how much a change of the code is noticed by the contracts.
"""
import concurrent.futures as cf
import json
import os
import re
import shutil
import sys
import time

from . import assemble as asm
from . import lex
from . import verus

HERE = os.path.dirname(os.path.abspath(__file__))
VERIF = os.path.dirname(HERE)
WORK = os.path.join(VERIF, '.work')

REL = [(r'(?<=\s)<=(?=\s)', '<'), (r'(?<=\s)<(?=\s)', '<='), (r'(?<=\s)>=(?=\s)', '>'), (r'(?<=\s)>(?=\s)', '>='),
       (r'(?<=\s)==(?=\s)', '!='), (r'(?<=\s)!=(?=\s)', '=='), (r'&&', '||'), (r'\|\|', '&&')]
WORD = [(r'\.is_some\(\)', '.is_none()'), (r'\.is_none\(\)', '.is_some()'), (r'\.is_ok\(\)', '.is_err()'),
        (r'\.is_err\(\)', '.is_ok()'), (r'\btrue\b', 'false'), (r'\bfalse\b', 'true'),
        (r'\.is_empty\(\)', '.len() == 1'), (r'\bif !', 'if '), (r'\.first\(\)', '.last()'), (r'\.last\(\)', '.first()'),
        (r'\.min_by\(', '.max_by('), (r'\.materials\b', '.products'), (r'\.products\b', '.materials'),
        (r'SHA256\b', 'SHA512'), (r'SHA512\b', 'SHA256'), (r'Sha256\b', 'Sha512'), (r'Sha512\b', 'Sha256'),
        (r'\bMaterials\b', 'Products'), (r'\bProducts\b', 'Materials'), (r'\bSome\(', 'None.or(Some(')]
LIT = [(r'(?<![\w.])0(?![\w.x])', '1'), (r'(?<![\w.])1(?![\w.])', '2'), (r'(?<![\w.])2(?![\w.])', '3'),
       (r'\+ 1\b', '+ 0'), (r'- 1\b', '- 0'), (r'\+= 1\b', '+= 2'), (r'-= 1\b', '-= 2')]
DELETABLE = re.compile(r'^\s*(?:[A-Za-z_][\w.]*\.(?:insert|push|push_str|extend|remove|clear|retain)\(.*\);|'
                       r'[A-Za-z_]\w*\s*[-+]=\s*.*;|break;|continue;)\s*$')


def mutants_of(u):
    """Yield (func, line_no, description, new_line_text)."""
    out = []
    for f in u.funcs:
        if f.stub or getattr(f, 'is_spec_side', False):
            continue
        for ln in range(f.start, f.end + 1):
            L = u.lines[ln - 1]
            if not L.origin or L.origin[0] != 'repo':
                continue
            text = L.text
            try:
                msk = lex.mask(text)
            except lex.LexError:
                continue
            if not msk.strip() or msk.strip().startswith('//'):
                continue
            # skip pure signature / attribute lines and lines inside macros that only build messages
            if re.match(r'\s*(pub\s+)?(fn|impl|struct|enum|use|#\[)', msk):
                continue
            for pats, kind in ((REL, 'op'), (WORD, 'word'), (LIT, 'lit')):
                for rx, rep in pats:
                    for m in re.finditer(rx, msk):
                        # generic brackets / arrows / closures are not comparison operators
                        ctx = msk[max(0, m.start() - 2):m.end() + 2]
                        if '->' in ctx or '=>' in ctx or '<=>' in ctx:
                            continue
                        # `|| {` / `(|| ..` is a closure head, not a disjunction
                        if m.group(0) == '||' and (re.search(r'[(,=]\s*$', msk[:m.start()]) or not msk[:m.start()].strip()):
                            continue
                        # never touch contract text that a G1 rewrite put on a code line (`.. ensures P { body }`)
                        me = re.search(r'\bensures\b', msk)
                        if me:
                            be = msk.find('{', me.end())
                            if me.start() <= m.start() and (be < 0 or m.start() < be):
                                continue
                        new = text[:m.start()] + rep + text[m.end():]
                        out.append((f, ln, '%s: `%s` -> `%s`' % (kind, m.group(0), rep), new))
            mi = re.match(r'^(\s*(?:\}\s*else\s+)?if\s+)(?!let\b)(.+?)(\s*\{\s*)$', msk)
            if mi and 'ensures' not in msk:
                cond = text[mi.start(2):mi.end(2)]
                out.append((f, ln, 'negate condition `%s`' % cond.strip(), text[:mi.start(2)] + '!(' + cond + ')' + text[mi.end(2):]))
            ms_ = re.match(r'^(\s*)([A-Za-z_][\w.:]*\(.*\))\?;\s*$', msk)
            if ms_:
                out.append((f, ln, 'swallow error of `%s`' % text.strip(), text[:ms_.end(2)] + '.ok();'))
            if DELETABLE.match(msk):
                out.append((f, ln, 'delete statement `%s`' % text.strip(), re.sub(r'\S.*$', '', text)))
    return out


def run_mutant(u, idx, m):
    f, ln, desc, new = m
    lines = [l.text for l in u.lines]
    lines[ln - 1] = new
    wd = os.path.join(WORK, 'v', '%s.mut.%d.%d' % (u.name, os.getpid(), idx))
    try:
        r = verus.run('\n'.join(lines) + '\n', wd, u.name, census=False, threads=2)
    finally:
        shutil.rmtree(wd, ignore_errors=True)
    if r.hard_errors:
        return 'stillborn', None
    if r.failures:
        fl = r.failures[0]
        return 'killed', '%s (asm line %d)' % (fl.message, fl.primary_line)
    if r.ok:
        return 'survived', None
    return 'stillborn', None


def selfmut_unit(unit, workers=8, limit=None):
    t0 = time.time()
    u = asm.assemble(unit)
    ms = mutants_of(u)
    if limit:
        ms = ms[:limit]
    res = []
    with cf.ThreadPoolExecutor(max_workers=workers) as ex:
        futs = {ex.submit(run_mutant, u, i, m): (i, m) for i, m in enumerate(ms)}
        for fu in cf.as_completed(futs):
            i, m = futs[fu]
            try:
                st, why = fu.result()
            except Exception as e:   # noqa
                st, why = 'stillborn', str(e)
            f, ln, desc, new = m
            o = u.lines[ln - 1].origin
            res.append({'function': f.name, 'props': f.props or u.props, 'file': o[1], 'line': o[2], 'mutation': desc,
                        'source': u.lines[ln - 1].text.strip()[:160], 'outcome': st, 'first_failed_obligation': why})
    res.sort(key=lambda r: (r['file'], r['line'], r['mutation']))
    summary = {'unit': unit, 'mutants': len(res), 'killed': sum(r['outcome'] == 'killed' for r in res),
               'survived': sum(r['outcome'] == 'survived' for r in res), 'stillborn': sum(r['outcome'] == 'stillborn' for r in res),
               'wall_s': round(time.time() - t0, 1), 'results': res}
    return summary


def main(argv):
    units = argv[1:] or sorted(os.path.basename(p)[:-3] for p in os.listdir(os.path.join(VERIF, 'units')) if p.endswith('.rs'))
    os.makedirs(os.path.join(VERIF, 'out', 'selfmut'), exist_ok=True)
    for un in units:
        s = selfmut_unit(un)
        with open(os.path.join(VERIF, 'out', 'selfmut', un + '.json'), 'w') as fh:
            json.dump(s, fh, indent=1)
        print('%-12s mutants=%-4d killed=%-4d survived=%-4d stillborn=%-4d wall=%ss' % (un, s['mutants'], s['killed'], s['survived'], s['stillborn'], s['wall_s']))
        for r in s['results']:
            if r['outcome'] == 'survived':
                print('   SURVIVED %s:%d %s  [%s]   %s' % (r['file'], r['line'], r['mutation'], r['function'], r['source'][:90]))
    return 0


if __name__ == '__main__':
    sys.exit(main(sys.argv))
