"""Run the registered checks against a seeded change.

  python3 -m vf.seedtest /verif/seeded/<dir> [PROP ...]

Applies seeded/<dir>/patch.diff to /repo (git apply), runs `./check <PROP>` for the property in
meta.json (plus any given), prints exit codes, and ALWAYS restores /repo (git checkout -- .)."""
import json, os, subprocess, sys, time
V = os.path.dirname(os.path.dirname(os.path.abspath(__file__)))

def main():
    d = sys.argv[1]
    meta = json.load(open(os.path.join(d, 'meta.json')))
    props = sys.argv[2:] or [meta['property']]
    patch = os.path.join(d, 'patch.diff')
    st = subprocess.run(['git', '-C', '/repo', 'status', '--porcelain', '--untracked-files=no'], capture_output=True, text=True).stdout.strip()
    if st:
        print('refusing: /repo has uncommitted changes:\n' + st); return 2
    r = subprocess.run(['git', '-C', '/repo', 'apply', patch], capture_output=True, text=True)
    if r.returncode != 0:
        print('patch does not apply:', r.stderr); return 2
    res = {}
    try:
        for p in props:
            t0 = time.time()
            c = subprocess.run([os.path.join(V, 'check'), p], capture_output=True, text=True, cwd=V,
                               env=dict(os.environ, VERIF_EVIDENCE_DIR=os.path.join(V, 'out', 'seed_evidence')))
            lines = [l for l in c.stdout.split('\n') if l.startswith(('VIOLATION', 'UNDECIDED', 'KNOWN-FINDING', p + ':'))]
            res[p] = {'exit': c.returncode, 'lines': lines[:6], 'wall_s': round(time.time() - t0, 1)}
            try:
                ev = json.load(open(os.path.join(V, 'out', 'seed_evidence', p + '.json')))
                res[p]['undecided_units'] = ev.get('coverage', {}).get('undecided_units')
                res[p]['proof_failures'] = [l for l in c.stdout.split('\n') if l.strip().startswith('obligation ')][:6]
            except Exception:
                pass
            print(p, 'exit', c.returncode)
            for l in lines[:6]:
                print('   ', l[:300])
    finally:
        subprocess.run(['git', '-C', '/repo', 'checkout', '--', '.'])
    json.dump(res, open(os.path.join(d, 'check_result.json'), 'w'), indent=1)
    return 0

if __name__ == '__main__':
    sys.exit(main())
