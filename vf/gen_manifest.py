"""Regenerate /verif/MANIFEST.json from vf/claims.json (one entry per property: claimed or not_applicable)."""
import json, os, subprocess
V = os.path.dirname(os.path.dirname(os.path.abspath(__file__)))
claims = json.load(open(os.path.join(V, 'vf', 'claims.json')))
hooks = [l.split()[0] for l in subprocess.run(['git', '-C', '/repo', 'log', '--format=%h %s'], capture_output=True, text=True).stdout.split('\n') if 'verif hook' in l]
m = {
 "version": 1,
 "setup_cmd": "cd /verif && mkdir -p .work out/replay evidence && python3 -c 'import vf.check' && (CARGO_NET_OFFLINE=true CARGO_TARGET_DIR=/verif/.work/replay-target RUSTFLAGS='--cfg in_toto_rs_verif -A unexpected_cfgs' cargo build --offline --quiet --manifest-path replay/Cargo.toml || true)",
 "hooks": {
  "guard": "in_toto_rs_verif",
  "enable": "RUSTFLAGS='--cfg in_toto_rs_verif' when building /repo for the replay/witness crate (/verif/replay). Verus reads /repo source text and needs no hook.",
  "baseline_off_cmd": "cd /repo && cargo test --workspace --no-fail-fast --offline",
  "source_commits": hooks,
  "add_only": True
 },
 "engines": [
  {"name": "verus-contracts", "path": "/verif/vf", "serves_properties": [c['id'] for c in claims if c.get('claimed')],
   "kind_free_text": "contract-based deductive verification: functions extracted mechanically from /repo on every run (vf/extract.py, rewrite rules in DESIGN.md section 4), contracts/invariants/lemmas from /verif/units, /verif/prelude, /verif/lemmas inserted, discharged by Verus 0.2026.09.13 + z3"},
  {"name": "replay-witness", "path": "/verif/replay", "serves_properties": [c['id'] for c in claims if c.get('claimed')],
   "kind_free_text": "concrete witness inputs executed against the real crate (hooks on) to turn a failed obligation into a failing input; never counted as proof"}
 ],
 "checks": [],
 "not_applicable": [],
 "notes": "exit 0 = all obligations serving the property discharged; exit 1 + VIOLATION line = a named obligation failed (or a concrete witness failed on the real code); exit 2 = UNDECIDED (proof layer could not be applied: lost anchor / unsupported construct / solver limit) - never an alarm."
}
for c in claims:
    if c.get('claimed'):
        m['checks'].append({
            "property_id": c['id'],
            "quick_cmd": "./check %s --tier quick" % c['id'],
            "thorough_cmd": "./check %s --tier thorough" % c['id'],
            "evidence_file": "/verif/evidence/%s.json" % c['id'],
            "replay_cmd_template": "./check %s --replay {path}" % c['id'],
            "engine": "verus-contracts",
            "level_claimed": {"category": "proof", "text": c['level_text'], "design_ref": c.get('design_ref', 'DESIGN.md section 6 / %s' % c['id'])},
            "level_note": c['level_note'],
            "technique": c.get('technique', 'contract-based deductive verification (Verus requires/ensures/invariants on functions extracted from /repo each run)')
        })
    else:
        m['not_applicable'].append({"property_id": c['id'], "reason": c['reason']})
json.dump(m, open(os.path.join(V, 'MANIFEST.json'), 'w'), indent=1)
print('claimed', len(m['checks']), 'n/a', len(m['not_applicable']))
