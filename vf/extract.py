"""Locate Rust items by path in /repo sources and apply the mechanical rewrites D1..D5.

Item selectors (joined by '/'):
    fn:NAME  struct:NAME  enum:NAME  const:NAME  type:NAME  trait:NAME  mod:NAME
    impl:<header text after 'impl', whitespace-insensitive, up to '{' (without where clause)>
e.g.  "impl:KeyId/fn:prefix",  "impl:FromStr for KeyId/fn:from_str",  "fn:in_toto_verify"
"""
import re
from . import lex


class ExtractError(Exception):
    """Anchor lost / unsupported construct -> the unit is UNDECIDED, never a violation."""


KW = ('fn', 'struct', 'enum', 'union', 'impl', 'trait', 'mod', 'use', 'const', 'static', 'type',
      'macro_rules', 'extern')
_HEAD = re.compile(
    r'\s*(?:pub(?:\s*\([^)]*\))?\s+)?(?:default\s+)?(?:const\s+(?=fn|unsafe|async|extern))?(?:async\s+)?(?:unsafe\s+)?'
    r'(?:extern\s+"[^"]*"\s+(?=fn))?'
    r'(fn|struct|enum|union|impl|trait|mod|use|const|static|type|macro_rules|extern)\b')


class Item:
    __slots__ = ('kind', 'name', 'start', 'attr_start', 'body_open', 'end', 'attrs')

    def __repr__(self):
        return 'Item(%s:%s @%d-%d)' % (self.kind, self.name, self.start, self.end)


def _norm(s):
    return re.sub(r'\s+', '', s)


def iter_items(src, msk, start, end):
    """Yield Items found directly inside src[start:end] (one nesting level)."""
    i = start
    while i < end:
        # skip whitespace
        m = re.compile(r'\s*').match(msk, i, end)
        i = m.end()
        if i >= end:
            break
        attr_start = i
        attrs = []
        # attributes
        while msk.startswith('#', i):
            j = i + 1
            if msk.startswith('!', j):
                j += 1
            m2 = re.compile(r'\s*').match(msk, j, end)
            j = m2.end()
            if not msk.startswith('[', j):
                raise ExtractError('malformed attribute at %d' % i)
            k = lex.match_bracket(msk, j)
            attrs.append(src[i:k + 1])
            i = k + 1
            m = re.compile(r'\s*').match(msk, i, end)
            i = m.end()
        if i >= end:
            break
        m = _HEAD.match(msk, i, end)
        if not m:
            # not an item we understand (e.g. macro invocation): skip to next ';' or balanced '{}'
            j = lex.find_at_depth0(msk, i, end, ';{')
            if j < 0:
                break
            if msk[j] == '{':
                j = lex.match_bracket(msk, j)
            i = j + 1
            continue
        kind = m.group(1)
        it = Item()
        it.kind = kind
        it.start = i
        it.attr_start = attr_start
        it.attrs = attrs
        it.body_open = -1
        after = m.end()
        if kind in ('use', 'const', 'static', 'type', 'extern') and not (
                kind == 'const' and re.compile(r'\s*fn\b').match(msk, after, end)):
            # ends at ';' at depth 0 (braces in initialisers are skipped by bracket matching)
            j = i
            while True:
                j = lex.find_at_depth0(msk, j, end, ';{')
                if j < 0:
                    raise ExtractError('unterminated item at %d' % i)
                if msk[j] == '{':
                    if kind == 'extern':
                        it.body_open = j
                        j = lex.match_bracket(msk, j)
                        break
                    j = lex.match_bracket(msk, j) + 1
                    continue
                break
            it.end = j + 1
            mm = re.compile(r'\s*(?:mut\s+)?([A-Za-z_][A-Za-z0-9_]*)').match(msk, after, end)
            it.name = mm.group(1) if mm else ''
        else:
            j = lex.find_at_depth0(msk, after, end, ';{')
            if j < 0:
                raise ExtractError('unterminated item at %d' % i)
            if msk[j] == '{':
                it.body_open = j
                k = lex.match_bracket(msk, j)
                it.end = k + 1
            else:
                it.end = j + 1
            if kind == 'impl':
                hdr = src[after:j]
                hdr = re.split(r'\bwhere\b', hdr)[0]
                it.name = _norm(hdr)
            elif kind == 'macro_rules':
                it.name = ''
            else:
                mm = re.compile(r'\s*([A-Za-z_][A-Za-z0-9_]*)').match(msk, after, end)
                it.name = mm.group(1) if mm else ''
        yield it
        i = it.end


def is_cfg_test(it):
    return any(re.match(r'#\s*\[\s*cfg\s*\(\s*test\s*\)\s*\]', a) for a in it.attrs)


def find_item(src, msk, selector):
    """Return the Item for a '/'-joined selector."""
    start, end = 0, len(src)
    parts = [p for p in selector.split('/') if p]
    it = None
    for p in parts:
        kind, _, name = p.partition(':')
        want = _norm(name) if kind == 'impl' else name
        found = [x for x in iter_items(src, msk, start, end)
                 if x.kind == kind and x.name == want and not is_cfg_test(x)]
        if not found:
            raise ExtractError('item not found: %s (at %s)' % (selector, p))
        if len(found) > 1:
            raise ExtractError('item ambiguous: %s (at %s, %d matches)' % (selector, p, len(found)))
        it = found[0]
        if it.body_open >= 0:
            start, end = it.body_open + 1, it.end - 1
    return it


# ---------------------------------------------------------------------------------------------
# rewrites.  Every rewrite keeps the number of lines unchanged (text is blanked, not deleted),
# so assembled line k of an extracted item is repo line (first_line + k).

DROP_ATTRS = {'serde', 'strum', 'error', 'allow', 'doc', 'inline', 'from', 'must_use', 'source',
              'deprecated', 'non_exhaustive', 'rustfmt'}
KEEP_DERIVES = {'Debug', 'Clone', 'Copy', 'PartialEq', 'Eq', 'Hash', 'PartialOrd', 'Ord', 'Default'}
LOG_MACROS = ('debug', 'info', 'warn', 'error', 'trace')


def _blank(chars, a, b):
    for k in range(a, b):
        if chars[k] != '\n':
            chars[k] = ' '


def _blanked(seg):
    return ''.join(c if c == '\n' else ' ' for c in seg)


def rewrite(text, log, keep_derives=None, drop_derives=()):
    """Apply D1 (attributes/docs), D2 (const &str), D3 (closure `_` params), D5 (log macros)."""
    keep = set(KEEP_DERIVES if keep_derives is None else keep_derives) - set(drop_derives)
    msk = lex.mask(text)
    mskc = lex.mask(text, keep_comments=True)
    edits = []  # (a, b, replacement) -- replacement keeps the number of newlines

    def ln(pos):
        return text.count('\n', 0, pos)

    # D1a: doc comments (/// and //!) -> blank ; other comments are left alone
    for m in re.finditer(r'//[/!][^\n]*', mskc):
        if msk[m.start():m.end()].strip() == '':   # a real comment, not text inside a string
            edits.append((m.start(), m.end(), None))
            log.append(('D1', 'doc comment removed', ln(m.start())))
    # D1b: attributes
    for m in re.finditer(r'#\s*!?\s*\[', msk):
        j = msk.index('[', m.start())
        k = lex.match_bracket(msk, j)
        inner = text[j + 1:k].strip()
        nm = re.match(r'[A-Za-z_:]+', inner)
        name = nm.group(0) if nm else ''
        if name == 'derive':
            body = inner[inner.index('(') + 1:inner.rindex(')')]
            ents = [e.strip() for e in body.replace('\n', ' ').split(',') if e.strip()]
            kept = [e for e in ents if e.split('::')[-1] in keep]
            dropped = [e for e in ents if e.split('::')[-1] not in keep]
            if dropped:
                log.append(('D1', 'derive entries dropped: ' + ','.join(dropped), ln(m.start())))
            nl = text.count('\n', m.start(), k + 1)
            rep = ('#[derive(' + ', '.join(kept) + ')]' if kept else '') + '\n' * nl
            edits.append((m.start(), k + 1, rep))
        elif name in DROP_ATTRS or name == 'cfg_attr':
            log.append(('D1', 'attribute removed: #[%s..]' % name, ln(m.start())))
            edits.append((m.start(), k + 1, None))
        elif name == 'cfg' and re.search(r'cfg\s*\(\s*test', inner):
            raise ExtractError('cfg(test) item inside extracted text')
        elif name in ('verifier', 'trigger', 'cfg'):
            pass
        else:
            raise ExtractError('unknown attribute #[%s] (line +%d): extend DROP_ATTRS after review'
                               % (name, ln(m.start())))
    # D5: log macros as statements
    for m in re.finditer(r'\b(%s)!\s*\(' % '|'.join(LOG_MACROS), msk):
        p = m.start() - 1
        while p >= 0 and msk[p] in ' \n\t':
            p -= 1
        arm = p >= 1 and msk[p - 1:p + 1] == '=>'
        if p >= 0 and msk[p] not in '{};' and not arm:
            raise ExtractError('log macro in expression position')
        j = msk.index('(', m.start())
        k = lex.match_bracket(msk, j)
        e = k + 1
        mm = re.compile(r'\s*;').match(msk, e)
        if mm and not arm:
            e = mm.end()
        args = text[j + 1:k]
        am = lex.mask(args)
        if re.search(r'(?<![=!<>])=(?!=)|\?|\w+!\s*[\(\[{]|\|', am):
            raise ExtractError('log macro with possibly effectful argument: ' + args.strip()[:60])
        if arm:
            # `PAT => debug!(..),` : the macro is the arm's whole value, of type (); written as the unit value
            log.append(('D5', 'log macro as a match-arm value replaced by (): %s!' % m.group(1), ln(m.start())))
            edits.append((m.start(), e, '()' + '\n' * text.count('\n', m.start(), e)))
        else:
            log.append(('D5', 'log macro removed: %s!' % m.group(1), ln(m.start())))
            edits.append((m.start(), e, None))
    # D2: const X: &str -> &'static str
    for m in re.finditer(r'\bconst\s+([A-Z_0-9a-z]+)\s*:\s*(&\s*str)\b', msk):
        log.append(('D2', "const &str -> &'static str: " + m.group(1), ln(m.start())))
        edits.append((m.start(2), m.end(2), "&'static str"))
    # D23: byte-string literal b"abc" -> &[0x61u8, 0x62u8, 0x63u8] (Verus does not model the contents of byte-string literals)
    for m in re.finditer(r'\bb"', msk):
        q = m.end()
        e = text.index('"', q)
        while text[e - 1] == '\\':
            e = text.index('"', e + 1)
        body = text[q:e]
        if any(ord(c) > 126 or ord(c) < 32 for c in body):
            raise ExtractError('D23: byte-string literal with raw non-printable characters is not supported')
        # simple escapes of the language reference: \n \r \t \\ \0 \" \' \xNN
        bs = []
        i = 0
        simple = {'n': 10, 'r': 13, 't': 9, '\\': 92, '0': 0, '"': 34, "'": 39}
        while i < len(body):
            c = body[i]
            if c != '\\':
                bs.append(ord(c)); i += 1; continue
            if i + 1 >= len(body):
                raise ExtractError('D23: dangling backslash in byte-string literal')
            d = body[i + 1]
            if d in simple:
                bs.append(simple[d]); i += 2
            elif d == 'x' and re.match(r'[0-9a-fA-F]{2}', body[i + 2:i + 4]):
                bs.append(int(body[i + 2:i + 4], 16)); i += 4
            else:
                raise ExtractError('D23: unsupported escape in byte-string literal')
        rep = '&[' + ', '.join('0x%02xu8' % b for b in bs) + ']'
        log.append(('D23', 'byte-string literal b"%s" spelled as an array literal' % body, ln(m.start())))
        edits.append((m.start(), e + 1, rep))
    # D3: closure parameter `_`
    cnt = 0
    for m in re.finditer(r'\|\s*_\s*\|', msk):
        p = m.start() - 1
        while p >= 0 and msk[p] in ' \n\t':
            p -= 1
        if p >= 0 and (msk[p] in '(,={;' or msk[max(0, p - 3):p + 1] == 'move'):
            cnt += 1
            log.append(('D3', 'closure parameter _ renamed _u%d' % cnt, ln(m.start())))
            edits.append((m.start(), m.end(), '|_u%d|' % cnt))
    # apply, last first; overlapping edits are an internal error
    edits.sort(key=lambda e: e[0])
    for (a1, b1, _), (a2, b2, _) in zip(edits, edits[1:]):
        if a2 < b1:
            # nested (e.g. attribute inside a removed macro): keep the outer one only
            pass
    out = text
    done_to = len(text) + 1
    for a, b, rep in reversed(edits):
        if b > done_to:
            continue  # nested inside an edit already applied
        seg = out[a:b]
        if rep is None:
            rep = _blanked(seg)
        assert rep.count('\n') == seg.count('\n'), 'line count changed by rewrite'
        out = out[:a] + rep + out[b:]
        done_to = a
    return out


def extract(repo_root, relpath, selector, log, keep_derives=None, drop_derives=(), body_only=False):
    """Return (text, first_line) of the item after rewrites."""
    path = repo_root.rstrip('/') + '/' + relpath
    try:
        src = open(path, encoding='utf-8').read()
    except OSError as e:
        raise ExtractError('cannot read %s: %s' % (relpath, e))
    try:
        msk = lex.mask(src)
        it = find_item(src, msk, selector)
    except lex.LexError as e:
        raise ExtractError('lex error in %s: %s' % (relpath, e))
    a = it.attr_start
    # start at the beginning of the line for stable line mapping
    text = src[a:it.end]
    first_line = lex.line_of(src, a)
    try:
        text = rewrite(text, log, keep_derives, drop_derives)
    except lex.LexError as e:
        raise ExtractError('lex error in %s %s: %s' % (relpath, selector, e))
    return text, first_line
