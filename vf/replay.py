"""Witness / replay layer: concrete inputs executed against the real /repo code (hooks on).

The crate /verif/replay depends on in-toto by path (/repo) and is rebuilt from the current working
tree on every call (cargo's fingerprinting makes the unchanged case cheap).  `replay <PROP>` prints
one JSON object: {"cases": n, "failing": [{"id":..,"input":..,"expected":..,"observed":..}], ...}.
This layer never proves anything: it turns a failed obligation into a failing input, and is the
bounded fallback when the proof layer is lost.
"""
import json
import os
import subprocess

VERIF = os.path.dirname(os.path.dirname(os.path.abspath(__file__)))
REPO = os.environ.get('VERIF_REPO', '/repo')
CRATE = os.path.join(VERIF, 'replay')
TARGET = os.path.join(VERIF, '.work', 'replay-target')
GUARD = 'in_toto_rs_verif'


def build():
    env = dict(os.environ)
    env['CARGO_NET_OFFLINE'] = 'true'
    env['RUSTFLAGS'] = (env.get('RUSTFLAGS', '') + ' --cfg %s -A unexpected_cfgs' % GUARD).strip()
    env['CARGO_TARGET_DIR'] = TARGET
    env['VERIF_REPO'] = REPO
    p = subprocess.run(['cargo', 'build', '--offline', '--quiet', '--manifest-path', os.path.join(CRATE, 'Cargo.toml')],
                       capture_output=True, text=True, env=env)
    return p.returncode == 0, p.stderr[-4000:]


def run_witness(prop, tier):
    if not os.path.exists(os.path.join(CRATE, 'Cargo.toml')):
        return None
    ok, err = build()
    if not ok:
        return {'error': 'replay crate does not build against the current tree', 'stderr': err,
                'cases': 0, 'failing': []}
    exe = os.path.join(TARGET, 'debug', 'replay')
    env = dict(os.environ)
    env['VERIF_TIER'] = tier
    try:
        p = subprocess.run([exe, prop], capture_output=True, text=True, errors='replace', timeout=600, env=env,
                           cwd=os.path.join(VERIF, '.work'))
    except subprocess.TimeoutExpired:
        return {'error': 'witness run timed out', 'cases': 0, 'failing': []}
    last = None
    for l in p.stdout.split('\n'):
        l = l.strip()
        if l.startswith('{'):
            try:
                last = json.loads(l)
            except Exception:
                pass
    if last is None:
        if p.returncode is not None and p.returncode < 0:
            # the witness process was killed by a signal while executing the real code (stack overflow, abort): the code under test
            # did not come back with a verdict on some witness input - reported as a failing witness, the input is not known
            return {'cases': 1, 'failing': [{'id': 'witness-process-killed', 'input': {'signal': -p.returncode},
                                             'expected': 'the witness run completes',
                                             'observed': (p.stderr or '')[-600:]}],
                    'replay_cmd': 'cd /verif && ./check %s --witness-only' % prop}
        return {'error': 'witness produced no result (rc=%s): %s' % (p.returncode, (p.stderr or '')[-1500:]),
                'cases': 0, 'failing': []}
    last['replay_cmd'] = 'cd /verif && ./check %s --witness-only' % prop
    return last
