"""Minimal Rust lexing helpers: comment/string masking and bracket matching.

mask(src) returns a string of identical length in which the *contents* of comments,
string literals and char literals are replaced by blanks (newlines kept), so that
regexes and bracket matching can run on it while offsets stay valid for `src`.
"""
import re


class LexError(Exception):
    pass


def _is_ident(c):
    return c.isalnum() or c == '_'


def mask(src, keep_comments=False):
    out = list(src)
    n = len(src)
    i = 0

    def blank(a, b):
        for k in range(a, b):
            if out[k] != '\n':
                out[k] = ' '

    while i < n:
        c = src[i]
        nxt = src[i + 1] if i + 1 < n else ''
        if c == '/' and nxt == '/':
            j = src.find('\n', i)
            if j < 0:
                j = n
            if not keep_comments:
                blank(i, j)
            i = j
        elif c == '/' and nxt == '*':
            depth = 1
            j = i + 2
            while j < n and depth:
                if src.startswith('/*', j):
                    depth += 1
                    j += 2
                elif src.startswith('*/', j):
                    depth -= 1
                    j += 2
                else:
                    j += 1
            if not keep_comments:
                blank(i, j)
            i = j
        elif c == '"':
            j = i + 1
            while j < n and src[j] != '"':
                j += 2 if src[j] == '\\' else 1
            blank(i + 1, min(j, n))
            i = j + 1
        elif c == 'r' and (i == 0 or not _is_ident(src[i - 1])) and re.match(r'r#*"', src[i:i + 40]):
            m = re.match(r'r(#*)"', src[i:i + 40])
            hashes = m.group(1)
            close = '"' + hashes
            j = src.find(close, i + len(m.group(0)))
            if j < 0:
                raise LexError('unterminated raw string')
            blank(i + len(m.group(0)), j)
            i = j + len(close)
        elif c == 'b' and nxt == 'r' and (i == 0 or not _is_ident(src[i - 1])) and re.match(r'br#*"', src[i:i + 40]):
            i += 1  # handled as raw string on next iteration
        elif c == "'":
            # char literal or lifetime
            if nxt == '\\':
                j = src.find("'", i + 2)
                # '\'' case
                if src[i + 2] == "'":
                    j = src.find("'", i + 3)
                blank(i + 1, j)
                i = j + 1
            elif i + 2 < n and src[i + 2] == "'":
                blank(i + 1, i + 2)
                i += 3
            else:
                i += 1  # lifetime
        else:
            i += 1
    return ''.join(out)


OPEN = {'(': ')', '[': ']', '{': '}'}
CLOSE = {v: k for k, v in OPEN.items()}


def match_bracket(msk, pos):
    """msk[pos] is an opening bracket; return the index of its closing partner."""
    stack = []
    i = pos
    n = len(msk)
    while i < n:
        c = msk[i]
        if c in OPEN:
            stack.append(c)
        elif c in CLOSE:
            if not stack or stack[-1] != CLOSE[c]:
                raise LexError('unbalanced bracket at %d' % i)
            stack.pop()
            if not stack:
                return i
        i += 1
    raise LexError('unterminated bracket at %d' % pos)


def find_at_depth0(msk, start, end, chars):
    """First index in [start,end) of any char in `chars` at ()/[]/{} depth 0."""
    i = start
    while i < end:
        c = msk[i]
        if c in chars:
            return i
        if c in OPEN:
            i = match_bracket(msk, i) + 1
            continue
        i += 1
    return -1


def line_of(src, pos):
    return src.count('\n', 0, pos) + 1
