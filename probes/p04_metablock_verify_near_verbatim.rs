#![feature(allocator_api)]
#![feature(pattern)]
use vstd::prelude::*;
use std::collections::HashMap;
verus! {
#[verifier::external_type_specification]
#[verifier::external_body]
pub struct ExFromUtf8Error(std::string::FromUtf8Error);

pub assume_specification [String::from_utf8] (v: Vec<u8>) -> (r: std::result::Result<String, std::string::FromUtf8Error>)
  ensures r is Ok ==> vstd::utf8::encode_utf8(r->Ok_0@) == v@;

pub assume_specification [String::as_bytes] (s: &String) -> (r: &[u8])
  ensures r@ == vstd::utf8::encode_utf8(s@);

pub uninterp spec fn str_replace<P>(s: Seq<char>, from: P, to: Seq<char>) -> Seq<char>;
pub assume_specification<P: std::str::pattern::Pattern> [str::replace::<P>] (s: &str, from: P, to: &str) -> (r: String)
  ensures r@ == str_replace(s@, from, to@);

#[verifier::reject_recursive_types(A)]
#[verifier::reject_recursive_types(K)]
#[verifier::reject_recursive_types(V)]
#[verifier::external_type_specification]
#[verifier::external_body]
pub struct ExIntoIter<K, V, A>(std::collections::hash_map::IntoIter<K, V, A>)
where A: std::alloc::Allocator,;

pub enum Error { VerificationFailure(String), Encoding(String), BadSignature }
pub type Result<T> = std::result::Result<T, Error>;

#[derive(PartialEq, Eq, Hash)]
pub struct KeyId(String);

pub struct SignatureValue(Vec<u8>);
pub struct Signature { key_id: KeyId, value: SignatureValue }
impl Signature {
    pub fn key_id(&self) -> &KeyId { &self.key_id }
}

pub struct PublicKey { key_id: KeyId, value: Vec<u8> }
impl PublicKey {
    pub fn key_id(&self) -> &KeyId { &self.key_id }
    #[verifier::external_body]
    pub fn verify(&self, msg: &[u8], sig: &Signature) -> Result<()> { unimplemented!() }
}

#[derive(Clone)]
pub struct MetadataWrapper { x: u8 }
impl MetadataWrapper {
    #[verifier::external_body]
    pub fn to_bytes(&self) -> Result<Vec<u8>> { unimplemented!() }
}

pub struct Metablock {
    pub signatures: Vec<Signature>,
    pub metadata: MetadataWrapper,
}

impl Metablock {
    pub fn verify<'a>(
        &self,
        threshold: u32,
        authorized_keys: Vec<&'a PublicKey>,
    ) -> Result<MetadataWrapper>
    {
        if self.signatures.is_empty() {
            return Err(Error::VerificationFailure(
                "The metadata was not signed with any authorized keys.".into(),
            ));
        }

        if threshold < 1 {
            return Err(Error::VerificationFailure(
                "Threshold must be strictly greater than zero".into(),
            ));
        }

        let authorized_keys = authorized_keys
            .into_iter()
            .map(|k| (k.key_id(), k))
            .collect::<HashMap<&KeyId, &PublicKey>>();

        let raw = self.metadata.to_bytes()?;
        let metadata = String::from_utf8(raw)
            .map_err(|e| {
                Error::Encoding(format!(
                    "Cannot convert metadata into a string: {}",
                    e
                ))
            })?
            .replace("\\n", "\n");
        let mut signatures_needed = threshold;

        // Create a key_id->signature map to deduplicate the key_ids.
        let signatures = self
            .signatures
            .iter()
            .map(|sig| (sig.key_id(), sig))
            .collect::<HashMap<&KeyId, &Signature>>();

        // check the signatures, if is signed by an authorized key,
        // signatures_needed - 1

        for (key_id, sig) in signatures {
            match authorized_keys.get(key_id) {
                Some(pub_key) => match pub_key.verify(metadata.as_bytes(), sig)
                {
                    Ok(()) => {
                        signatures_needed -= 1;
                    }
                    Err(e) => {
                    }
                },
                None => {
                }
            }
            if signatures_needed == 0 {
                break;
            }
        }

        if signatures_needed > 0 {
            return Err(Error::VerificationFailure(format!(
                "Signature threshold not met: {}/{}",
                threshold - signatures_needed,
                threshold
            )));
        }

        Ok(self.metadata.clone())
    }
}
} // verus!
fn main() {}
