use vstd::prelude::*;
use std::str;
verus! {
pub enum Error { PAEParseFailed(String), Utf8(String) }
pub type Result<T> = std::result::Result<T, Error>;

#[verifier::external_type_specification]
#[verifier::external_body]
pub struct ExUtf8Error(std::str::Utf8Error);

impl From<std::str::Utf8Error> for Error {
    #[verifier::external_body]
    fn from(e: std::str::Utf8Error) -> Error { Error::Utf8(String::new()) }
}

const PREFIX: &'static str = "DSSEv1";
const SPLIT: &'static str = " ";
const SPLIT_U8: u8 = 0x20;

fn consume_load_len(raw: &[u8]) -> Result<(usize, &[u8])> {
    let mut iter = raw.splitn(2, |num| *num == SPLIT_U8);
    let length_raw = iter.next().ok_or_else(|| {
        Error::PAEParseFailed(format!(
            "split '{}' failed for {:?}",
            SPLIT,
            raw.to_owned()
        ))
    })?;

    let length =
        str::from_utf8(length_raw)?.parse::<usize>().map_err(|_e| {
            Error::PAEParseFailed(format!(
                "parse to int failed for {:?}",
                length_raw
            ))
        })?;
    let next = iter.next().ok_or_else(|| {
        Error::PAEParseFailed(format!(
            "prefix {} strip failed for {:?}",
            PREFIX,
            raw.to_owned()
        ))
    })?;
    Ok((length, next))
}

    fn pae_pack(payload_ver: String, payload: &[u8]) -> Vec<u8> {
        let sig_header: String = format!(
            "{prefix}{split}{payload_ver_len}{split}{payload_ver}{split}{payload_len}{split}",
            prefix = PREFIX,
            split = SPLIT,
            payload_ver_len = payload_ver.len(),
            payload_ver = payload_ver.as_str(),
            payload_len = payload.len(),
        );
        let sig = [sig_header.as_bytes(), payload].concat();
        sig
    }

    fn pae_unpack(bytes: &[u8]) -> Result<(Vec<u8>, String)> {
        // Strip prefix + split "DSSEv1 "
        let raw = bytes
            .strip_prefix(format!("{}{}", PREFIX, SPLIT).as_bytes())
            .ok_or_else(|| {
                Error::PAEParseFailed(format!(
                    "prefix {} strip failed for {:?}",
                    PREFIX,
                    bytes.to_owned()
                ))
            })?;

        // Extract payload_ver from bytes
        let (payload_ver_len, raw) = consume_load_len(raw)?;
        let payload_ver = str::from_utf8(&raw[0..payload_ver_len])?
            .parse::<String>()
            .map_err(|_e| {
                Error::PAEParseFailed(format!(
                    "parse to string failed for {:?}",
                    raw
                ))
            })?;

        // Extract payload from bytes
        let (payload_len, raw) =
            consume_load_len(&raw[(payload_ver_len + 1)..])?;
        let payload = raw[0..payload_len].to_vec();

        Ok((payload, payload_ver))
    }
}
fn main() {}
