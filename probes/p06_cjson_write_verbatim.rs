#![feature(allocator_api)]
use vstd::prelude::*;
use std::collections::BTreeMap;
verus! {
pub uninterp spec fn items_of<'a, T, I>(i: I) -> Seq<T>;
pub assume_specification<'a, T, A, I> [<std::vec::Vec<T, A> as std::iter::Extend<&'a T>>::extend] (v: &mut std::vec::Vec<T, A>, i: I)
           where
           A: std::alloc::Allocator,
           I: std::iter::IntoIterator<Item = &'a T>,
           T: std::marker::Copy + 'a,
   ensures final(v)@ == old(v)@ + items_of::<T, I>(i);

pub mod itoa {
    use vstd::prelude::*;
    #[verifier::external_body]
    pub struct Buffer { b: [u8; 40] }
    impl Buffer {
        #[verifier::external_body]
        pub fn new() -> Buffer { unimplemented!() }
    }
}

enum Value {
    Array(Vec<Value>),
    Bool(bool),
    Null,
    Number(Number),
    Object(BTreeMap<String, Value>),
    String(String),
}

enum Number {
    I64(i64),
    U64(u64),
}

impl Value {
    fn write(&self, buf: &mut Vec<u8>) -> std::result::Result<(), String> 
        decreases self
    {
        match *self {
            Value::Null => {
                buf.extend(b"null");
                Ok(())
            }
            Value::Bool(true) => {
                buf.extend(b"true");
                Ok(())
            }
            Value::Bool(false) => {
                buf.extend(b"false");
                Ok(())
            }
            Value::Array(ref arr) => {
                buf.push(b'[');
                let mut first = true;
                for a in arr.iter() {
                    if !first {
                        buf.push(b',');
                    }
                    a.write(buf)?;
                    first = false;
                }
                buf.push(b']');
                Ok(())
            }
            Value::Object(ref obj) => {
                buf.push(b'{');
                let mut first = true;
                for (k, v) in obj.iter() {
                    if !first {
                        buf.push(b',');
                    }
                    first = false;
                    buf.push(b':');
                    v.write(buf)?;
                }
                buf.push(b'}');
                Ok(())
            }
            _ => Ok(())
        }
    }
}
} // verus!
fn main() {}
