use vstd::prelude::*;
use std::collections::HashMap;
verus! {

pub enum Error { VerificationFailure(String), IllegalArgument(String) }
pub type Result<T> = std::result::Result<T, Error>;

pub struct LayoutMetadata { pub steps: Vec<u64>, pub inspect: Vec<u64> }
pub struct LinkMetadata { pub name: String }
pub enum MetadataWrapper { Layout(LayoutMetadata), Link(LinkMetadata) }
pub struct Metablock { pub metadata: MetadataWrapper }
pub struct Keys { k: u64 }

// stage predicates: only the stage functions' postconditions can establish them
pub uninterp spec fn owner_gate(mb: Metablock, keys: Keys, l: LayoutMetadata) -> bool;
pub uninterp spec fn unexpired(l: LayoutMetadata) -> bool;
pub uninterp spec fn thresholds_ok(l: LayoutMetadata, dir: Seq<char>, m: Map<Seq<char>, LinkMetadata>) -> bool;
pub uninterp spec fn rules_ok(items: Seq<u64>, m: Map<Seq<char>, LinkMetadata>) -> bool;

#[verifier::external_body]
fn verify_layout_signatures(layout: &Metablock, layout_keys: &Keys) -> (r: Result<MetadataWrapper>)
    ensures r is Ok ==> r->Ok_0 is Layout && owner_gate(*layout, *layout_keys, r->Ok_0->Layout_0)
{ unimplemented!() }
#[verifier::external_body]
fn verify_layout_expiration(layout: &LayoutMetadata) -> (r: Result<()>)
    ensures r is Ok ==> unexpired(*layout)
{ unimplemented!() }
pub uninterp spec fn view_links(m: HashMap<String, LinkMetadata>) -> Map<Seq<char>, LinkMetadata>;

#[verifier::external_body]
fn load2(layout: &LayoutMetadata, link_dir: &str) -> (r: Result<HashMap<String, LinkMetadata>>)
    requires unexpired(*layout)
    ensures r is Ok ==> thresholds_ok(*layout, link_dir@, view_links(r->Ok_0))
{ unimplemented!() }

#[verifier::external_body]
fn verify_all_item_rules(steps: &Vec<u64>, reduced: &HashMap<String, LinkMetadata>) -> (r: Result<()>)
    ensures r is Ok ==> rules_ok(steps@, view_links(*reduced))
{ unimplemented!() }

#[verifier::external_body]
fn run_all_inspections(layout: &LayoutMetadata) -> (r: Result<HashMap<String, LinkMetadata>>)
    requires
        unexpired(*layout),
        exists|dir: Seq<char>, m: Map<Seq<char>, LinkMetadata>| #[trigger] thresholds_ok(*layout, dir, m) && rules_ok(layout.steps@, m),
{ unimplemented!() }

pub fn in_toto_verify(layout: &Metablock, layout_keys: Keys, link_dir: &str) -> (r: Result<u64>)
    ensures r is Ok ==> exists|l: LayoutMetadata| owner_gate(*layout, layout_keys, l) && unexpired(l)
{
    let layout = match verify_layout_signatures(layout, &layout_keys)? {
        MetadataWrapper::Layout(inner) => inner,
        _ => {
            return Err(Error::IllegalArgument(
                "The input Metablock is not a layout.".to_string(),
            ))
        }
    };
    verify_layout_expiration(&layout)?;
    let reduced_link_files = load2(&layout, link_dir)?;
    verify_all_item_rules(&layout.steps, &reduced_link_files)?;
    let inspection_link_files = run_all_inspections(&layout)?;
    Ok(1)
}
} // verus!
fn main() {}
