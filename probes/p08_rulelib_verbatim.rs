use vstd::prelude::*;
use std::collections::{BTreeMap, BTreeSet, HashMap};
use std::path::PathBuf;
verus! {
#[derive(Debug)]
pub enum Error { VerificationFailure(String), ArtifactRuleError(String), IllegalArgument(String) }
pub type Result<T> = std::result::Result<T, Error>;
pub mod path_clean { use vstd::prelude::*; verus!{ #[verifier::external_body] pub fn clean(p: &str) -> std::path::PathBuf { unimplemented!() } } }

#[derive(Debug, Clone, PartialEq, Eq, Hash, PartialOrd, Ord)]
pub enum HashAlgorithm { Sha256, Sha512, Unknown(String) }
#[derive(Debug, Clone, PartialEq, Eq)]
pub struct HashValue(Vec<u8>);
pub type TargetDescription = HashMap<HashAlgorithm, HashValue>;

#[derive(Debug, Clone, PartialEq, Eq, PartialOrd, Ord, Hash)]
pub struct VirtualTargetPath(String);
impl VirtualTargetPath {
    pub fn new(path: String) -> Result<Self> { Ok(VirtualTargetPath(path)) }
    pub fn value(&self) -> &str { &self.0 }
    #[verifier::external_body]
    pub(crate) fn matches(&self, pattern: &str) -> Result<bool> { unimplemented!() }
}
#[derive(Debug, Clone, PartialEq, Eq)]
pub enum Artifact { Materials, Products }
#[derive(Debug, Clone, PartialEq, Eq)]
pub enum ArtifactRule {
    Create(VirtualTargetPath), Delete(VirtualTargetPath), Modify(VirtualTargetPath), Allow(VirtualTargetPath),
    Require(VirtualTargetPath), Disallow(VirtualTargetPath),
    Match { pattern: VirtualTargetPath, in_src: Option<String>, with: Artifact, in_dst: Option<String>, from: String },
}
impl ArtifactRule {
    pub fn pattern(&self) -> &VirtualTargetPath {
        match self {
            ArtifactRule::Create(pattern) => pattern,
            ArtifactRule::Delete(pattern) => pattern,
            ArtifactRule::Modify(pattern) => pattern,
            ArtifactRule::Allow(pattern) => pattern,
            ArtifactRule::Require(pattern) => pattern,
            ArtifactRule::Disallow(pattern) => pattern,
            ArtifactRule::Match { pattern, .. } => pattern,
        }
    }
}
pub trait SupplyChainItem {
    fn name(&self) -> &str;
    fn expected_materials(&self) -> &Vec<ArtifactRule>;
    fn expected_products(&self) -> &Vec<ArtifactRule>;
}
pub struct LinkMetadata {
    pub name: String,
    pub materials: BTreeMap<VirtualTargetPath, TargetDescription>,
    pub products: BTreeMap<VirtualTargetPath, TargetDescription>,
}
fn canonicalize_path(path: &VirtualTargetPath) -> Option<VirtualTargetPath> {
    let path = path_clean::clean(path.value());
    VirtualTargetPath::new(path.into_os_string().into_string().unwrap()).ok()
}

fn verify_match_rule(
    rule: &ArtifactRule,
    src_artifacts: &BTreeMap<VirtualTargetPath, TargetDescription>,
    src_artifact_queue: &BTreeSet<VirtualTargetPath>,
    items_metadata: &HashMap<String, LinkMetadata>,
) -> BTreeSet<VirtualTargetPath> {
    let mut consumed = BTreeSet::new();

    match rule {
        ArtifactRule::Match {
            pattern,
            in_src,
            with,
            in_dst,
            from,
        } => {
            let dst_link = match items_metadata.get(from) {
                Some(lm) => lm,
                None => {
                    return consumed;
                }
            };

            let dst_artifact = match with {
                Artifact::Materials => &dst_link.materials,
                Artifact::Products => &dst_link.products,
            };

            let src_artifacts: BTreeMap<VirtualTargetPath, TargetDescription> =
                src_artifacts
                    .iter()
                    .map(|_p0| { let (path, value) = _p0;
                        (
                            canonicalize_path(path)
                                .unwrap_or_else(|| path.clone()),
                            value.clone(),
                        )
                    })
                    .collect();

            let dst_artifacts: BTreeMap<VirtualTargetPath, TargetDescription> =
                dst_artifact
                    .iter()
                    .map(|_p0| { let (path, value) = _p0;
                        (
                            canonicalize_path(path)
                                .unwrap_or_else(|| path.clone()),
                            value.clone(),
                        )
                    })
                    .collect();

            let dst_prefix = {
                match in_dst {
                    None => String::new(),
                    Some(dst_dir) => {
                        let mut res = PathBuf::new();
                        res.push(dst_dir);
                        let mut res = res.to_string_lossy().to_string();
                        res.push('/');
                        res
                    }
                }
            };

            let src_prefix = {
                match in_src {
                    None => String::new(),
                    Some(src_dir) => {
                        let mut res = PathBuf::new();
                        res.push(src_dir);
                        let mut res = res.to_string_lossy().to_string();
                        res.push('/');
                        res
                    }
                }
            };

            for src_path in src_artifact_queue {
                let src_base_path = src_path
                    .value()
                    .strip_prefix(&src_prefix)
                    .unwrap_or_else(|| src_path.value());
                let src_base_path =
                    VirtualTargetPath::new(src_base_path.to_string())
                        .expect("Unexpected VirtualTargetPath creation failed");

                if let Err(e) = src_base_path.matches(pattern.value()) {
                    continue;
                }

                let dst_path = {
                    let mut res = PathBuf::new();
                    res.push(&dst_prefix);
                    res.push(src_base_path.value());
                    VirtualTargetPath::new(res.to_string_lossy().to_string())
                        .expect("Unexpected VirtualTargetPath creation failed")
                };

                if let Some(dst_artifact) = dst_artifacts.get(&dst_path) {
                    if src_artifacts[src_path] == *dst_artifact {
                        consumed.insert(src_path.clone());
                    }
                }
            }
        }
        _ => panic!("Unexpected rule type"),
    }

    consumed
}

pub(crate) fn apply_rules_on_link(
    item: &Box<dyn SupplyChainItem>,
    reduced_link_files: &HashMap<String, LinkMetadata>,
) -> Result<()> {
    // name of the given item
    let item_name = item.name();

    // get the LinkMetadata for the given SupplyChainItem (`step` or `inspection`)
    let src_link = reduced_link_files.get(item_name).ok_or_else(|| {
        Error::VerificationFailure(format!(
            "can not find link metadata of step {}",
            item_name,
        ))
    })?;

    // materials of this link
    let material_paths: BTreeSet<VirtualTargetPath> = src_link
        .materials
        .iter()
        .filter_map(|_p0| { let (path, _) = _p0; canonicalize_path(path) })
        .collect();

    // products of this link
    let product_paths: BTreeSet<VirtualTargetPath> = src_link
        .products
        .iter()
        .filter_map(|_p0| { let (path, _) = _p0; canonicalize_path(path) })
        .collect();

    // prepare sets of artifacts for `create`, `delete` and `modify` rules.
    // these are calculated from the link's materials and products
    let created: BTreeSet<_> =
        product_paths.difference(&material_paths).cloned().collect();
    let deleted: BTreeSet<_> =
        material_paths.difference(&product_paths).cloned().collect();
    let modified: BTreeSet<_> = material_paths
        .intersection(&product_paths)
        .cloned()
        .filter_map(|name| {
            if src_link.materials[&name] != src_link.products[&name] {
                Some(name)
            } else {
                None
            }
        })
        .collect();

    
    struct VerificationDataList<'a> {
        src_type: Artifact,
        rules: &'a Vec<ArtifactRule>,
        artifacts: &'a BTreeMap<VirtualTargetPath, TargetDescription>,
        artifact_paths: BTreeSet<VirtualTargetPath>,
    }

    let list = [
        // rule expected materials
        VerificationDataList {
            src_type: Artifact::Materials,
            rules: item.expected_materials(),
            artifacts: &src_link.materials,
            artifact_paths: material_paths,
        },
        // rule expected products
        VerificationDataList {
            src_type: Artifact::Products,
            rules: item.expected_products(),
            artifacts: &src_link.products,
            artifact_paths: product_paths,
        },
    ];

    for verification_data in list {
        // rules to apply onto the link metadata
        let rules = verification_data.rules;
        // artifacts from the link metadata of this step, whose paths are all canonicalized
        let mut queue = verification_data.artifact_paths;
        // artifacts from the link metadata of this step and their digests
        let artifacts = verification_data.artifacts;

        // for every rule, we choose those items whose path matches the given pattern
        // rule in the queue as a set named `filtered`. and use the set to filter
        // items in `queue` using rule CREATE, DELETE, MODIFY, ALLOW, REQUIRE and DISALLOW.
        // besides, use MATCH rule to filter other items.
        for rule in rules {
            let filtered: BTreeSet<_> = queue
                .iter()
                .filter(|p| p.matches(rule.pattern().value()).unwrap_or(false))
                .cloned()
                .collect();
            let consumed = match rule {
                ArtifactRule::Create(_) => {
                    filtered.intersection(&created).cloned().collect()
                }
                ArtifactRule::Delete(_) => {
                    filtered.intersection(&deleted).cloned().collect()
                }
                ArtifactRule::Modify(_) => {
                    filtered.intersection(&modified).cloned().collect()
                }
                ArtifactRule::Allow(_) => filtered,
                ArtifactRule::Require(_) => {
                    if !queue.contains(rule.pattern()) {
                        return Err(Error::ArtifactRuleError(format!(
                            r#"artifact verification failed for {:?} in REQUIRE '{:?}',
                        because {:?} is not in {:?}"#,
                            verification_data.src_type,
                            rule.pattern(),
                            rule.pattern(),
                            queue
                        )));
                    } else {
                        BTreeSet::new()
                    }
                }
                ArtifactRule::Disallow(_) => {
                    if !filtered.is_empty() {
                        return Err(Error::ArtifactRuleError(format!(
                            r#"artifact verification failed for {:?} in DISALLOW, because {:?} is disallowed by rule {:?} in {}"#,
                            verification_data.src_type,
                            filtered,
                            rule,
                            item_name,
                        )));
                    } else {
                        BTreeSet::new()
                    }
                }
                ArtifactRule::Match { .. } => verify_match_rule(
                    rule,
                    artifacts,
                    &queue,
                    reduced_link_files,
                ),
            };

            queue = queue.difference(&consumed).cloned().collect();
        }
    }

    Ok(())
}
}
fn main(){}
