#![feature(allocator_api)]
use vstd::prelude::*;
use vstd::std_specs::iter::*;
use vstd::std_specs::hash::*;
use std::collections::HashMap;
verus! {
pub mod hm_axioms {
use vstd::prelude::*;
use vstd::std_specs::iter::*;
#[verifier::external_body]
pub broadcast proof fn axiom_hm_into_iter_laws<K, V, A: std::alloc::Allocator>(it: std::collections::hash_map::IntoIter<K, V, A>)
    ensures #[trigger] it.obeys_prophetic_iter_laws(), 
{}
}
broadcast use {vstd::std_specs::hash::group_hash_axioms, hm_axioms::axiom_hm_into_iter_laws};

#[verifier::reject_recursive_types(A)]
#[verifier::reject_recursive_types(K)]
#[verifier::reject_recursive_types(V)]
#[verifier::external_type_specification]
#[verifier::external_body]
pub struct ExIntoIter<K, V, A>(std::collections::hash_map::IntoIter<K, V, A>)
where A: std::alloc::Allocator,;

#[verifier::prophetic]
pub open spec fn hm_into_iter_post<K, V, S, A: std::alloc::Allocator>(m: HashMap<K, V, S, A>, iter: std::collections::hash_map::IntoIter<K, V, A>) -> bool {
    &&& iter.obeys_prophetic_iter_laws()
    &&& iter.decrease() is Some
    &&& iter.remaining().len() == m@.dom().len()
    &&& iter.remaining().no_duplicates()
    &&& forall|i: int| 0 <= i < iter.remaining().len() ==> m@.contains_key((#[trigger] iter.remaining()[i]).0) && m@[iter.remaining()[i].0] == iter.remaining()[i].1
    &&& forall|i: int, j: int| 0 <= i < j < iter.remaining().len() ==> iter.remaining()[i].0 != iter.remaining()[j].0
}

pub assume_specification<K, V, S, A: std::alloc::Allocator>[<HashMap<K, V, S, A> as IntoIterator>::into_iter](m: HashMap<K, V, S, A>) -> (iter: std::collections::hash_map::IntoIter<K, V, A>)
    ensures
        exists|t: std::collections::hash_map::IntoIter<K, V, A>| t == iter && #[trigger] hm_into_iter_post(m, t);


pub uninterp spec fn valid(k: u64, v: u64) -> bool;
#[verifier::external_body]
fn check(k: u64, v: u64) -> (r: bool) ensures r == valid(k, v) { unimplemented!() }

pub open spec fn good(sigs: Map<u64,u64>, auth: Map<u64,u64>, k: u64) -> bool {
    sigs.contains_key(k) && auth.contains_key(k) && valid(auth[k], sigs[k])
}

fn count(signatures: HashMap<u64, u64>, auth: &HashMap<u64, u64>, threshold: u32) -> (r: bool)
    requires threshold >= 1,
    ensures r ==> exists|s: Set<u64>| s.len() >= threshold && forall|k: u64| s.contains(k) ==> good(signatures@, auth@, k)
{
    let mut signatures_needed = threshold;
    let ghost mut counted: Set<u64> = Set::empty();
    for (key_id, sig) in it: signatures
        invariant_except_break
            signatures_needed >= 1,
        invariant
            forall|i: int, j: int| 0 <= i < j < it.seq().len() ==> (#[trigger] it.seq()[i]).0 != (#[trigger] it.seq()[j]).0,
            forall|i: int| 0 <= i < it.seq().len() ==> signatures@.contains_key((#[trigger] it.seq()[i]).0) && signatures@[it.seq()[i].0] == it.seq()[i].1,
            forall|k: u64| counted.contains(k) ==> exists|i: int| 0 <= i < it.index() && (#[trigger] it.seq()[i]).0 == k,
            counted.len() == threshold - signatures_needed,
            forall|k: u64| counted.contains(k) ==> good(signatures@, auth@, k),
    {
        match auth.get(&key_id) {
            Some(pub_key) => {
                if check(*pub_key, sig) {
                    proof { counted = counted.insert(key_id); }
                    signatures_needed -= 1;
                }
            }
            None => {}
        }
        if signatures_needed == 0 {
            break;
        }
    }
    signatures_needed == 0
}
} // verus!
fn main() {}
