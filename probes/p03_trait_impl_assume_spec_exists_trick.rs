#![feature(allocator_api)]
use vstd::prelude::*;
use vstd::std_specs::iter::*;
use std::collections::HashMap;
verus! {
#[verifier::reject_recursive_types(A)]
#[verifier::reject_recursive_types(K)]
#[verifier::reject_recursive_types(V)]
#[verifier::external_type_specification]
#[verifier::external_body]
pub struct ExIntoIter<K, V, A>(std::collections::hash_map::IntoIter<K, V, A>)
where A: std::alloc::Allocator,;

pub uninterp spec fn foo<K,V,A: std::alloc::Allocator>(i: std::collections::hash_map::IntoIter<K, V, A>) -> bool;

pub assume_specification<K, V, S, A: std::alloc::Allocator>[<HashMap<K, V, S, A> as IntoIterator>::into_iter](m: HashMap<K, V, S, A>) -> (iter: std::collections::hash_map::IntoIter<K, V, A>)
    ensures exists|t: std::collections::hash_map::IntoIter<K, V, A>| #[trigger] foo(t) && t == iter;

fn probe3(m: HashMap<u64, u64>) {
    let it = <HashMap<u64,u64> as IntoIterator>::into_iter(m);
    assert(foo(it));
}
}
fn main() {}
