use vstd::prelude::*;
use std::collections::HashMap;
verus! {

pub enum Error { VerificationFailure(String), IllegalArgument(String) }
pub type Result<T> = std::result::Result<T, Error>;

#[derive(PartialEq, Eq, Hash)]
pub struct KeyId(String);
pub struct PublicKey { key_id: KeyId }

pub struct ArtifactRule { x: u8 }
pub trait SupplyChainItem {
    fn name(&self) -> &str;
    fn expected_materials(&self) -> &Vec<ArtifactRule>;
    fn expected_products(&self) -> &Vec<ArtifactRule>;
}
pub struct Step { pub name: String, pub threshold: u32, pub expected_materials: Vec<ArtifactRule>, pub expected_products: Vec<ArtifactRule> }
impl Clone for Step { #[verifier::external_body] fn clone(&self) -> Self { unimplemented!() } }
impl SupplyChainItem for Step {
    fn name(&self) -> &str { &self.name }
    fn expected_materials(&self) -> &Vec<ArtifactRule> { &self.expected_materials }
    fn expected_products(&self) -> &Vec<ArtifactRule> { &self.expected_products }
}
pub struct LayoutMetadata { pub steps: Vec<Step>, pub keys: HashMap<KeyId, PublicKey> }
pub struct LinkMetadata { pub name: String }
pub enum MetadataWrapper { Layout(LayoutMetadata), Link(LinkMetadata) }
pub struct Metablock { pub metadata: MetadataWrapper }

#[verifier::external_body]
fn verify_layout_signatures(layout: &Metablock, layout_keys: &HashMap<KeyId, PublicKey>) -> Result<MetadataWrapper> { unimplemented!() }
#[verifier::external_body]
fn verify_layout_expiration(layout: &LayoutMetadata) -> Result<()> { unimplemented!() }
#[verifier::external_body]
fn verify_all_item_rules(steps: &Vec<Box<dyn SupplyChainItem>>, reduced_link_files: &HashMap<String, LinkMetadata>) -> Result<()> { unimplemented!() }
#[verifier::external_body]
fn get_summary_link(layout: &LayoutMetadata, reduced_link_files: &HashMap<String, LinkMetadata>, name: &str) -> Result<Metablock> { unimplemented!() }
#[verifier::external_body]
fn load_reduced(layout: &LayoutMetadata, link_dir: &str) -> Result<HashMap<String, LinkMetadata>> { unimplemented!() }

#[verifier::external_body]
fn boxed_steps(steps: &Vec<Step>) -> Vec<Box<dyn SupplyChainItem>> { unimplemented!() }

pub fn in_toto_verify(
    layout: &Metablock,
    layout_keys: HashMap<KeyId, PublicKey>,
    link_dir: &str,
    step_name: Option<&str>,
) -> Result<Metablock> {
    let layout = match verify_layout_signatures(layout, &layout_keys)? {
        MetadataWrapper::Layout(inner) => inner,
        _ => {
            return Err(Error::IllegalArgument(
                "The input Metablock is not a layout.".to_string(),
            ))
        }
    };

    // Verify layout expiration date
    verify_layout_expiration(&layout)?;
    let mut reduced_link_files = load_reduced(&layout, link_dir)?;

    let steps = boxed_steps(&layout.steps);
    // Verify artifact rules for steps of layout
    verify_all_item_rules(&steps, &reduced_link_files)?;

    get_summary_link(&layout, &reduced_link_files, step_name.unwrap_or(""))
}
} // verus!
fn main() {}
