use vstd::prelude::*;
use vstd::string::*;
verus! {
pub assume_specification [String::len] (s: &String) -> (r: usize)
    ensures r == vstd::utf8::encode_utf8(s@).len();

pub struct KeyId(String);

impl KeyId {
    /// Return the first 8 hex digits of the key id
    pub fn prefix(&self) -> String {
        assert!(self.0.len() >= 8);
        self.0[0..8].to_string()
    }
}

fn t(s: &str) -> (r: usize)
  ensures r == s@.len()
{
    s.len()
}
} // verus!
fn main() {}
